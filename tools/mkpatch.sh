#!/bin/bash
# mkpatch.sh <name> <file> <python-expr-old> <new>  : make selftest/<name>.diff by replacing text in a scratch copy of /repo
# usage: tools/mkpatch.sh name path/in/repo 'old text' 'new text'
set -e
name=$1; file=$2; old=$3; new=$4
tmp=$(mktemp -d)
mkdir -p $tmp/a/$(dirname $file) $tmp/b/$(dirname $file)
cp /repo/$file $tmp/a/$file; cp /repo/$file $tmp/b/$file
python3 - "$tmp/b/$file" "$old" "$new" <<'PY'
import sys
p,old,new=sys.argv[1:4]
s=open(p).read()
assert s.count(old)>=1, 'old text not found'
open(p,'w').write(s.replace(old,new,1))
PY
(cd $tmp && diff -u a/$file b/$file > /verif/selftest/$name.diff) || true
rm -rf $tmp
echo "selftest/$name.diff: $(grep -c '^[+-][^+-]' /verif/selftest/$name.diff) changed lines"

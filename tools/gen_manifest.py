#!/usr/bin/env python3
"""Regenerates /verif/MANIFEST.json from the table below (claimed checks) and
the list of properties (everything not claimed goes to not_applicable)."""
import json, os
V = os.path.dirname(os.path.dirname(os.path.abspath(__file__)))

NOTE = ('necessary structural conditions are decided on every path / call site / instantiation of the current '
        'source (MIR facts of the resolved program); the behaviour itself is not decided. Trusted: rustc MIR '
        'construction and callee resolution, the qmir extractor, the rule engines (validated both ways by '
        '/verif/seeded and /verif/selftest), the oracle tables in DESIGN.md, Linux cfg only.')

CLAIMED = {
 'C01': ('must-fill ghost-state abstract interpretation of the read handlers, alignment/interval facts for the zero-once request, data-dependence pairing and dispatch rules, bit evaluation of entry predicates over the descriptor partitions, sweep typestate of the flow closure',
         'every Ok(n != 0) of a read handler is preceded by a fill of the caller buffer on all paths, backend read counts are compared with the requested length, zero-once covers exactly the cluster, installed fresh clusters are registered as new, every mapping kind is dispatched, L2 entries are classified as the specification says (216 descriptor partitions), an installed host cluster lies inside the granted run, the span released for a replaced compressed extent is exactly what it touches, entry predicates consulted on the read path follow the cluster kind, every Ok flush_meta/shrink_caches has swept every metadata kind (reopen clause); index arithmetic of the lookup/split, overlay order and equality with a reference disk not decided', 'C01'),
 'C02': ('dirty-tracking typestate over the async call graph (tabulating abstract interpretation)',
         'mutation=>dirty, victims=>flusher, cleared=>written, complete sweeps before Ok, zero-once not bypassed, whole-slice writes, no cache entry dropped without a dirty-flag decision, flag cleared no later than the release of the guard held across the write, popped top-table block written before Ok, in-use slices not preferred for eviction, a block of a top table is written where it was taken from, the flag protocol the flag read relies on (C18.2): decided on all paths of all public operations; byte equality after reopen not decided', 'C02'),
 'C04': ('backend-effect ordering typestate with history closure (tabulating abstract interpretation over MIR)',
         'ordering obligations O1-O8 + phase rule at every backend write on every path, closed over all API histories; crash images themselves not decided', 'C04'),
 'C05': ('must-pass-through / typestate over the async call graph + sibling check of the fsync implementations',
         'fsync_range reaches the barrier, every backend fsync reaches a sync primitive, flush_meta complete on every Ok path, slices written whole and only after zero-once resolution, runs returned by the allocator built from adjacent pieces only, every flush phase under the flush mutex, in-use slices not preferred for eviction, dirty entries never dropped from the cache, partial table writes land where they were taken from, sums of a run count only with adjacent pieces; per-block crash values not decided', 'C05'),
 'C06': ('held-lock dataflow at request creation/poll, guard provenance of decisions and mutations (critical-section rules)',
         'linearizability over schedules is NOT decided; decided are necessary critical-section conditions: check-then-act under one slice write guard, requests created under the per-cluster guard complete under it, COW merge under per-cluster and L2 slice write guards, eviction prefers unused entries (test present and not subordinated in an ordering key), entries leave the cache only unused, a cached slice is reloaded from the file only behind an is_update() test', 'C06'),
 'C07': ('held-lock dataflow, mode-aware lock-order cycle search, guard-across-await scan, insert/lookup typestate',
         'deadlock clause: lock-order relation acyclic (mode aware, one thread per device), no self re-acquisition (one finding per route), no blocking guard across awaits, no suspension between cache insert and re-lookup, victim selection looks at the reference count (an entry whose loader is suspended is not evicted while unused ones exist); livelock/termination not decided', 'C07'),
 'C03': ('bit-provenance abstract interpretation of the installers, must-use def-use of the displaced allocation, data-dependence provenance of every release',
         'COPIED flag and offset field of installed L1/L2 entries, fate of the allocation displaced by map_cluster, source of every free_clusters argument, no constant-zero release count, check-then-act under one slice guard, release of the fresh cluster when a COW step fails, pieces of an abandoned run released, displaced allocation released once: decided at every site; equality of stored and counted references (arithmetic of spans and counts) not decided', 'C03'),
 'C11': ('alignment/interval abstract interpretation of the discard walk (order facts, loop invariants), dominance and data-dependence rules on the per-cluster routine, path-condition typed constants',
         'inward rounding and clipping of the walked range, exact one-cluster advance, argument-independent success, no-op exits dominate every mutation, stored entry keeps zeros with a backing file, provenance of release and punch, zero-write fallback for every failure of the request, release/punch adjacency, decision and clearing under one slice guard, clipping arithmetic on the raw arguments bounded by a check or a clipping operation: decided on every path; bytes read after discard and persistence not decided', 'C11'),
 'C12': ('backend-effect ordering typestate (growth sites of the C04 engine), fault-model typestate for the rollback, data-dependence provenance of the rollback closure, dominance of the zero-length guard, held-lock dataflow',
         'header switch after the relocated table is synced, old table released after the synced switch, rollback runs and restores old-state values, directly written refblock private and zero-padded, zero-length requests filtered, no self-deadlock on the growth path, the count mirrored into the L1 table equals the count committed to the header, installs stay inside a short grant at a refblock boundary, the table copy leaves its source untouched, no top-table write in the group that zeroes its range, new-cluster mark before the slice of a freshly installed table cluster is inserted; computed sizes not decided', 'C12'),
 'C09': ('interval abstract interpretation with value numbering (constant propagation per cluster size x refcount width, order facts), header layout scan',
         'version-2 defaults at every Ok exit of the parser, header layout and codec configuration, panic freedom of the device constructor over the accept set (182 configurations), derived geometry = specification formulas in 91 configurations, bounce read of a compressed cluster covers the data, classification of every L2 descriptor partition, table cluster counts of the formatter cover the byte sizes, extension cursor 8-aligned, no rejecting branch on a header field behind a 104-byte header without a test of header_length, L1 entry count covers the size and equals the header l1_size, derived geometry also with custom cache parameters (84 configurations with different slice sizes), entry predicates on the read path follow the cluster kind; agreement of reads with an independent implementation and validity of formatted images not decided', 'C09'),
 'C14': ('interval abstract interpretation over MIR (value numbering, order facts, widening, cluster_bits partitioning, small value sets for enum discriminants)',
         'accept set of the header parser at every Ok exit, panic freedom of the parser, the extension parser and the device constructor for every byte string / accepted header, bounded refcount-table allocation, progress of the extension walk, inflate status accept set, entry lookups of the L1 / L2 / refcount table total for every index; operations on devices with malformed L1/L2/refcount tables not decided', 'C14'),
 'C15': ('bit-provenance abstract interpretation of accessor and packing code against the specification bit tables; layout and configuration scans; field-use agreement of inverse key functions',
         'accessor bit fields, compressed descriptor split (13 cluster sizes), refcount get/set for 7 widths x 16 indices, byte-order symmetry, header layout and serialiser configuration, backing-name offset provenance, 8-aligned extension cursor in the parser and unpadded length field in the serialiser, cluster_offset composes the indices back to the offset, every sector-count bit of a compressed descriptor reaches the decoded length, the constructor derives the geometry fields the address functions use as specified (default and custom cache parameters); arithmetic results and round trips not decided', 'C15'),
 'C16': ('alignment abstract interpretation (multiples of 2^shift with symbolic block/slice/cluster shifts over the interval engine), modular assume/guarantee over the async call graph, buffer provenance',
         'offset, length and buffer of every backend read/write/zero request, sizes of all table buffers and all recorded table offsets are block multiples on every path, from the validated public API down to the trait calls; assumes cluster >= slice >= block, cluster-aligned host offsets in a spec-valid image, an aligned caller buffer', 'C16'),
 'C17': ('error-value def-use discipline + restore/undo typestate in the fault model',
         'no dropped Qcow2Result, no error-discarding combinator and no Err arm that neither reads the error nor acts; restore and release when a COW step fails; flags/queue entries restored on error exits; rollback and zero-write fallback on failing requests; no shrink after a failed flush and no short-circuiting join over table writes while a failed write leaves its slice clean; state after retries not decided', 'C17'),
 'C08': ('guard provenance + no-suspension scan/increment rule, control/data dependence of the free-hint updates, path-sensitive run-restart pairing',
         'scan+increment atomic under one guard, allocated range derives from the scan, hint updates guarded, release decided under the unmapping guard, run start re-established on restart, pieces of a returned run compared for adjacency (also where the count is summed into a release), installed clusters inside the granted run, in-use test of the eviction not subordinated, previous entry put back when a COW step fails; numeric ownership not decided', 'C08'),
 'C10': ('guarded reachability (read-only test / dirty-token gates as path facts over the async call graph), dominance and provenance rules',
         'every primary modifying effect lies behind a read-only test or a dirty-token test on every path from every public method; backing devices forced read-only; only reads on the backing receiver; COW structural conditions, roll-back of a failed copy, no fresh install for Compressed/Backing mappings outside the COW routine (abstract interpretation per forced mapping kind), the flag word built by the constructor answers the read-only / backing predicates for every combination, no error-discarding combinator on the COW path; byte-level merge not decided', 'C10'),
 'C13': ('dominance of validation checks over every suspension point + flow-aware data-dependence slices (taint of raw arguments into overflow-checked arithmetic) + interval abstract interpretation of the validating bodies and of the flag word',
         'validation checks exist, reject without suspending and dominate every await; no overflow-checked arithmetic on raw arguments before a check on them (additions need a bounding check), zero-length write returns before any mapping work; beyond-the-end credit only for backing devices, device-kind flag predicates test separate bits and the flag word of the constructor answers them for every combination, constant decrements in the validating bodies proved not to underflow (interval analysis); other arithmetic results not decided', 'C13'),
 'C18': ('flag-protocol typestate over the async call graph + loop/phase dominance rule',
         'need_flush raised adjacent to every dirtying event; lowered only before complete sweeps of every metadata kind and raised again (with a value that is true on that path) before every error return, with and without backend faults; refcount sweep in every flush pass; cache entries dropped only unused and never while dirty; agreement of file and memory as such not decided', 'C18'),
 'C19': ('sibling cross-check of the three Qcow2IoOps implementations (data-dependence slices, dominance, loop/accumulation rule) + fault-model typestate for the punch fallback',
         'read count provenance, short-write handling, flush of buffered writers, offset pass-through, a read primitive that reports short reads, shared punch helper and flags with the requested range passed unchanged and no Ok bypassing the syscall, zero-write fallback, sync primitive reachability agree across the three backends; equality with the host-file model not decided', 'C19'),
 'C20': ('alignment abstract interpretation of the rqcow2 target, must-pass-through on the copy routines, data-dependence and sibling field-agreement rules on the leak check',
         'block-multiple buffer lengths and aligned buffers at every read_at/write_at of the CLI, every chunk read is written, leak verdict reaches Err, scan bound uses the geometry fields of the refcount-table index and falls back to the table size when the table is full, used-cluster set covers every mapping kind holding a host cluster and exactly the clusters a compressed extent touches, guest walks cover the virtual size, formatter cluster counts cover the table sizes, no arithmetic-overflow panic of the CLI on header fields, in-use set not fed from Backing mappings, L1 entry count covers the size and equals the header l1_size; byte equality of convert and validity of formatted images as such not decided', 'C20'),
}

PENDING_REASON = 'rule engine for this property is not finished/validated yet (DESIGN.md section 7: not shipped as a proxy)'


def main():
    props = [json.loads(l) for l in open(os.path.join(V, 'properties.jsonl'))]
    checks = []
    na = []
    for p in props:
        pid = p['id']
        if pid in CLAIMED:
            tech, text, ref = CLAIMED[pid]
            checks.append({
                'property_id': pid,
                'quick_cmd': './check %s --tier quick' % pid,
                'thorough_cmd': './check %s --tier thorough' % pid,
                'evidence_file': 'evidence/%s.json' % pid,
                'replay_cmd_template': 'cat {path}',
                'engine': 'qv',
                'level_claimed': {'category': 'other', 'text': text, 'design_ref': 'DESIGN.md section 3, ' + ref},
                'level_note': NOTE,
                'technique': 'static analysis: ' + tech,
            })
        else:
            na.append({'property_id': pid, 'reason': NA.get(pid, PENDING_REASON)})
    m = {
        'version': 1,
        'setup_cmd': 'cd /verif/qmir && CARGO_NET_OFFLINE=true cargo build --offline',
        'hooks': {
            'guard': 'ublk_org_qcow2_rs_verif',
            'enable': 'none needed: the checks read the source through a rustc_private driver (RUSTC_WORKSPACE_WRAPPER); nothing is injected into /repo',
            'baseline_off_cmd': 'cd /repo && cargo test --workspace --no-fail-fast --offline',
            'source_commits': [],
            'add_only': True,
        },
        'engines': [
            {'name': 'qmir', 'path': 'qmir/', 'serves_properties': sorted(CLAIMED),
             'kind_free_text': 'rustc_private driver dumping mir_built facts (bodies, types, impls) of /repo as JSON'},
            {'name': 'qv', 'path': 'qv/', 'serves_properties': sorted(CLAIMED),
             'kind_free_text': 'Python rule engines over the facts: tabulating inter-procedural abstract interpreter (async reading), lock-order, typestate, dominance, error-discipline rules'},
        ],
        'checks': checks,
        'not_applicable': na,
        'notes': 'static-analysis family; every check re-extracts the facts from /repo\'s working tree; known genuine defects are listed in known_findings.json with demonstrations under findings/',
    }
    with open(os.path.join(V, 'MANIFEST.json'), 'w') as fh:
        json.dump(m, fh, indent=1)
    print('claimed', sorted(CLAIMED), 'n/a', len(na))

NA = {}
if __name__ == '__main__':
    main()

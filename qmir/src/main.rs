// qmir — MIR facts extractor for the qcow2-rs static checks.
//
// rustc_private driver, injected with RUSTC_WORKSPACE_WRAPPER.  For the crates
// named in QMIR_CRATES (comma separated, default "qcow2_rs,rqcow2,qfix") it
// dumps, at `after_expansion`, a JSON description of every `mir_built` body
// (pre-borrowck, generic, pre-coroutine-transform) plus ADT layouts and the
// trait-impl table into $QMIR_OUT/<crate>-<kind>.json.  All other crates are
// compiled untouched.
#![feature(rustc_private)]
#![allow(clippy::all)]

extern crate rustc_abi;
extern crate rustc_driver;
extern crate rustc_hir;
extern crate rustc_interface;
extern crate rustc_middle;
extern crate rustc_session;
extern crate rustc_span;

use rustc_driver::{Callbacks, Compilation};
use rustc_hir::def::DefKind;
use rustc_hir::def_id::{DefId, LocalDefId};
use rustc_interface::interface::Compiler;
use rustc_middle::mir::{
    self, AggregateKind, BasicBlock, Body, Const, Operand, Place, ProjectionElem, Rvalue,
    StatementKind, TerminatorKind,
};
use rustc_middle::ty::{self, GenericArgKind, Ty, TyCtxt, TyKind};
use rustc_span::Span;
use std::collections::HashMap;
use std::fmt::Write as _;

// ---------------------------------------------------------------- JSON helpers

fn jstr(s: &str) -> String {
    let mut o = String::with_capacity(s.len() + 2);
    o.push('"');
    for c in s.chars() {
        match c {
            '"' => o.push_str("\\\""),
            '\\' => o.push_str("\\\\"),
            '\n' => o.push_str("\\n"),
            '\r' => o.push_str("\\r"),
            '\t' => o.push_str("\\t"),
            c if (c as u32) < 0x20 => {
                let _ = write!(o, "\\u{:04x}", c as u32);
            }
            c => o.push(c),
        }
    }
    o.push('"');
    o
}

fn jlist(v: &[String]) -> String {
    let mut o = String::from("[");
    for (i, e) in v.iter().enumerate() {
        if i > 0 {
            o.push(',');
        }
        o.push_str(e);
    }
    o.push(']');
    o
}

fn jobj(v: &[(&str, String)]) -> String {
    let mut o = String::from("{");
    for (i, (k, e)) in v.iter().enumerate() {
        if i > 0 {
            o.push(',');
        }
        o.push_str(&jstr(k));
        o.push(':');
        o.push_str(e);
    }
    o.push('}');
    o
}

fn jbool(b: bool) -> String {
    if b { "true".into() } else { "false".into() }
}

// ---------------------------------------------------------------- type table

struct Cx<'tcx> {
    tcx: TyCtxt<'tcx>,
    types: Vec<String>,
    tmap: HashMap<Ty<'tcx>, usize>,
}

impl<'tcx> Cx<'tcx> {
    fn path(&self, d: DefId) -> String {
        self.tcx.def_path_str(d)
    }

    fn targs(&mut self, args: &[ty::GenericArg<'tcx>]) -> String {
        let mut v = Vec::new();
        for a in args.iter() {
            match a.kind() {
                GenericArgKind::Type(t) => v.push(self.ty(t).to_string()),
                GenericArgKind::Const(c) => {
                    // keep position: consts are recorded as their string form
                    let _ = c;
                    v.push("-1".to_string());
                }
                GenericArgKind::Lifetime(_) => {}
            }
        }
        jlist(&v)
    }

    fn ty(&mut self, t: Ty<'tcx>) -> usize {
        if let Some(&i) = self.tmap.get(&t) {
            return i;
        }
        // reserve the slot first (recursive types through dyn etc. cannot
        // loop, but keep ids stable)
        let id = self.types.len();
        self.types.push(String::new());
        self.tmap.insert(t, id);
        let mut s = format!("{t}");
        if s.len() > 400 {
            s.truncate(400);
        }
        let mut f: Vec<(&str, String)> = Vec::new();
        match t.kind() {
            TyKind::Bool | TyKind::Char | TyKind::Int(_) | TyKind::Uint(_) | TyKind::Float(_)
            | TyKind::Str | TyKind::Never => {
                f.push(("k", jstr("prim")));
                f.push(("p", jstr(&s)));
            }
            TyKind::Adt(def, args) => {
                f.push(("k", jstr("adt")));
                f.push(("p", jstr(&self.path(def.did()))));
                let a = self.targs(args);
                f.push(("a", a));
                if def.is_enum() && def.variants().iter().all(|v| v.fields.is_empty()) && def.variants().len() <= 64 {
                    // field-less enum: names and discriminant values of the variants
                    let mut vs = Vec::new();
                    for (vi, d) in def.discriminants(self.tcx) {
                        let sz = d.ty.primitive_size(self.tcx).bits() as u32;
                        let sv: i128 = if d.ty.is_signed() && sz < 128 {
                            let sh = 128 - sz;
                            ((d.val << sh) as i128) >> sh
                        } else {
                            d.val as i128
                        };
                        vs.push(jobj(&[
                            ("n", jstr(def.variant(vi).name.as_str())),
                            ("d", sv.to_string()),
                        ]));
                    }
                    f.push(("enum", jlist(&vs)));
                }
            }
            TyKind::Ref(_, inner, m) => {
                f.push(("k", jstr("ref")));
                f.push(("m", jbool(m.is_mut())));
                let i = self.ty(*inner);
                f.push(("t", i.to_string()));
            }
            TyKind::RawPtr(inner, m) => {
                f.push(("k", jstr("ptr")));
                f.push(("m", jbool(m.is_mut())));
                let i = self.ty(*inner);
                f.push(("t", i.to_string()));
            }
            TyKind::Slice(inner) => {
                f.push(("k", jstr("slice")));
                let i = self.ty(*inner);
                f.push(("t", i.to_string()));
            }
            TyKind::Array(inner, _n) => {
                f.push(("k", jstr("array")));
                let i = self.ty(*inner);
                f.push(("t", i.to_string()));
            }
            TyKind::Tuple(elems) => {
                f.push(("k", jstr("tuple")));
                let v: Vec<String> = elems.iter().map(|e| self.ty(e).to_string()).collect();
                f.push(("a", jlist(&v)));
            }
            TyKind::Param(p) => {
                f.push(("k", jstr("param")));
                f.push(("p", jstr(p.name.as_str())));
                f.push(("i", p.index.to_string()));
            }
            TyKind::FnDef(d, args) => {
                f.push(("k", jstr("fndef")));
                f.push(("p", jstr(&self.path(*d))));
                let a = self.targs(args);
                f.push(("a", a));
            }
            TyKind::FnPtr(..) => {
                f.push(("k", jstr("fnptr")));
            }
            TyKind::Closure(d, args) => {
                f.push(("k", jstr("closure")));
                f.push(("p", jstr(&self.path(*d))));
                let ups: Vec<Ty<'tcx>> = args.as_closure().upvar_tys().iter().collect();
                let v: Vec<String> = ups.into_iter().map(|e| self.ty(e).to_string()).collect();
                f.push(("u", jlist(&v)));
                let pa = self.targs(args.as_closure().parent_args());
                f.push(("a", pa));
            }
            TyKind::Coroutine(d, args) => {
                f.push(("k", jstr("coroutine")));
                f.push(("p", jstr(&self.path(*d))));
                f.push(("fn", jstr(&self.path(self.tcx.parent(*d)))));
                let ups: Vec<Ty<'tcx>> = args.as_coroutine().upvar_tys().iter().collect();
                let v: Vec<String> = ups.into_iter().map(|e| self.ty(e).to_string()).collect();
                f.push(("u", jlist(&v)));
                let pa = self.targs(args.as_coroutine().parent_args());
                f.push(("a", pa));
            }
            TyKind::CoroutineClosure(d, _args) => {
                f.push(("k", jstr("coroutine_closure")));
                f.push(("p", jstr(&self.path(*d))));
            }
            TyKind::Alias(at) => {
                let d = at.kind.def_id();
                match at.kind {
                    ty::AliasTyKind::Opaque { .. } => {
                        f.push(("k", jstr("opaque")));
                        f.push(("p", jstr(&self.path(d))));
                        // the function (or other item) whose signature introduces it
                        let parent = self.tcx.parent(d);
                        f.push(("fn", jstr(&self.path(parent))));
                        let a = self.targs(at.args);
                        f.push(("a", a));
                    }
                    ty::AliasTyKind::Projection { .. } => {
                        f.push(("k", jstr("proj")));
                        f.push(("p", jstr(&self.path(d))));
                        if let Some(info) = self.tcx.opt_rpitit_info(d) {
                            if let ty::ImplTraitInTraitData::Trait { fn_def_id, .. } = info {
                                f.push(("rpitit", jstr(&self.path(fn_def_id))));
                            }
                        }
                        let a = self.targs(at.args);
                        f.push(("a", a));
                    }
                    _ => {
                        f.push(("k", jstr("alias")));
                        f.push(("p", jstr(&self.path(d))));
                        let a = self.targs(at.args);
                        f.push(("a", a));
                    }
                }
            }
            TyKind::Dynamic(preds, ..) => {
                f.push(("k", jstr("dyn")));
                if let Some(p) = preds.principal() {
                    let p = p.skip_binder();
                    f.push(("p", jstr(&self.path(p.def_id))));
                    let a = self.targs(p.args);
                    f.push(("a", a));
                }
                let mut pj = Vec::new();
                for pb in preds.projection_bounds() {
                    let pb = pb.skip_binder();
                    if let Some(t) = pb.term.as_type() {
                        let i = self.ty(t);
                        pj.push(jobj(&[("p", jstr(&self.path(pb.def_id))), ("t", i.to_string())]));
                    }
                }
                f.push(("proj", jlist(&pj)));
            }
            _ => {
                f.push(("k", jstr("other")));
            }
        }
        f.push(("s", jstr(&s)));
        {
            // layout of closed, sized types (size_of::<T>() inside generic code is resolved
            // by the analysis through the call's generic arguments)
            use rustc_middle::ty::TypeVisitableExt;
            let closed = !t.has_param() && !t.has_aliases() && !t.has_infer() && !t.has_placeholders()
                && !t.has_escaping_bound_vars() && !t.has_free_regions();
            let simple = matches!(t.kind(), TyKind::Bool | TyKind::Char | TyKind::Int(_) | TyKind::Uint(_) | TyKind::Float(_)
                | TyKind::Adt(..) | TyKind::Tuple(..) | TyKind::Array(..) | TyKind::RawPtr(..));
            if closed && simple {
                let env = ty::TypingEnv::fully_monomorphized();
                let r = std::panic::catch_unwind(std::panic::AssertUnwindSafe(|| {
                    self.tcx.layout_of(env.as_query_input(t)).ok().map(|l| (l.size.bytes(), l.align.abi.bytes()))
                }));
                if let Ok(Some((sz, al))) = r {
                    f.push(("size", sz.to_string()));
                    f.push(("align", al.to_string()));
                }
            }
        }
        self.types[id] = jobj(&f);
        id
    }

    // ------------------------------------------------------------ spans

    fn span(&self, sp: Span) -> String {
        let sm = self.tcx.sess.source_map();
        // the outermost call site is what a reader sees in the source file
        let root = sp.source_callsite();
        let lo = sm.lookup_char_pos(root.lo());
        let file = match &lo.file.name {
            rustc_span::FileName::Real(r) => match r.local_path() {
                Some(p) => p.display().to_string(),
                None => format!("{:?}", lo.file.name),
            },
            other => format!("{other:?}"),
        };
        let mut macs: Vec<String> = Vec::new();
        for e in sp.macro_backtrace() {
            match e.kind {
                rustc_span::ExpnKind::Macro(_, name) => macs.push(jstr(name.as_str())),
                rustc_span::ExpnKind::Desugaring(k) => macs.push(jstr(&format!("desugar:{k:?}"))),
                rustc_span::ExpnKind::AstPass(_) => macs.push(jstr("astpass")),
                rustc_span::ExpnKind::Root => {}
            }
        }
        jobj(&[
            ("f", jstr(&file)),
            ("l", lo.line.to_string()),
            ("x", jbool(sp.from_expansion())),
            ("m", jlist(&macs)),
        ])
    }

    // ------------------------------------------------------------ places / operands

    fn place(&mut self, body: &Body<'tcx>, p: &Place<'tcx>) -> String {
        let mut proj = Vec::new();
        let mut cur = mir::PlaceTy::from_ty(body.local_decls[p.local].ty);
        for el in p.projection.iter() {
            let e = match el {
                ProjectionElem::Deref => jobj(&[("k", jstr("deref"))]),
                ProjectionElem::Field(fi, fty) => {
                    let mut name = String::new();
                    if let TyKind::Adt(def, _) = cur.ty.kind() {
                        let vi = match cur.variant_index {
                            Some(v) => v,
                            None => rustc_abi::FIRST_VARIANT,
                        };
                        if (def.is_struct() || def.is_union() || cur.variant_index.is_some())
                            && vi.as_usize() < def.variants().len()
                        {
                            let v = def.variant(vi);
                            if fi.as_usize() < v.fields.len() {
                                name = v.fields[fi].name.to_string();
                            }
                        }
                    }
                    let t = self.ty(fty);
                    jobj(&[
                        ("k", jstr("field")),
                        ("i", fi.as_usize().to_string()),
                        ("n", jstr(&name)),
                        ("t", t.to_string()),
                    ])
                }
                ProjectionElem::Downcast(name, vi) => jobj(&[
                    ("k", jstr("downcast")),
                    ("v", vi.as_usize().to_string()),
                    ("n", jstr(&name.map(|s| s.to_string()).unwrap_or_default())),
                ]),
                ProjectionElem::Index(l) => {
                    jobj(&[("k", jstr("index")), ("l", l.as_usize().to_string())])
                }
                ProjectionElem::ConstantIndex { offset, from_end, .. } => jobj(&[
                    ("k", jstr("cindex")),
                    ("o", offset.to_string()),
                    ("e", jbool(from_end)),
                ]),
                ProjectionElem::Subslice { from, to, from_end } => jobj(&[
                    ("k", jstr("subslice")),
                    ("a", from.to_string()),
                    ("b", to.to_string()),
                    ("e", jbool(from_end)),
                ]),
                _ => jobj(&[("k", jstr("other"))]),
            };
            proj.push(e);
            cur = cur.projection_ty(self.tcx, el);
        }
        jobj(&[("l", p.local.as_usize().to_string()), ("p", jlist(&proj))])
    }

    fn konst(&mut self, owner: LocalDefId, c: &mir::ConstOperand<'tcx>) -> String {
        let t = c.const_.ty();
        let tid = self.ty(t);
        let mut f: Vec<(&str, String)> = vec![("k", jstr("const")), ("t", tid.to_string())];
        if let TyKind::FnDef(d, args) = t.kind() {
            f.push(("fn", jstr(&self.path(*d))));
            let a = self.targs(args);
            f.push(("a", a));
        } else if t.is_integral() || t.is_bool() || t.is_char() {
            let env = ty::TypingEnv::post_analysis(self.tcx, owner.to_def_id());
            let v = std::panic::catch_unwind(std::panic::AssertUnwindSafe(|| {
                c.const_.try_eval_scalar_int(self.tcx, env)
            }));
            if let Ok(Some(si)) = v {
                let bits = si.to_bits_unchecked();
                let sz = si.size().bits();
                let sval: String = if t.is_signed() {
                    // sign extend
                    let sh = 128 - sz as u32;
                    let sv = ((bits << sh) as i128) >> sh;
                    sv.to_string()
                } else {
                    bits.to_string()
                };
                f.push(("v", jstr(&sval)));
            } else {
                f.push(("u", jstr(&format!("{}", c.const_))));
            }
        } else {
            let mut s = format!("{}", c.const_);
            if s.len() > 120 {
                s.truncate(120);
            }
            f.push(("u", jstr(&s)));
        }
        let _ = Const::ty;
        jobj(&f)
    }

    fn operand(&mut self, owner: LocalDefId, body: &Body<'tcx>, o: &Operand<'tcx>) -> String {
        match o {
            Operand::Copy(p) => {
                let pl = self.place(body, p);
                jobj(&[("k", jstr("copy")), ("pl", pl)])
            }
            Operand::Move(p) => {
                let pl = self.place(body, p);
                jobj(&[("k", jstr("move")), ("pl", pl)])
            }
            Operand::Constant(c) => self.konst(owner, c),
            #[allow(unreachable_patterns)]
            _ => jobj(&[("k", jstr("otherop"))]),
        }
    }

    fn rvalue(&mut self, owner: LocalDefId, body: &Body<'tcx>, rv: &Rvalue<'tcx>) -> String {
        let mut f: Vec<(&str, String)> = Vec::new();
        match rv {
            Rvalue::Use(o, ..) => {
                f.push(("k", jstr("use")));
                let o = self.operand(owner, body, o);
                f.push(("ops", jlist(&[o])));
            }
            Rvalue::Ref(_, bk, p) => {
                f.push(("k", jstr("ref")));
                f.push(("m", jbool(matches!(bk, mir::BorrowKind::Mut { .. }))));
                let pl = self.place(body, p);
                f.push(("pl", pl));
            }
            Rvalue::RawPtr(m, p) => {
                f.push(("k", jstr("rawptr")));
                f.push(("m", jbool(format!("{m:?}").contains("Mut"))));
                let pl = self.place(body, p);
                f.push(("pl", pl));
            }
            Rvalue::Cast(kind, o, t) => {
                f.push(("k", jstr("cast")));
                f.push(("ck", jstr(&format!("{kind:?}"))));
                let o = self.operand(owner, body, o);
                f.push(("ops", jlist(&[o])));
                let t = self.ty(*t);
                f.push(("t", t.to_string()));
            }
            Rvalue::BinaryOp(op, ab) => {
                f.push(("k", jstr("bin")));
                f.push(("op", jstr(&format!("{op:?}"))));
                let a = self.operand(owner, body, &ab.0);
                let b = self.operand(owner, body, &ab.1);
                f.push(("ops", jlist(&[a, b])));
            }
            Rvalue::UnaryOp(op, a) => {
                f.push(("k", jstr("un")));
                f.push(("op", jstr(&format!("{op:?}"))));
                let a = self.operand(owner, body, a);
                f.push(("ops", jlist(&[a])));
            }
            Rvalue::Discriminant(p) => {
                f.push(("k", jstr("discr")));
                let pl = self.place(body, p);
                f.push(("pl", pl));
            }
            Rvalue::Aggregate(kind, fields) => {
                f.push(("k", jstr("agg")));
                match &**kind {
                    AggregateKind::Adt(d, vi, args, _, _) => {
                        f.push(("ak", jstr("adt")));
                        f.push(("p", jstr(&self.path(*d))));
                        f.push(("v", vi.as_usize().to_string()));
                        let adt = self.tcx.adt_def(*d);
                        if vi.as_usize() < adt.variants().len() {
                            f.push(("vn", jstr(adt.variant(*vi).name.as_str())));
                        }
                        if adt.is_enum() {
                            // discriminant value of the variant and of all variants (SwitchInt compares these)
                            let dv = adt.discriminant_for_variant(self.tcx, *vi);
                            let sz = dv.ty.primitive_size(self.tcx).bits() as u32;
                            let sx = |v: u128| -> i128 {
                                if dv.ty.is_signed() && sz < 128 {
                                    let sh = 128 - sz;
                                    ((v << sh) as i128) >> sh
                                } else {
                                    v as i128
                                }
                            };
                            f.push(("dv", sx(dv.val).to_string()));
                            let all: Vec<String> = adt
                                .discriminants(self.tcx)
                                .map(|(_i, d)| sx(d.val).to_string())
                                .collect();
                            f.push(("dvs", jlist(&all)));
                        }
                        let a = self.targs(args);
                        f.push(("a", a));
                    }
                    AggregateKind::Tuple => f.push(("ak", jstr("tuple"))),
                    AggregateKind::Array(_) => f.push(("ak", jstr("array"))),
                    AggregateKind::Closure(d, _) => {
                        f.push(("ak", jstr("closure")));
                        f.push(("p", jstr(&self.path(*d))));
                    }
                    AggregateKind::Coroutine(d, _) => {
                        f.push(("ak", jstr("coroutine")));
                        f.push(("p", jstr(&self.path(*d))));
                    }
                    AggregateKind::CoroutineClosure(d, _) => {
                        f.push(("ak", jstr("coroutine_closure")));
                        f.push(("p", jstr(&self.path(*d))));
                    }
                    AggregateKind::RawPtr(..) => f.push(("ak", jstr("rawptr"))),
                }
                let ops: Vec<String> =
                    fields.iter().map(|o| self.operand(owner, body, o)).collect();
                f.push(("ops", jlist(&ops)));
            }
            Rvalue::CopyForDeref(p) => {
                f.push(("k", jstr("use")));
                let pl = self.place(body, p);
                f.push(("ops", jlist(&[jobj(&[("k", jstr("copy")), ("pl", pl)])])));
            }
            Rvalue::Repeat(o, _) => {
                f.push(("k", jstr("repeat")));
                let o = self.operand(owner, body, o);
                f.push(("ops", jlist(&[o])));
            }
            other => {
                f.push(("k", jstr("other")));
                let mut s = format!("{other:?}");
                if s.len() > 200 {
                    s.truncate(200);
                }
                f.push(("s", jstr(&s)));
            }
        }
        jobj(&f)
    }

    // ------------------------------------------------------------ bodies

    fn body(&mut self, owner: LocalDefId, body: &Body<'tcx>) -> String {
        let tcx = self.tcx;
        let did = owner.to_def_id();
        let mut f: Vec<(&str, String)> = Vec::new();
        f.push(("path", jstr(&self.path(did))));
        let dk = tcx.def_kind(did);
        f.push(("kind", jstr(&format!("{dk:?}"))));
        if matches!(dk, DefKind::Closure | DefKind::InlineConst | DefKind::SyntheticCoroutineBody) {
            f.push(("parent", jstr(&self.path(tcx.parent(did)))));
        } else if let Some(p) = tcx.opt_parent(did) {
            f.push(("parent", jstr(&self.path(p))));
        }
        let root = tcx.typeck_root_def_id(did);
        f.push(("root", jstr(&self.path(root))));
        f.push(("coroutine", jbool(tcx.is_coroutine(did))));
        if matches!(dk, DefKind::Fn | DefKind::AssocFn) {
            f.push(("async", jbool(tcx.asyncness(did).is_async())));
            f.push(("vis", jstr(&format!("{:?}", tcx.visibility(did)))));
            let ev = tcx.effective_visibilities(());
            f.push(("reachable", jbool(ev.is_reachable(owner))));
            if let Some(t) = tcx.trait_of_assoc(did) {
                f.push(("trait_item_of", jstr(&self.path(t))));
            }
            if let Some(imp) = tcx.impl_of_assoc(did) {
                let st = tcx.type_of(imp).instantiate_identity().skip_normalization();
                let sid = self.ty(st);
                f.push(("impl_self", sid.to_string()));
                if let Some(tr) = tcx.impl_opt_trait_ref(imp) {
                    let tr = tr.instantiate_identity().skip_normalization();
                    f.push(("impl_trait", jstr(&self.path(tr.def_id))));
                }
            }
        }
        // generics of the typeck root, in index order
        {
            let g = tcx.generics_of(root);
            let mut v = Vec::new();
            for i in 0..g.count() {
                let p = g.param_at(i, tcx);
                let k = match p.kind {
                    ty::GenericParamDefKind::Type { .. } => "type",
                    ty::GenericParamDefKind::Lifetime => "lifetime",
                    ty::GenericParamDefKind::Const { .. } => "const",
                };
                v.push(jobj(&[
                    ("i", i.to_string()),
                    ("n", jstr(p.name.as_str())),
                    ("k", jstr(k)),
                ]));
            }
            f.push(("generics", jlist(&v)));
        }
        f.push(("span", self.span(body.span)));
        f.push(("argc", body.arg_count.to_string()));
        // locals
        let mut locals = Vec::new();
        for (_l, d) in body.local_decls.iter_enumerated() {
            let t = self.ty(d.ty);
            locals.push(t.to_string());
        }
        f.push(("locals", jlist(&locals)));
        // debug names
        let mut dbg = Vec::new();
        for vdi in &body.var_debug_info {
            if let mir::VarDebugInfoContents::Place(p) = &vdi.value {
                let pl = self.place(body, p);
                dbg.push(jobj(&[("n", jstr(vdi.name.as_str())), ("pl", pl)]));
            }
        }
        f.push(("dbg", jlist(&dbg)));
        // captured upvar names (closures and coroutines)
        if matches!(dk, DefKind::Closure) {
            let mut ups = Vec::new();
            for c in tcx.closure_captures(owner) {
                ups.push(jstr(c.to_symbol().as_str()));
            }
            f.push(("upvars", jlist(&ups)));
        }
        // blocks
        let mut blocks = Vec::new();
        for (bb, data) in body.basic_blocks.iter_enumerated() {
            blocks.push(self.block(owner, body, bb, data));
        }
        f.push(("blocks", jlist(&blocks)));
        jobj(&f)
    }

    fn block(
        &mut self,
        owner: LocalDefId,
        body: &Body<'tcx>,
        _bb: BasicBlock,
        data: &mir::BasicBlockData<'tcx>,
    ) -> String {
        let mut f: Vec<(&str, String)> = Vec::new();
        f.push(("cleanup", jbool(data.is_cleanup)));
        let mut st = Vec::new();
        if !data.is_cleanup {
            for s in &data.statements {
                match &s.kind {
                    StatementKind::Assign(b) => {
                        let (p, rv) = &**b;
                        let pl = self.place(body, p);
                        let r = self.rvalue(owner, body, rv);
                        st.push(jobj(&[
                            ("k", jstr("assign")),
                            ("pl", pl),
                            ("rv", r),
                            ("sp", self.span(s.source_info.span)),
                        ]));
                    }
                    StatementKind::StorageDead(l) => {
                        st.push(jobj(&[("k", jstr("dead")), ("l", l.as_usize().to_string())]));
                    }
                    StatementKind::StorageLive(l) => {
                        st.push(jobj(&[("k", jstr("live")), ("l", l.as_usize().to_string())]));
                    }
                    StatementKind::SetDiscriminant { place, variant_index } => {
                        let pl = self.place(body, place);
                        st.push(jobj(&[
                            ("k", jstr("setdiscr")),
                            ("pl", pl),
                            ("v", variant_index.as_usize().to_string()),
                        ]));
                    }
                    _ => {}
                }
            }
        }
        f.push(("st", jlist(&st)));
        let term = data.terminator();
        let sp = self.span(term.source_info.span);
        let t = if data.is_cleanup {
            jobj(&[("k", jstr("cleanup"))])
        } else {
            match &term.kind {
                TerminatorKind::Goto { target } => {
                    jobj(&[("k", jstr("goto")), ("t", target.as_usize().to_string())])
                }
                TerminatorKind::FalseEdge { real_target, .. } => {
                    jobj(&[("k", jstr("goto")), ("t", real_target.as_usize().to_string())])
                }
                TerminatorKind::FalseUnwind { real_target, .. } => {
                    jobj(&[("k", jstr("goto")), ("t", real_target.as_usize().to_string())])
                }
                TerminatorKind::SwitchInt { discr, targets } => {
                    let d = self.operand(owner, body, discr);
                    let mut tv = Vec::new();
                    for (v, bb) in targets.iter() {
                        tv.push(jobj(&[
                            ("v", jstr(&v.to_string())),
                            ("t", bb.as_usize().to_string()),
                        ]));
                    }
                    jobj(&[
                        ("k", jstr("switch")),
                        ("d", d),
                        ("ts", jlist(&tv)),
                        ("o", targets.otherwise().as_usize().to_string()),
                        ("sp", sp),
                    ])
                }
                TerminatorKind::Return => jobj(&[("k", jstr("return")), ("sp", sp)]),
                TerminatorKind::Unreachable => jobj(&[("k", jstr("unreachable"))]),
                TerminatorKind::Drop { place, target, .. } => {
                    let pl = self.place(body, place);
                    jobj(&[
                        ("k", jstr("drop")),
                        ("pl", pl),
                        ("t", target.as_usize().to_string()),
                        ("sp", sp),
                    ])
                }
                TerminatorKind::Call { func, args, destination, target, .. } => {
                    let mut cf: Vec<(&str, String)> = vec![("k", jstr("call"))];
                    if let Some((d, ga)) = func.const_fn_def() {
                        cf.push(("fn", jstr(&self.path(d))));
                        let a = self.targs(ga);
                        cf.push(("a", a));
                        cf.push(("local", jbool(d.is_local())));
                        // size_of::<T>() / align_of::<T>() of a concrete type: the layout's answer
                        let pth = self.path(d);
                        if pth.ends_with("mem::size_of") || pth.ends_with("mem::align_of") {
                            if let Some(t0) = ga.types().next() {
                                use rustc_middle::ty::TypeVisitableExt;
                                if !t0.has_param() && !t0.has_aliases() {
                                    let env = ty::TypingEnv::fully_monomorphized();
                                    if let Ok(l) = self.tcx.layout_of(env.as_query_input(t0)) {
                                        let v = if pth.ends_with("size_of") { l.size.bytes() } else { l.align.abi.bytes() };
                                        cf.push(("layout", v.to_string()));
                                    }
                                }
                            }
                        }
                        if let Some(tr) = self.tcx.trait_of_assoc(d) {
                            cf.push(("trait", jstr(&self.path(tr))));
                            cf.push(("name", jstr(self.tcx.item_name(d).as_str())));
                        } else if let Some(imp) = self.tcx.impl_of_assoc(d) {
                            let st = self.tcx.type_of(imp).instantiate_identity().skip_normalization();
                            let sid = self.ty(st);
                            cf.push(("impl_self", sid.to_string()));
                            cf.push(("name", jstr(self.tcx.item_name(d).as_str())));
                        }
                    } else {
                        let o = self.operand(owner, body, func);
                        cf.push(("fnop", o));
                    }
                    let av: Vec<String> =
                        args.iter().map(|a| self.operand(owner, body, &a.node)).collect();
                    cf.push(("args", jlist(&av)));
                    let dst = self.place(body, destination);
                    cf.push(("dst", dst));
                    match target {
                        Some(t) => cf.push(("t", t.as_usize().to_string())),
                        None => cf.push(("t", "-1".into())),
                    }
                    cf.push(("sp", sp));
                    jobj(&cf)
                }
                TerminatorKind::Assert { cond, expected, msg, target, .. } => {
                    let c = self.operand(owner, body, cond);
                    let mut m = format!("{msg:?}");
                    if m.len() > 160 {
                        m.truncate(160);
                    }
                    jobj(&[
                        ("k", jstr("assert")),
                        ("c", c),
                        ("e", jbool(*expected)),
                        ("msg", jstr(&m)),
                        ("t", target.as_usize().to_string()),
                        ("sp", sp),
                    ])
                }
                TerminatorKind::Yield { resume, .. } => {
                    jobj(&[("k", jstr("yield")), ("t", resume.as_usize().to_string())])
                }
                TerminatorKind::CoroutineDrop => jobj(&[("k", jstr("unreachable"))]),
                TerminatorKind::UnwindResume | TerminatorKind::UnwindTerminate(_) => {
                    jobj(&[("k", jstr("cleanup"))])
                }
                other => {
                    let mut s = format!("{other:?}");
                    if s.len() > 100 {
                        s.truncate(100);
                    }
                    jobj(&[("k", jstr("otherterm")), ("s", jstr(&s))])
                }
            }
        };
        f.push(("term", t));
        jobj(&f)
    }

    // ------------------------------------------------------------ items

    fn adts_and_impls(&mut self) -> (String, String, String) {
        let tcx = self.tcx;
        let mut adts = Vec::new();
        let mut impls = Vec::new();
        let mut fns = Vec::new();
        let defs: Vec<LocalDefId> = tcx.hir_crate_items(()).definitions().collect();
        for ld in defs {
            let d = ld.to_def_id();
            match tcx.def_kind(d) {
                DefKind::Struct | DefKind::Enum | DefKind::Union => {
                    let adt = tcx.adt_def(d);
                    let mut vs = Vec::new();
                    for v in adt.variants() {
                        let mut fs = Vec::new();
                        for fd in &v.fields {
                            let t = tcx.type_of(fd.did).instantiate_identity().skip_normalization();
                            let tid = self.ty(t);
                            fs.push(jobj(&[
                                ("n", jstr(fd.name.as_str())),
                                ("t", tid.to_string()),
                                ("vis", jstr(&format!("{:?}", fd.vis))),
                            ]));
                        }
                        vs.push(jobj(&[("n", jstr(v.name.as_str())), ("fields", jlist(&fs))]));
                    }
                    adts.push(jobj(&[
                        ("path", jstr(&self.path(d))),
                        ("kind", jstr(&format!("{:?}", tcx.def_kind(d)))),
                        ("repr_packed", jbool(adt.repr().packed())),
                        ("variants", jlist(&vs)),
                    ]));
                }
                DefKind::Impl { of_trait } => {
                    let st = tcx.type_of(d).instantiate_identity().skip_normalization();
                    let sid = self.ty(st);
                    let mut f: Vec<(&str, String)> = vec![("self", sid.to_string())];
                    if of_trait {
                        if let Some(tr) = tcx.impl_opt_trait_ref(d) {
                            let tr = tr.instantiate_identity().skip_normalization();
                            f.push(("trait", jstr(&self.path(tr.def_id))));
                        }
                    }
                    let mut ms = Vec::new();
                    for it in tcx.associated_items(d).in_definition_order() {
                        if it.is_fn() {
                            ms.push(jobj(&[
                                ("n", jstr(it.name().as_str())),
                                ("p", jstr(&self.path(it.def_id))),
                            ]));
                        }
                    }
                    f.push(("methods", jlist(&ms)));
                    // associated types of the impl (Self::Entry = ...)
                    let mut ats = Vec::new();
                    let items: Vec<(String, DefId)> = tcx
                        .associated_items(d)
                        .in_definition_order()
                        .filter(|it| it.is_type() && it.opt_name().is_some())
                        .map(|it| (it.opt_name().unwrap().as_str().to_string(), it.def_id))
                        .collect();
                    for (n, did) in items {
                        let t = tcx.type_of(did).instantiate_identity().skip_normalization();
                        let tid = self.ty(t);
                        ats.push(jobj(&[("n", jstr(&n)), ("t", tid.to_string())]));
                    }
                    f.push(("assoc_types", jlist(&ats)));
                    impls.push(jobj(&f));
                }
                DefKind::Trait => {
                    // default methods of local traits
                    let mut ms = Vec::new();
                    for it in tcx.associated_items(d).in_definition_order() {
                        if it.is_fn() {
                            ms.push(jobj(&[
                                ("n", jstr(it.name().as_str())),
                                ("p", jstr(&self.path(it.def_id))),
                                ("default", jbool(it.defaultness(tcx).has_value())),
                            ]));
                        }
                    }
                    impls.push(jobj(&[
                        ("trait_def", jstr(&self.path(d))),
                        ("methods", jlist(&ms)),
                    ]));
                }
                DefKind::Fn | DefKind::AssocFn => {
                    // signatures: who can return / take what
                    let sig = tcx.fn_sig(d).instantiate_identity().skip_normalization().skip_binder();
                    let ins: Vec<String> =
                        sig.inputs().iter().map(|t| self.ty(*t).to_string()).collect();
                    let out = self.ty(sig.output());
                    let ev = tcx.effective_visibilities(());
                    fns.push(jobj(&[
                        ("path", jstr(&self.path(d))),
                        ("inputs", jlist(&ins)),
                        ("output", out.to_string()),
                        ("vis", jstr(&format!("{:?}", tcx.visibility(d)))),
                        ("reachable", jbool(ev.is_reachable(ld))),
                        ("async", jbool(tcx.asyncness(d).is_async())),
                    ]));
                }
                _ => {}
            }
        }
        (jlist(&adts), jlist(&impls), jlist(&fns))
    }
}

// ---------------------------------------------------------------- driver

struct Qmir {
    out_dir: String,
    nonce: String,
}

impl Callbacks for Qmir {
    fn after_expansion<'tcx>(&mut self, _c: &Compiler, tcx: TyCtxt<'tcx>) -> Compilation {
        let krate = tcx.crate_name(rustc_span::def_id::LOCAL_CRATE).to_string();
        let wanted = std::env::var("QMIR_CRATES")
            .unwrap_or_else(|_| "qcow2_rs,rqcow2,qfix".to_string());
        if !wanted.split(',').any(|w| w == krate) {
            return Compilation::Continue;
        }
        let kinds: Vec<String> =
            tcx.crate_types().iter().map(|k| format!("{k:?}").to_lowercase()).collect();
        let is_test = tcx.sess.opts.test;
        // snapshot every body first: later queries (const evaluation) may
        // steal `mir_built` of individual items
        let owners: Vec<LocalDefId> = tcx.hir_body_owners().collect();
        let mut snap: Vec<(LocalDefId, Body<'tcx>)> = Vec::new();
        for o in owners {
            let b = tcx.mir_built(o).borrow().clone();
            snap.push((o, b));
        }
        let mut cx = Cx { tcx, types: Vec::new(), tmap: HashMap::new() };
        let mut bodies = Vec::new();
        for (o, b) in &snap {
            bodies.push(cx.body(*o, b));
        }
        let (adts, impls, fns) = cx.adts_and_impls();
        let types = jlist(&cx.types);
        let doc = jobj(&[
            ("nonce", jstr(&self.nonce)),
            ("crate", jstr(&krate)),
            ("crate_types", jlist(&kinds.iter().map(|k| jstr(k)).collect::<Vec<_>>())),
            ("test", jbool(is_test)),
            ("rustc", jstr(option_env!("CFG_VERSION").unwrap_or("nightly"))),
            ("n_bodies", bodies.len().to_string()),
            ("types", types),
            ("adts", adts),
            ("impls", impls),
            ("fns", fns),
            ("bodies", jlist(&bodies)),
        ]);
        let kind = if is_test { "test".to_string() } else { kinds.join("-") };
        let file = format!("{}/{}-{}.json", self.out_dir, krate, kind);
        let tmp = format!("{}.tmp{}", file, std::process::id());
        std::fs::write(&tmp, doc).expect("qmir: cannot write facts");
        std::fs::rename(&tmp, &file).expect("qmir: cannot rename facts");
        Compilation::Continue
    }
}

fn main() {
    let mut args: Vec<String> = std::env::args().collect();
    // RUSTC_WORKSPACE_WRAPPER passes the real rustc as argv[1]
    if args.len() > 1 && (args[1].ends_with("rustc") || args[1].contains("/rustc")) {
        args.remove(1);
    }
    let out_dir = std::env::var("QMIR_OUT").unwrap_or_else(|_| "/tmp/qmir-out".to_string());
    let nonce = std::env::var("QMIR_NONCE").unwrap_or_else(|_| "0".to_string());
    let _ = std::fs::create_dir_all(&out_dir);
    let mut cb = Qmir { out_dir, nonce };
    rustc_driver::run_compiler(&args, &mut cb);
}

"""Engine D: data-dependence slices, validation checks, dominance.

`Deps` computes, for a value inside one body, the set of *roots* it depends on:

  ('in', i)              i-th parameter of the enclosing fn (capture i of an
                         async fn body = parameter i)
  ('fn', path)           result of a call to `path` (the call's arguments are
                         followed too: results derive from arguments)
  ('field', name)        a struct field read along the way
  ('const',)             a literal
"""
from .interp import POLL_NAMES


class Deps:
    """Flow-aware: a definition is followed only if the use is reachable from it."""

    def __init__(self, program, body):
        self.p = program
        self.f = program.f
        self.b = body
        self.memo = {}
        self._reach = {}

    def reach_from(self, bi):
        r = self._reach.get(bi)
        if r is None:
            succ = self.b.succ()
            r = set()
            st = list(succ[bi])
            while st:
                x = st.pop()
                if x in r:
                    continue
                r.add(x)
                st.extend(succ[x])
            self._reach[bi] = r
        return r

    def can_reach(self, def_bi, def_si, use_bi, use_si):
        if def_bi == use_bi and (def_si is None or use_si is None or def_si < use_si):
            return True
        return use_bi in self.reach_from(def_bi)

    def of_operand(self, o, at=None):
        if o['k'] == 'const':
            return frozenset({('const',)})
        if o['k'] in ('copy', 'move'):
            return self.of_place(o['pl'], at)
        return frozenset()

    def of_place(self, pl, at=None):
        return frozenset(self._pl(pl, at, frozenset()))

    def of_local(self, l, at=None, _stack=frozenset()):
        key = (l, at)
        if key in self.memo:
            return self.memo[key]
        if (l, at) in _stack or len(_stack) > 80:
            return frozenset()
        stack = _stack | {(l, at)}
        b = self.b
        out = set()
        ds = self.p.defs(b).get(l, [])
        if not (b.is_coroutine or b.kind == 'Closure') and 1 <= l <= b.argc:
            out.add(('in', l - 1))
        for bi, bl in enumerate(b.blocks):
            if bl['cleanup']:
                continue
            for si, s in enumerate(bl['st']):
                if s['k'] == 'assign' and s['pl']['l'] == l and s['pl']['p']:
                    if at is None or self.can_reach(bi, si, at[0], at[1]):
                        out |= self._rv(s['rv'], (bi, si), stack)
        for d in ds:
            if d[0] == 'call':
                dbi = d[1]
                if at is not None and not self.can_reach(dbi, 10 ** 6, at[0], at[1]) and not (dbi != at[0] and at[0] in self.reach_from(dbi)):
                    continue
                t = b.blocks[dbi]['term']
                fn = t.get('fn')
                here = (dbi, 10 ** 6)
                if fn in POLL_NAMES:
                    for a in t['args'][:1]:
                        if a['k'] in ('copy', 'move'):
                            out |= self._pl(a['pl'], here, stack)
                    continue
                if fn:
                    out.add(('fn', fn))
                for a in t['args']:
                    if a['k'] in ('copy', 'move'):
                        out |= self._pl(a['pl'], here, stack)
                    elif a['k'] == 'const':
                        out.add(('const',))
            else:
                dbi, dsi = d[1], d[2]
                if at is not None and not self.can_reach(dbi, dsi, at[0], at[1]):
                    continue
                out |= self._rv(b.blocks[dbi]['st'][dsi]['rv'], (dbi, dsi), stack)
        res = frozenset(out)
        if not _stack:
            self.memo[key] = res
        return res

    def _pl(self, pl, at, stack):
        out = set()
        fields = [e for e in pl['p'] if e['k'] == 'field']
        for e in fields:
            if e['n']:
                out.add(('field', e['n']))
        for e in pl['p']:
            if e['k'] == 'index':
                out |= self.of_local(e['l'], at, stack)
        b = self.b
        if (b.is_coroutine or b.kind == 'Closure') and pl['l'] == 1 and fields:
            out.add(('in', fields[0]['i']))
            return out
        out |= self.of_local(pl['l'], at, stack)
        return out

    def _rv(self, rv, at, stack):
        out = set()
        if rv['k'] == 'agg' and rv.get('ak') == 'closure':
            # a closure built here: what its body reads counts as a dependence
            out.add(('closure', rv.get('p')))
            cb = self.f.body(rv.get('p'))
            if cb is not None:
                for bl in cb.blocks:
                    t = bl['term']
                    if t['k'] == 'call' and t.get('fn'):
                        out.add(('fn', t['fn']))
                    for st in bl['st']:
                        if st['k'] == 'assign':
                            for o in st['rv'].get('ops', []):
                                if o['k'] in ('copy', 'move'):
                                    for e in o['pl']['p']:
                                        if e['k'] == 'field' and e['n']:
                                            out.add(('field', e['n']))
        if rv['k'] in ('ref', 'rawptr', 'discr'):
            out |= self._pl(rv['pl'], at, stack)
        for o in rv.get('ops', []):
            if o['k'] in ('copy', 'move'):
                out |= self._pl(o['pl'], at, stack)
            elif o['k'] == 'const':
                out.add(('const',))
        return out


def first_effect_blocks(body):
    """Blocks that poll a future (the first suspension / effect points)."""
    return [bi for bi, t in body.calls() if t.get('fn') in POLL_NAMES]


def early_exit_edge(body, bi, avoid_polls=True):
    """For a switch block: the successors from which a `return` is reachable
    without passing any await (a reject / early-return edge)."""
    succ = body.succ()
    out = []
    polls = set(first_effect_blocks(body))
    rets = set(body.returns())
    for s in succ[bi]:
        seen = set()
        st = [s]
        ok = False
        while st:
            x = st.pop()
            if x in seen:
                continue
            seen.add(x)
            if x in polls:
                continue
            if x in rets:
                ok = True
                break
            # do not walk through other decisions far away: bounded search
            if len(seen) > 60:
                break
            st.extend(succ[x])
        if ok:
            out.append(s)
    return out


def returns_reached_only(body, start, polls):
    """All paths from start end in a return without an await?  Path sensitive for the variant of Option /
    Result / ControlFlow values built on the way (an `Err(..)` assigned to a result and tested by `?` further
    down - the shape a validation helper folded into its caller has)."""
    succ = body.succ()
    seen = set()
    st = [(start, ())]
    n = 0
    while st:
        x, stt = st.pop()
        if (x, stt) in seen:
            continue
        seen.add((x, stt))
        n += 1
        if n > 4000:
            return False
        if x in polls:
            return False
        state = dict(stt)
        bl = body.blocks[x]
        for s_ in bl['st']:
            if s_['k'] != 'assign':
                continue
            l = s_['pl']['l']
            if s_['pl']['p']:
                state.pop(l, None)
                continue
            rv = s_['rv']
            if rv['k'] == 'agg' and rv.get('ak') == 'adt' and 'v' in rv and rv.get('p') in (
                    'std::result::Result', 'std::option::Option', 'std::ops::ControlFlow'):
                state[l] = ('var', rv['v'])
            elif rv['k'] == 'use' and rv['ops'][0]['k'] in ('copy', 'move') and not rv['ops'][0]['pl']['p'] \
                    and rv['ops'][0]['pl']['l'] in state:
                state[l] = state[rv['ops'][0]['pl']['l']]
            elif rv['k'] == 'discr' and not rv['pl']['p'] and state.get(rv['pl']['l'], (None,))[0] == 'var':
                state[l] = ('int', state[rv['pl']['l']][1])
            else:
                state.pop(l, None)
        t = bl['term']
        nxt = succ[x]
        if t['k'] == 'call':
            dl = t['dst']['l']
            new = None
            if t.get('fn') == 'std::ops::Try::branch' and t['args'] and t['args'][0]['k'] in ('copy', 'move') \
                    and not t['args'][0]['pl']['p'] and state.get(t['args'][0]['pl']['l'], (None,))[0] == 'var':
                v = state[t['args'][0]['pl']['l']][1]
                ty = body.ty(t['args'][0]['pl']['l'])
                if ty.get('p') == 'std::result::Result':
                    new = ('var', 1 if v == 1 else 0)        # Err -> Break, Ok -> Continue
                elif ty.get('p') == 'std::option::Option':
                    new = ('var', 1 if v == 0 else 0)        # None -> Break, Some -> Continue
            if t['dst']['p'] or new is None:
                state.pop(dl, None)
            else:
                state[dl] = new
        elif t['k'] == 'switch' and t['d']['k'] in ('copy', 'move') and not t['d']['pl']['p'] \
                and state.get(t['d']['pl']['l'], (None,))[0] == 'int':
            val = state[t['d']['pl']['l']][1]
            tgt = [z['t'] for z in t['ts'] if int(z['v']) == val]
            nxt = [tgt[0]] if tgt else [t['o']]
        key = tuple(sorted(state.items()))
        for y in nxt:
            st.append((y, key))
    return True


def _step(body, x, state):
    """one block of the variant-sensitive exploration: -> (successors, new state)"""
    succ = body.succ()
    state = dict(state)
    bl = body.blocks[x]
    for s_ in bl['st']:
        if s_['k'] != 'assign':
            continue
        l = s_['pl']['l']
        if s_['pl']['p']:
            state.pop(l, None)
            continue
        rv = s_['rv']
        if rv['k'] == 'agg' and rv.get('ak') == 'adt' and 'v' in rv and rv.get('p') in (
                'std::result::Result', 'std::option::Option', 'std::ops::ControlFlow'):
            state[l] = ('var', rv['v'])
        elif rv['k'] == 'use' and rv['ops'][0]['k'] in ('copy', 'move') and not rv['ops'][0]['pl']['p'] \
                and rv['ops'][0]['pl']['l'] in state:
            state[l] = state[rv['ops'][0]['pl']['l']]
        elif rv['k'] == 'discr' and not rv['pl']['p'] and state.get(rv['pl']['l'], (None,))[0] == 'var':
            state[l] = ('int', state[rv['pl']['l']][1])
        else:
            state.pop(l, None)
    t = bl['term']
    nxt = succ[x]
    if t['k'] == 'call':
        dl = t['dst']['l']
        new = None
        if t.get('fn') == 'std::ops::Try::branch' and t['args'] and t['args'][0]['k'] in ('copy', 'move') \
                and not t['args'][0]['pl']['p'] and state.get(t['args'][0]['pl']['l'], (None,))[0] == 'var':
            v = state[t['args'][0]['pl']['l']][1]
            ty = body.ty(t['args'][0]['pl']['l'])
            if ty.get('p') == 'std::result::Result':
                new = ('var', 1 if v == 1 else 0)
            elif ty.get('p') == 'std::option::Option':
                new = ('var', 1 if v == 0 else 0)
        if t['dst']['p'] or new is None:
            state.pop(dl, None)
        else:
            state[dl] = new
    elif t['k'] == 'switch' and t['d']['k'] in ('copy', 'move') and not t['d']['pl']['p'] \
            and state.get(t['d']['pl']['l'], (None,))[0] == 'int':
        val = state[t['d']['pl']['l']][1]
        tgt = [z['t'] for z in t['ts'] if int(z['v']) == val]
        nxt = [tgt[0]] if tgt else [t['o']]
    return nxt, state


def passes_check(body, chk, target):
    """every feasible path from the entry to `target` takes a continue edge of the check (variant-sensitive: the
    reject edges of a folded validation helper re-join the continue path syntactically, but their `Err` leaves at
    the `?` that follows)"""
    cont = set(chk['cont'])
    seen = set()
    st = [(0, ())]
    n = 0
    while st:
        x, stt = st.pop()
        if (x, stt) in seen:
            continue
        seen.add((x, stt))
        n += 1
        if n > 20000:
            return False
        if x == target:
            return False
        nxt, state = _step(body, x, dict(stt))
        key = tuple(sorted(state.items()))
        for y in nxt:
            if x == chk['bi'] and y in cont:
                continue            # paths through the continue edge are fine: do not follow
            st.append((y, key))
    return True


def checks(program, body):
    """Validation checks of a body: switch blocks with an edge that returns
    without suspending.  -> [{bi, deps, reject: [succ], cont: [succ]}]"""
    dp = Deps(program, body)
    polls = set(first_effect_blocks(body))
    out = []
    succ = body.succ()
    for bi in sorted(body.reachable()):
        t = body.blocks[bi]['term']
        if t['k'] != 'switch':
            continue
        rej = [s for s in succ[bi] if returns_reached_only(body, s, polls)]
        if not rej or len(rej) == len(succ[bi]):
            continue
        deps = dp.of_operand(t['d'], (bi, 10 ** 6))
        out.append({'bi': bi, 'deps': deps, 'reject': rej, 'cont': [s for s in succ[bi] if s not in rej],
                    'order': _is_order_test(program, body, t['d'])})
    return out, dp


ORDER_OPS = ('Lt', 'Le', 'Gt', 'Ge')


def _is_order_test(program, body, op, depth=0, _seen=None):
    """the tested value comes from an order comparison (<, <=, >, >=, or a checked_* / overflowing_* operation): such a test
    bounds its operands, an equality or mask test does not"""
    if op.get('k') not in ('copy', 'move') or depth > 10:
        return False
    if _seen is None:
        _seen = set()
    l = op['pl']['l']
    if l in _seen:
        return False
    _seen.add(l)
    for d in program.defs(body).get(l, []):
        if d[0] == 'call':
            fn = body.blocks[d[1]]['term'].get('fn') or ''
            if '::checked_' in fn or '::overflowing_' in fn or fn.endswith(('::lt', '::le', '::gt', '::ge', '::cmp', '::partial_cmp')):
                return True
            t = body.blocks[d[1]]['term']
            if any(_is_order_test(program, body, a, depth + 1, _seen) for a in t['args']):
                return True
            # a closure handed to a combinator (`.map(|end| end > limit)`) that compares
            for a in t['args']:
                if a.get('k') in ('copy', 'move'):
                    ty = program.f.types[body.locals[a['pl']['l']]]
                    if ty.get('k') == 'closure':
                        cb = program.f.body(ty.get('p'))
                        if cb is not None and any(s_.get('k') == 'assign' and s_['rv']['k'] == 'bin' and s_['rv'].get('op') in ORDER_OPS
                                                  for bl in cb.blocks for s_ in bl['st']):
                            return True
        else:
            rv = body.blocks[d[1]]['st'][d[2]]['rv']
            if rv['k'] == 'bin' and rv.get('op') in ORDER_OPS:
                return True
            if rv['k'] in ('use', 'cast', 'un', 'unary', 'not', 'bin'):
                if any(_is_order_test(program, body, o, depth + 1, _seen) for o in rv.get('ops', [])):
                    return True
            if rv['k'] in ('ref', 'rawptr') and rv.get('pl'):
                if _is_order_test(program, body, {'k': 'copy', 'pl': {'l': rv['pl']['l'], 'p': []}}, depth + 1, _seen):
                    return True
            if rv['k'] == 'discr' and rv.get('pl'):
                if _is_order_test(program, body, {'k': 'copy', 'pl': {'l': rv['pl']['l'], 'p': []}}, depth + 1, _seen):
                    return True
    return False


def dominated_by_cont(body, chk, blk):
    """blk is reached only through the continue edge(s) of the check."""
    if not body.dominates(chk['bi'], blk):
        return False
    # no path from a reject successor reaches blk (they end in returns)
    return True

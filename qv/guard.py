"""Engine D: data-dependence slices, validation checks, dominance.

`Deps` computes, for a value inside one body, the set of *roots* it depends on:

  ('in', i)              i-th parameter of the enclosing fn (capture i of an
                         async fn body = parameter i)
  ('fn', path)           result of a call to `path` (the call's arguments are
                         followed too: results derive from arguments)
  ('field', name)        a struct field read along the way
  ('const',)             a literal
"""
from .interp import POLL_NAMES


class Deps:
    """Flow-aware: a definition is followed only if the use is reachable from it."""

    def __init__(self, program, body):
        self.p = program
        self.f = program.f
        self.b = body
        self.memo = {}
        self._reach = {}

    def reach_from(self, bi):
        r = self._reach.get(bi)
        if r is None:
            succ = self.b.succ()
            r = set()
            st = list(succ[bi])
            while st:
                x = st.pop()
                if x in r:
                    continue
                r.add(x)
                st.extend(succ[x])
            self._reach[bi] = r
        return r

    def can_reach(self, def_bi, def_si, use_bi, use_si):
        if def_bi == use_bi and (def_si is None or use_si is None or def_si < use_si):
            return True
        return use_bi in self.reach_from(def_bi)

    def of_operand(self, o, at=None):
        if o['k'] == 'const':
            return frozenset({('const',)})
        if o['k'] in ('copy', 'move'):
            return self.of_place(o['pl'], at)
        return frozenset()

    def of_place(self, pl, at=None):
        return frozenset(self._pl(pl, at, frozenset()))

    def of_local(self, l, at=None, _stack=frozenset()):
        key = (l, at)
        if key in self.memo:
            return self.memo[key]
        if (l, at) in _stack or len(_stack) > 80:
            return frozenset()
        stack = _stack | {(l, at)}
        b = self.b
        out = set()
        ds = self.p.defs(b).get(l, [])
        if not (b.is_coroutine or b.kind == 'Closure') and 1 <= l <= b.argc:
            out.add(('in', l - 1))
        for bi, bl in enumerate(b.blocks):
            if bl['cleanup']:
                continue
            for si, s in enumerate(bl['st']):
                if s['k'] == 'assign' and s['pl']['l'] == l and s['pl']['p']:
                    if at is None or self.can_reach(bi, si, at[0], at[1]):
                        out |= self._rv(s['rv'], (bi, si), stack)
        for d in ds:
            if d[0] == 'call':
                dbi = d[1]
                if at is not None and not self.can_reach(dbi, 10 ** 6, at[0], at[1]) and not (dbi != at[0] and at[0] in self.reach_from(dbi)):
                    continue
                t = b.blocks[dbi]['term']
                fn = t.get('fn')
                here = (dbi, 10 ** 6)
                if fn in POLL_NAMES:
                    for a in t['args'][:1]:
                        if a['k'] in ('copy', 'move'):
                            out |= self._pl(a['pl'], here, stack)
                    continue
                if fn:
                    out.add(('fn', fn))
                for a in t['args']:
                    if a['k'] in ('copy', 'move'):
                        out |= self._pl(a['pl'], here, stack)
                    elif a['k'] == 'const':
                        out.add(('const',))
            else:
                dbi, dsi = d[1], d[2]
                if at is not None and not self.can_reach(dbi, dsi, at[0], at[1]):
                    continue
                out |= self._rv(b.blocks[dbi]['st'][dsi]['rv'], (dbi, dsi), stack)
        res = frozenset(out)
        if not _stack:
            self.memo[key] = res
        return res

    def _pl(self, pl, at, stack):
        out = set()
        fields = [e for e in pl['p'] if e['k'] == 'field']
        for e in fields:
            if e['n']:
                out.add(('field', e['n']))
        for e in pl['p']:
            if e['k'] == 'index':
                out |= self.of_local(e['l'], at, stack)
        b = self.b
        if (b.is_coroutine or b.kind == 'Closure') and pl['l'] == 1 and fields:
            out.add(('in', fields[0]['i']))
            return out
        out |= self.of_local(pl['l'], at, stack)
        return out

    def _rv(self, rv, at, stack):
        out = set()
        if rv['k'] == 'agg' and rv.get('ak') == 'closure':
            # a closure built here: what its body reads counts as a dependence
            out.add(('closure', rv.get('p')))
            cb = self.f.body(rv.get('p'))
            if cb is not None:
                for bl in cb.blocks:
                    t = bl['term']
                    if t['k'] == 'call' and t.get('fn'):
                        out.add(('fn', t['fn']))
                    for st in bl['st']:
                        if st['k'] == 'assign':
                            for o in st['rv'].get('ops', []):
                                if o['k'] in ('copy', 'move'):
                                    for e in o['pl']['p']:
                                        if e['k'] == 'field' and e['n']:
                                            out.add(('field', e['n']))
        if rv['k'] in ('ref', 'rawptr', 'discr'):
            out |= self._pl(rv['pl'], at, stack)
        for o in rv.get('ops', []):
            if o['k'] in ('copy', 'move'):
                out |= self._pl(o['pl'], at, stack)
            elif o['k'] == 'const':
                out.add(('const',))
        return out


def first_effect_blocks(body):
    """Blocks that poll a future (the first suspension / effect points)."""
    return [bi for bi, t in body.calls() if t.get('fn') in POLL_NAMES]


def early_exit_edge(body, bi, avoid_polls=True):
    """For a switch block: the successors from which a `return` is reachable
    without passing any await (a reject / early-return edge)."""
    succ = body.succ()
    out = []
    polls = set(first_effect_blocks(body))
    rets = set(body.returns())
    for s in succ[bi]:
        seen = set()
        st = [s]
        ok = False
        while st:
            x = st.pop()
            if x in seen:
                continue
            seen.add(x)
            if x in polls:
                continue
            if x in rets:
                ok = True
                break
            # do not walk through other decisions far away: bounded search
            if len(seen) > 60:
                break
            st.extend(succ[x])
        if ok:
            out.append(s)
    return out


def returns_reached_only(body, start, polls):
    """All paths from start end in a return without an await?"""
    succ = body.succ()
    seen = set()
    st = [start]
    while st:
        x = st.pop()
        if x in seen:
            continue
        seen.add(x)
        if x in polls:
            return False
        st.extend(succ[x])
    return True


def checks(program, body):
    """Validation checks of a body: switch blocks with an edge that returns
    without suspending.  -> [{bi, deps, reject: [succ], cont: [succ]}]"""
    dp = Deps(program, body)
    polls = set(first_effect_blocks(body))
    out = []
    succ = body.succ()
    for bi in sorted(body.reachable()):
        t = body.blocks[bi]['term']
        if t['k'] != 'switch':
            continue
        rej = [s for s in succ[bi] if returns_reached_only(body, s, polls)]
        if not rej or len(rej) == len(succ[bi]):
            continue
        deps = dp.of_operand(t['d'], (bi, 10 ** 6))
        out.append({'bi': bi, 'deps': deps, 'reject': rej, 'cont': [s for s in succ[bi] if s not in rej]})
    return out, dp


def dominated_by_cont(body, chk, blk):
    """blk is reached only through the continue edge(s) of the check."""
    if not body.dominates(chk['bi'], blk):
        return False
    # no path from a reject successor reaches blk (they end in returns)
    return True

"""Self-validation: apply a patch to a scratch copy of /repo's current tree
(outside /repo and /verif), run checks on it, remove the copy.

usage: python3 -m qv.selftest <patch.diff> <ID> [<ID> ...]
prints per check: exit code + VIOLATION/KNOWN-FINDING/ANALYSIS-ERROR lines.
"""
import os
import shutil
import subprocess
import sys
import tempfile

VERIF = os.path.dirname(os.path.dirname(os.path.abspath(__file__)))


def run_patch(patch, ids, repo='/repo', keep=False, verbose=False):
    tmp = tempfile.mkdtemp(prefix='qvscratch-')
    dst = os.path.join(tmp, 'repo')
    try:
        subprocess.check_call(['rsync', '-a', '--exclude', 'target', '--exclude', '.git', repo + '/', dst + '/'])
        if patch:
            r = subprocess.run(['patch', '-p1', '-s', '-F3', '--no-backup-if-mismatch', '-i', os.path.abspath(patch)],
                               cwd=dst, capture_output=True, text=True)
            if r.returncode != 0:
                return {'applied': False, 'err': (r.stdout + r.stderr)[-400:]}
        out = {'applied': True, 'checks': {}}
        env = dict(os.environ)
        env.update({'QV_REPO': dst, 'QV_EVIDENCE_DIR': os.path.join(tmp, 'ev'), 'QV_REPLAY_DIR': os.path.join(tmp, 'rp'),
                    'QV_TAG': 'scratch'})
        for pid in ids:
            r = subprocess.run([sys.executable, '-m', 'qv.main', pid], cwd=VERIF, env=env, capture_output=True, text=True)
            lines = [l for l in r.stdout.splitlines()
                     if l.startswith(('VIOLATION', 'KNOWN-FINDING', 'ANALYSIS-ERROR')) or ' rule=' in l]
            out['checks'][pid] = {'exit': r.returncode, 'lines': lines, 'stderr': r.stderr[-300:] if r.returncode == 2 else ''}
        return out
    finally:
        if not keep:
            shutil.rmtree(tmp, ignore_errors=True)


if __name__ == '__main__':
    res = run_patch(sys.argv[1] if sys.argv[1] != '-' else None, [a.upper() for a in sys.argv[2:]])
    if not res['applied']:
        print('PATCH DOES NOT APPLY', res['err'])
        sys.exit(3)
    for pid, c in res['checks'].items():
        print('== %s exit=%d' % (pid, c['exit']))
        for l in c['lines']:
            print('   ' + l[:260])
        if c['stderr']:
            print('   stderr: ' + c['stderr'])

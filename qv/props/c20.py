"""C20 — CLI: convert round-trips, format is valid, check's verdict is right.

Decided:
  C20.1  (rqcow2 target, engine G) the length of every buffer the CLI hands to
         read_at / write_at is a multiple of the device block size and the buffer is
         the library's aligned buffer (a raw byte count is never passed on)
  C20.2  the leak verdict reaches the caller: the detection site sets the result that
         check_cluster_leak returns, and check() turns a true result into Err
  C20.3  the bound of the host-cluster scan is computed from the geometry fields that
         map a host cluster to its refcount-table entry (sibling agreement)
  C20.4  the used-cluster set covers every mapping kind that can hold a host cluster
         (DataFile, Compressed, Zero with preallocation)
Not decided: round-trip equality of convert, validity of formatted images,
completeness of the scan (value level); termination of the copy loops depends on
the counts returned by file reads.
"""
from ..align import AlignInt, BS
from ..facts import AnalysisError
from ..guard import Deps
from ..interp import Program, short
from . import c15

TARGETS = ('--lib', '--bins')
HOLDERS = ('Zero', 'DataFile', 'Compressed')      # variants whose cluster_offset is a host cluster (into_mapping)


def run(ctx, rep):
    f = ctx.lib
    rep.explanation = (
        'C20 is decided in part: block-multiple lengths and aligned buffers at every read_at/write_at of the CLI '
        '(alignment analysis of the rqcow2 target), propagation of the leak verdict, geometry-field agreement of the '
        'scan bound and coverage of the used-cluster set over the mapping kinds are decided; byte equality of '
        'convert and validity of formatted images are not.')
    rep.rule('C20.1', 'CLI: buffer lengths passed to read_at/write_at are block multiples; buffers are Qcow2IoBuf')
    rep.rule('C20.5', 'qcow2 -> raw: every chunk that was read is written, or the output length is set explicitly')
    rep.rule('C20.6', 'raw -> qcow2: the routine that pads the last chunk zeroes its buffer itself')
    rep.rule('C20.2', 'leak detection sets the returned verdict; check() maps a true verdict to Err')
    rep.rule('C20.3', 'scan bound uses the geometry fields of HostCluster::rt_index')
    rep.rule('C20.4', 'used-cluster set: every mapping kind that can hold a host cluster reaches add_used_cluster_to_set')
    if ctx.bin is None:
        raise AnalysisError('no facts for the rqcow2 target')
    cli_rule(ctx.bin, rep)
    P = Program(f)
    verdict_rule(f, P, rep)
    bound_rule(f, P, rep)
    coverage_rule(f, P, rep)
    format_rounding_rule(f, rep, 'C20.7')
    walk_rule(f, rep, 'C20.8')
    used_span_rule(f, rep, 'C20.9')
    cli_arith_rule(ctx.bin, rep, 'C20.10')
    used_kind_rule(f, rep, 'C20.11')
    l1_count_rule(f, rep, 'C20.12', 'C20.13')


def format_rounding_rule(f, rep, rid):
    """The formatter reserves (and gives a refcount to) as many clusters for the refcount table and for the L1
    table as their byte sizes need: count << cluster_bits >= size, proved with the floor lemmas of the linear
    layer for cluster_bits in 9..21.  A count that rounds down leaves the last cluster of the table with
    refcount 0: the image is invalid and the allocator hands that cluster out again."""
    from ..align import AlignInt
    from ..absint import short_vn
    from ..linear import LinProver
    rep.rule(rid, 'calculate_meta_params: the cluster count of the refcount table and of the L1 table covers the byte size of the '
                  'table (count << cluster_bits >= size) for every cluster size')
    path = 'meta::header::Qcow2Header::calculate_meta_params'
    if f.body(path) is None:
        raise AnalysisError('calculate_meta_params not found')
    ai = AlignInt(f)
    sizes = {}

    def grab(name):
        def h(ai_, st, frame, b, bi, t, res):
            if frame[0] is None:
                sizes[name] = res
        return h
    ai.after_call['::__max_refcount_table_size'] = grab('refcount table')
    ai.after_call['::__max_l1_size'] = grab('L1 table')

    def setup(ai_, st, frame, b):
        st.itv[st.env[(('L', frame, 2), ())]] = (9, 21)
    frame, exits, _states = ai.analyze(path, setup)
    b = f.body(path)
    if len(sizes) != 2:
        raise AnalysisError('calculate_meta_params: table size helpers not found (%s)' % sorted(sizes))

    def peel(v):
        k = 0
        while isinstance(v, tuple) and v and v[0] in ('wrap', 'cast') and k < 8:
            v = v[1]
            k += 1
        return v
    n = 0
    for bi, st in sorted(exits.items()):
        rv = st.env.get((('L', frame, 0), ()))
        if rv is None or rv[0] != 'agg' or len(rv[3]) != 3:
            raise AnalysisError('calculate_meta_params: unexpected shape of the result')
        cb = st.env[(('L', frame, 2), ())]
        for name, idx in (('refcount table', 0), ('L1 table', 2)):
            pair = rv[3][idx]
            if pair[0] != 'agg' or len(pair[3]) != 2:
                raise AnalysisError('calculate_meta_params: unexpected shape of the %s pair' % name)
            cl = peel(pair[3][1])
            lp = LinProver(ai, st, cb)
            goal = lp.M(lp.lin(cl)).add(lp.lin(sizes[name]), -1)
            try:
                ok = lp.prove_ge0(goal)
            except RecursionError:
                ok = False
            n += 1
            rep.ob(rid, '%s: clusters << cluster_bits >= byte size' % name, ok, 'clusters = %s' % short_vn(cl)[:160])
            if not ok:
                rep.violation(rid, '%s:%s' % (rid, name.replace(' ', '_')), b.where(bi),
                              'calculate_meta_params: the cluster count of the %s (%s) is not proved to cover its byte size: a table '
                              'that is not a whole number of clusters loses its last cluster - it gets no refcount, the formatted '
                              'image is invalid and the allocator hands the cluster out again' % (name, short_vn(cl)[:160]))
    rep.floor('table cluster counts of the formatter', n, 2)


def l1_count_rule(f, rep, rid_cover, rid_agree):
    """Two facts about the number of L1 entries, decided by engine F on the formatter for each cluster size (the size stays
    symbolic; sub-terms that are constant for the cluster size are folded, the floor lemmas of the linear layer do the rest):
    cover - the entry count the table is sized from covers the virtual size: entries * (bytes mapped by one L1 entry)
    >= size, unless it is capped by the format limit.  A count that rounds down drops the last, partial L1 entry: the device
    never loads it (guest clusters behind it read as zeros) and the formatter gives the table one cluster too few.
    agree - the l1_size stored in the header equals that count (below the cap): the L1 clusters are reserved and
    refcounted for that count, a larger l1_size declares entries in a cluster that has refcount 0."""
    from ..align import AlignInt
    from ..absint import short_vn
    from ..linear import LinProver
    rep.rule(rid_cover, 'the L1 entry count derived from the virtual size covers it (entries << (2*cluster_bits - 3) >= size, below the format cap) for every cluster size')
    rep.rule(rid_agree, 'format: the l1_size written to the header equals the entry count the L1 clusters are reserved for, for every cluster size')
    path = 'meta::header::Qcow2Header::format_qcow2'
    b = f.body(path)
    if b is None:
        raise AnalysisError('format_qcow2 not found')
    names = [x['n'] for x in f.adts['meta::header::Qcow2RawHeader']['variants'][0]['fields']]
    if 'l1_size' not in names:
        raise AnalysisError('raw header has no l1_size')
    li = names.index('l1_size')
    # parameters: the u64 is the size, the first usize the cluster_bits
    tys = [f.tstr(t) for t in b.locals[1:b.argc + 1]]
    if 'u64' not in tys or 'usize' not in tys:
        raise AnalysisError('format_qcow2: unexpected parameters %s' % tys)
    p_size, p_cb = tys.index('u64') + 1, tys.index('usize') + 1

    def peel(v):
        k = 0
        while isinstance(v, tuple) and v and v[0] in ('wrap', 'cast') and k < 8:
            v = v[1]
            k += 1
        return v
    bad_cover, bad_agree, n = [], [], 0
    for cbv in range(9, 22):
        ai = AlignInt(f)
        got = {}

        def grab(ai_, st, frame, b_, bi, t, res, got=got):
            got['alloc'] = (res, st.copy())
        ai.after_call['::get_max_l1_entries'] = grab

        def on_stmt(ai_, st, frame, b_, bi, si, s_, v, got=got):
            if v[0] == 'agg' and v[1] == 'meta::header::Qcow2RawHeader':
                got['hdr'] = (v, st.copy())
        ai.stmt_hook = on_stmt

        def setup(ai_, st, frame, b_, cbv=cbv):
            st.env[(('L', frame, p_cb), ())] = ('c', cbv)
        frame, exits, _ = ai.analyze(path, setup)
        if 'alloc' not in got or 'hdr' not in got:
            raise AnalysisError('format_qcow2: %s not seen by engine F (cluster_bits %d)' % (
                'the L1 entry count helper' if 'alloc' not in got else 'the raw header aggregate', cbv))
        res, st = got['alloc']
        hv, st2 = got['hdr']

        def fold(v, d=0):
            if not isinstance(v, tuple) or not v or d > 30 or v[0] == 'c':
                return v
            try:
                i = ai.itvof(st2, v)
            except Exception:
                i = None
            if i is not None and i[0] == i[1] and v[0] in ('bin', 'wrap', 'cast'):
                return ('c', i[0])
            if v[0] == 'bin':
                return ('bin', v[1], fold(v[2], d + 1), fold(v[3], d + 1))
            if v[0] in ('wrap', 'cast'):
                return (v[0], fold(v[1], d + 1)) + tuple(v[2:])
            if v[0] in ('min', 'max'):
                return (v[0], fold(v[1], d + 1), fold(v[2], d + 1))
            return v
        a = peel(fold(peel(res)))
        if a[0] == 'min':
            # capped by the format limit: the other component is the count
            qa = peel(a[1]) if a[2][0] == 'c' else peel(a[2])
        else:
            qa = a
        qh = peel(fold(peel(hv[3][li])))
        size = st2.env[(('L', frame, p_size), ())]
        n += 1
        lp = LinProver(ai, st2, ('c', 2 * cbv - 3))
        try:
            cover = lp.prove_ge0(lp.M(lp.lin(qa)).add(lp.lin(size), -1))
        except RecursionError:
            cover = False
        try:
            agree = lp.prove_le(qh, qa) and lp.prove_le(qa, qh)
        except RecursionError:
            agree = False
        if not cover:
            bad_cover.append((cbv, short_vn(qa)[:120]))
        if not agree:
            bad_agree.append((cbv, short_vn(qh)[:100], short_vn(qa)[:100]))
    rep.floor('formatter runs for the L1 entry count (cluster sizes)', n, 13)
    rep.ob(rid_cover, 'get_max_l1_entries over %d cluster sizes' % n, not bad_cover,
           'entries << (2*cluster_bits-3) >= size proved in each' if not bad_cover else 'cluster_bits %d: entries = %s' % bad_cover[0])
    if bad_cover:
        rep.violation(rid_cover, '%s:l1_entries' % rid_cover, b.where(0),
                      'the L1 entry count (%s for cluster_bits %d) is not proved to cover the virtual size: with a size that is not a '
                      'multiple of what one L1 entry maps the last entry is missing - the device sizes its L1 table from this '
                      'count, so guest clusters behind it read as unallocated, and the formatter reserves one L1 cluster too few' % (
                          bad_cover[0][1], bad_cover[0][0]))
    rep.ob(rid_agree, 'header l1_size vs reserved count over %d cluster sizes' % n, not bad_agree,
           'equal in each' if not bad_agree else 'cluster_bits %d: l1_size = %s, reserved for %s' % bad_agree[0])
    if bad_agree:
        rep.violation(rid_agree, '%s:l1_size' % rid_agree, b.where(0),
                      'format_qcow2 writes l1_size = %s (cluster_bits %d) but reserves and refcounts the L1 clusters for %s entries: '
                      'when the two differ the header declares L1 entries in a cluster with refcount 0 (an independent checker '
                      'rejects the image; the allocator hands that cluster out)' % (bad_agree[0][1], bad_agree[0][0], bad_agree[0][2]))


def walk_rule(f, rep, rid):
    """The walks of check() over the guest address space visit every guest cluster, the partial last one
    included: the cursor handed to get_mapping starts at 0, advances by one cluster, and its bound covers the
    virtual size (bound >= virtual_size for a cursor in bytes; bound << cluster_bits >= virtual_size for a
    cluster index).  A walk that stops at virtual_size rounded down never looks at the last cluster of an image
    whose size is not a cluster multiple: its data cluster is reported as leaked."""
    from ..align import AlignInt, CL
    from ..absint import short_vn
    from ..linear import LinProver
    rep.rule(rid, 'every walk of check() over the guest clusters starts at 0, steps by one cluster and is bounded by a value that covers the virtual size')
    n = 0
    for b in f.body_list:
        if not b.is_coroutine or 'dev::check::' not in b.path or '::tests::' in b.path:
            continue
        if not any((t.get('fn') or '').endswith('>::get_mapping') for _bi, t in b.calls()):
            continue
        ai = AlignInt(f)
        vs = []
        ai.after_call['Qcow2Info::virtual_size'] = lambda ai_, st, frame, b_, bi, t, res: vs.append(res)
        ai.analyze(b.path)
        recs = {}
        for rec in ai.async_calls:
            if rec[3] == 'get_mapping' and rec[0] == b.path:
                recs[rec[1]] = rec
        for bi, rec in sorted(recs.items()):
            st, v = rec[5], rec[4][-1]
            n += 1
            site = '%s: walk feeding get_mapping at %s' % (short(b.path), b.where(bi))
            if not vs:
                raise AnalysisError('%s: the virtual size is not read in this routine' % site)

            def peel(x):
                k = 0
                while isinstance(x, tuple) and x and x[0] in ('wrap', 'cast') and k < 8:
                    x = x[1]
                    k += 1
                return x
            v = peel(ai.strip(st, v))
            w = ai.walks.get(v)
            ok, why = False, ''
            if w is not None and w[0] == 'stepby':
                _k, lo, hi, step, _p, _bi = w
                sh = ai.pow2_shift(st, step)
                c1 = lo == ('c', 0)
                c2 = sh is not None and peel(ai.strip(st, sh)) == CL
                c3 = any(ai.prove_le(st, x, hi) for x in vs)
                ok = c1 and c2 and c3
                why = 'byte cursor: starts at %s, step %s, bound %s' % (short_vn(lo), short_vn(step)[:40], short_vn(hi)[:60])
                if not c3:
                    why += ' (bound not proved >= virtual size)'
            else:
                idx = None
                if v[0] == 'bin' and v[1] == 'Shl' and peel(ai.strip(st, v[3])) == CL:
                    idx = peel(v[2])
                elif v[0] == 'bin' and v[1] == 'Mul':
                    for x, y in ((v[2], v[3]), (v[3], v[2])):
                        sh = ai.pow2_shift(st, peel(y))
                        if sh is not None and peel(ai.strip(st, sh)) == CL:
                            idx = peel(x)
                w = ai.walks.get(idx) if idx is not None else None
                if w is None or w[0] != 'range':
                    raise AnalysisError('%s: the cursor %s is not a recognised walk (byte cursor with step_by, or cluster index of a range)' % (site, short_vn(v)[:120]))
                _k, lo, hi, _step, _p, _bi = w
                c1 = lo == ('c', 0)
                c3 = False
                for x in vs:
                    lp = LinProver(ai, st, CL)
                    try:
                        c3 = c3 or lp.prove_ge0(lp.M(lp.lin(hi)).add(lp.lin(x), -1))
                    except RecursionError:
                        pass
                ok = c1 and c3
                why = 'cluster index: starts at %s, bound %s%s' % (short_vn(lo), short_vn(hi)[:80], '' if c3 else ' (bound << cluster_bits not proved >= virtual size)')
            rep.ob(rid, site, ok, why)
            if not ok:
                rep.violation(rid, '%s:%s' % (rid, short(b.path)), b.where(bi),
                              '%s does not provably visit every guest cluster (%s): the last, partial cluster of an image whose '
                              'virtual size is not a cluster multiple is skipped, check() reports its data cluster as leaked (or '
                              'misses a bad mapping there)' % (short(b.path), why))
    rep.floor('guest walks of check()', n, 2)


def used_kind_rule(f, rep, rid):
    """The in-use set of check() receives host clusters of this image only.  `Mapping::cluster_offset` of a Backing mapping
    is the guest offset to read from the backing image, not a host cluster: marking it hides a leaked cluster with the same
    index.  Decided by engine F on the routine that feeds the set, with the mapping returned by get_mapping forced to each
    kind in turn: the call that marks a cluster is unreachable for a Backing mapping (and reachable for DataFile, which keeps
    the rule from passing on a routine that marks nothing)."""
    from ..absint import AbsInt
    rep.rule(rid, 'check(): no cluster is marked in use for a Backing mapping (its offset is a guest offset of the backing image)')
    ms = f.adts.get('meta::l2::MappingSource')
    mp = f.adts.get('meta::l2::Mapping')
    if ms is None or mp is None:
        raise AnalysisError('MappingSource / Mapping not found')
    vidx = {v['n']: i for i, v in enumerate(ms['variants'])}
    fl = [x['n'] for x in mp['variants'][0]['fields']]
    if fl[0] != 'source' or 'Backing' not in vidx or 'DataFile' not in vidx:
        raise AnalysisError('Mapping layout changed: %s' % fl)
    MARK = '::add_used_cluster_to_set'
    bodies = [b for b in f.body_list if b.is_coroutine and '::tests::' not in b.path
              and any((t.get('fn') or '').endswith(MARK) for _bi, t in b.calls())
              and any(any(fu.kind == 'async_fn' and fu.path.endswith('::get_mapping') for fu in _futs(f, t)) for _bi, t in b.calls()
                      if (t.get('fn') or '').endswith('Future::poll'))]
    rep.floor('routines of check() that mark mapped clusters in use', len(bodies), 1)
    for b in bodies:
        res = {}
        for V in ('Backing', 'DataFile'):
            ai = AbsInt(f)
            hit = set()
            cnt = [0]

            def poll(ai_, st, frame, b_, bi, t, args, V=V, cnt=cnt):
                if frame[0] is not None or not any(fu.kind == 'async_fn' and fu.path.endswith('::get_mapping') for fu in _futs(f, t)):
                    return None
                cnt[0] += 1
                src = ('agg', 'meta::l2::MappingSource', vidx[V], ())
                rest = tuple(('u', ('forced', cnt[0], n), 'bool' if n == 'copied' else None) for n in fl[1:])
                m = ('agg', 'meta::l2::Mapping', 0, (src,) + rest)
                return ('opt', 'Poll', ('opt', 'Result', m, ('c', 1)), ('c', 1))

            def seen(ai_, st, frame, b_, bi, t, args, hit=hit):
                hit.add((b_.path, bi))
                return None
            ai.hooks['Future::poll'] = poll
            ai.hooks[MARK] = seen
            ai.analyze(b.path)
            res[V] = (hit, cnt[0])
        me = short(b.path)
        if not res['DataFile'][1]:
            raise AnalysisError('%s: the await of get_mapping was not reached by engine F' % me)
        if not res['DataFile'][0]:
            raise AnalysisError('%s: marking is unreachable even for a DataFile mapping (the forced mapping is not what the routine tests)' % me)
        bad = res['Backing'][0]
        rep.ob(rid, 'marking in %s under a Backing mapping' % me, not bad,
               'unreachable' if not bad else 'reachable at %s' % sorted(f.body(p).where(bi) for p, bi in bad)[:2])
        if bad:
            p0, bi0 = sorted(bad)[0]
            rep.violation(rid, '%s:%s' % (rid, me), f.body(p0).where(bi0),
                          '%s marks a cluster in use for a Backing mapping: the offset of such a mapping is the guest offset to '
                          'read from the backing image, so the host cluster with the same index counts as referenced and a leaked '
                          'cluster at that index is accepted by check()' % me)


def _futs(f, t):
    from ..interp import Program
    if not hasattr(f, '_p20'):
        f._p20 = Program(f)
    try:
        return f._p20.futs(t['a'][0], ()) if t.get('a') else []
    except Exception:
        return []


def used_span_rule(f, rep, rid):
    """The host clusters check() counts as used by a compressed mapping are exactly the clusters the extent
    [off, off+len) touches.  One cluster too many hides a leaked cluster behind an extent that ends on a cluster
    boundary (check() accepts an image with a leak); one too few reports a used cluster as leaked."""
    from ..align import AlignInt, CL
    from ..absint import mentions, short_vn
    from . import span
    rep.rule(rid, 'check(): the inclusive cluster range counted as used for a compressed mapping starts at the cluster of the first '
                  'byte, covers the end of the extent and contains no cluster beyond it')
    n = 0
    # the length a compressed mapping carries is at least 1: lower bound of the length L2Entry::compressed_range builds
    from ..absint import AbsInt
    cr = 'meta::l2::L2Entry::compressed_range'
    if f.body(cr) is None:
        raise AnalysisError('L2Entry::compressed_range not found')
    a0 = AbsInt(f)
    fr0, ex0, _s0 = a0.analyze(cr, lambda ai_, st, frame, b_: st.itv.__setitem__(st.env[(('L', frame, 2), ())], (9, 21)))
    len_lo = None
    for _bi, st0 in ex0.items():
        rv = st0.env.get((('L', fr0, 0), ()))
        if rv is not None and rv[0] == 'opt' and rv[2][0] == 'agg' and len(rv[2][3]) == 2:
            i = a0.itvof(st0, rv[2][3][1])
            if i is not None:
                len_lo = i[0] if len_lo is None else min(len_lo, i[0])
    rep.ob(rid, 'compressed_range: the length of a compressed extent is at least 1', len_lo is not None and len_lo >= 1, 'lower bound %s' % len_lo)
    for b in f.body_list:
        if not b.is_coroutine or 'dev::check::' not in b.path or '::tests::' in b.path:
            continue
        if not any((t.get('fn') or '').endswith('::add_used_cluster_to_set') for _bi, t in b.calls()):
            continue
        ai = AlignInt(f)
        ai.mapping_except = ('',)
        mfields = {'cluster_offset': [], 'compressed_length': []}
        orig_read = ai.read_place

        def read_place(st, b_, frame, pl, orig_read=orig_read, mfields=mfields, ai=ai):
            v = orig_read(st, b_, frame, pl)
            for idx, e in enumerate(pl['p']):
                if e['k'] == 'field' and e.get('n') in mfields:
                    ptid = ai.place_tid(b_, {'l': pl['l'], 'p': pl['p'][:idx]})
                    if ptid is not None and f.types[ptid].get('p') == 'meta::l2::Mapping':
                        pay = v[2] if v[0] == 'opt' else v
                        if pay[0] == 'u':
                            mfields[e['n']].append(pay)
            return v
        ai.read_place = read_place
        ranges = {}

        def on_range(ai_, st, frame, b_, bi, t, args):
            if frame[0] is None and len(args) == 2:
                ranges[bi] = (st, args[0], args[1])
            return None
        ai.hooks['RangeInclusive::<Idx>::new'] = on_range

        def setup(ai_, st, frame, b_):
            st.le.update(ai_.base_state().le)
        ai.analyze(b.path, setup)
        for bi, (st, lo, hi) in sorted(ranges.items()):
            lens = [x for x in mfields['compressed_length'] if mentions(hi, lambda v, x=x: v == x)]
            offs = [x for x in mfields['cluster_offset'] if mentions(lo, lambda v, x=x: v == x)]
            if not lens or not offs:
                continue
            n += 1
            if len_lo is not None and len_lo >= 1:
                st = st.copy()
                ai.refine(st, lens[0], 1, 1 << 40)
            start = ('bin', 'Shl', lo, CL)
            count = ai.mk_bin('Add', ai.mk_bin('Sub', hi, lo), ('c', 1))
            for what, ok in span.obligations(ai, st, offs[0], lens[0], start, count):
                rep.ob(rid, '%s: clusters counted for a compressed mapping at %s: %s' % (short(b.path), b.where(bi), what), ok,
                       'range %s ..= %s' % (short_vn(lo)[:60], short_vn(hi)[:80]))
                if not ok:
                    rep.violation(rid, '%s:%s:%s' % (rid, short(b.path), what.split(' ')[0] + '-' + what.split(' ')[-1]), b.where(bi),
                                  '%s counts the host clusters %s ..= %s as used by a compressed mapping, which is not exactly the set '
                                  'of clusters the extent touches (%s fails, e.g. for an extent that ends on a cluster boundary): a '
                                  'leaked cluster behind such an extent is counted as used and check() accepts the image' % (
                                      short(b.path), short_vn(lo)[:60], short_vn(hi)[:80], what))
    rep.floor('compressed spans counted by check()', n, 1)


def cli_arith_rule(fb, rep, rid):
    """The routines of the rqcow2 binary that compute with header fields (dump after format, dump, map) do not hit an
    arithmetic-overflow panic for any header the parser accepts (cluster_bits 9..21, refcount_order 0..6)."""
    from ..absint import AbsInt
    rep.rule(rid, 'rqcow2: no arithmetic overflow panic (sub / shift / add / mul on header fields) in the CLI routines for any accepted header')
    RANGES = {'Qcow2Header::cluster_bits': (9, 21, 'u32'), 'Qcow2Header::refcount_order': (0, 6, 'u32'),
              'Qcow2Info::cluster_bits': (9, 21, 'usize')}
    n = 0
    for b in fb.body_list:
        if '::tests::' in b.path:
            continue
        used = [t.get('fn') or '' for _bi, t in b.calls() if any((t.get('fn') or '').endswith(k) for k in RANGES)]
        if not used:
            continue
        ai = AbsInt(fb)
        for k, (lo, hi, ty) in RANGES.items():
            def mk(ai_, st, frame, b_, bi, t, args, lo=lo, hi=hi, ty=ty, k=k):
                return ('u', ('ranged', (k, frame, b_.path, bi), lo, hi), ty)
            ai.hooks[k] = mk
        ai.analyze(b.path)
        for key, ob in sorted(ai.obl.items(), key=lambda kv: (kv[0][0], kv[0][1])):
            if not ob.kind.startswith('assert:Overflow') or ob.frame[0] is not None:
                continue
            if not ob.ok:
                # decided only when every operand is bounded by the modelled header ranges (an operand that is an
                # arbitrary 64-bit header field, e.g. a table offset, is outside this rule)
                import re
                spans = re.findall(r'in \[([^\]]*)\]', str(ob.detail))
                def wide(sp):
                    parts = [x.strip() for x in sp.split(',')]
                    return len(parts) != 2 or 'inf' in sp or any(x.startswith('0x') and len(x) > 10 for x in parts)
                if not spans or any(wide(sp) for sp in spans):
                    rep.note_undecided(rid, ob.where, 'operand not bounded by the accept set: %s' % str(ob.detail)[:120])
                    continue
            n += 1
            rep.ob(rid, '%s at %s' % (short(b.path), ob.where), ob.ok, str(ob.detail)[:160])
            if not ob.ok:
                rep.violation(rid, '%s:%s' % (rid, short(b.path)), ob.where,
                              'rqcow2 %s: %s for a header the library accepts: the command panics (exit code 101) instead of '
                              'completing' % (short(b.path), str(ob.detail)[:200]))
    rep.floor('overflow-checked operations on header fields in the CLI', n, 1)


def cli_rule(fb, rep):
    n = 0
    for b in fb.body_list:
        calls = [(bi, t) for bi, t in b.calls() if (t.get('fn') or '').endswith('::read_at') or (t.get('fn') or '').endswith('::write_at')]
        calls = [(bi, t) for bi, t in calls if 'Qcow2Dev' in (t.get('fn') or '')]
        if not calls:
            continue
        ai = AlignInt(fb)
        ai.extra_sinks = ('::read_at', '::write_at')

        def setup(ai_, st, frame, b_):
            st.le.update(ai_.base_state().le)
        ai.analyze(b.path, setup)
        last = {}
        for r in ai.async_calls:
            if 'Qcow2Dev' in r[2]:
                last[(r[1], r[6])] = r
        for (bi, fr), (bp, _bi, fn, name, args, st, frame, t) in sorted(last.items(), key=lambda kv: kv[0][0]):
            n += 1
            buf = args[1]
            ln = ai.len_of(buf)
            ok_len = ai.is_mult(st, ln, BS)
            k = ai.ptr_kind(st, buf)
            where = b.where(bi)
            if name != 'read_at':
                rep.ob('C20.1', '%s -> %s buffer length at %s' % (short(b.path), name, where), ok_len, ai.show(st, ln)[:160])
            rep.ob('C20.1', '%s -> %s buffer at %s' % (short(b.path), name, where), k[0] == 'ok', k[1][:160])
            if name == 'read_at':
                # the length of a read follows the image's virtual size (a sector multiple by the format);
                # only the buffer is decided on this side
                ok_len = True
            if not ok_len:
                rep.violation('C20.1', 'C20.1:%s:%s:len' % (short(b.path), name), where,
                              'the CLI passes a buffer whose length is not provably a multiple of the block size to %s (%s): '
                              '%s rejects it, convert fails for inputs that are not block multiples' % (name, ai.show(st, ln)[:160], name))
            if k[0] != 'ok':
                rep.violation('C20.1', 'C20.1:%s:%s:buf' % (short(b.path), name), where,
                              'the CLI passes %s to %s' % (k[1][:160], name))
    rep.floor('read_at/write_at calls of the CLI', n, 2)
    # C20.5: qcow2 -> raw: what was read is written (or the output length is set explicitly)
    has_set_len = any((t.get('fn') or '').endswith('File::set_len') for b in fb.body_list for _bi, t in b.calls())
    nb = 0
    for b in fb.body_list:
        reads = [bi for bi, t in b.calls() if (t.get('fn') or '').endswith('::read_at') and 'Qcow2Dev' in (t.get('fn') or '')]
        writes = {bi for bi, t in b.calls() if (t.get('fn') or '').endswith('io::Write::write') or (t.get('fn') or '').endswith('io::Write::write_all')}
        if not reads or not writes:
            continue
        nb += 1
        oks = []
        for bi in sorted(b.reachable()):
            for st in b.blocks[bi]['st']:
                if st['k'] == 'assign' and st['pl']['l'] == 0 and not st['pl']['p'] and st['rv']['k'] == 'agg' and st['rv'].get('vn') == 'Ok':
                    oks.append(bi)
        bypass = [o for o in oks if any(o in b.reachable(r, avoid=writes) for r in reads)]
        ok = not bypass or has_set_len
        rep.ob('C20.5', 'every chunk read by %s is written' % short(b.path), ok,
               'every Ok return passes the write' if not bypass else ('Ok return at %s skips the write%s' % (b.where(bypass[0]), '; the output length is set with set_len' if has_set_len else '')))
        if not ok:
            rep.violation('C20.5', 'C20.5:%s:skip' % short(b.path), b.where(bypass[0]),
                          '%s can return Ok for a chunk it read without writing it, and nothing sets the length of the output '
                          'file: the raw output is shorter than the image when the skipped chunk is the last one' % short(b.path))
    rep.floor('qcow2 -> raw copy routines', nb, 1)
    # C20.6: raw -> qcow2: the routine that rounds the length up writes padding; the buffer must be
    # zeroed in that routine (a buffer handed in by the caller carries the previous chunk)
    nz = 0
    for b in fb.body_list:
        wr = [bi for bi, t in b.calls() if (t.get('fn') or '').endswith('::write_at') and 'Qcow2Dev' in (t.get('fn') or '')]
        rd = [bi for bi, t in b.calls() if (t.get('fn') or '').endswith('io::Read::read') or (t.get('fn') or '').endswith('io::Read::read_exact')]
        if not wr or not rd:
            continue
        nz += 1
        zero = [bi for bi, t in b.calls() if (t.get('fn') or '').endswith('::zero_buf') or (t.get('fn') or '').endswith('slice::<impl [T]>::fill')
                or (t.get('fn') or '').endswith('ptr::write_bytes')]
        ok = all(any(b.dominates(z, w) and all(z not in b.reachable(r) or b.dominates(z, r) for r in rd) for z in zero) for w in wr)
        rep.ob('C20.6', 'padding written by %s is zero' % short(b.path), ok,
               'the buffer is zeroed in this routine before it is filled and written' if ok else 'no zero fill of the buffer in this routine before the write')
        if not ok:
            rep.violation('C20.6', 'C20.6:%s:padding' % short(b.path), b.where(wr[0]),
                          '%s writes a length rounded up to the block size from a buffer it did not zero itself: the padding after a '
                          'short last chunk is whatever the buffer held before (the previous chunk), not zeros' % short(b.path))
    rep.floor('raw -> qcow2 copy routines', nz, 1)


def body_of(f, suffix):
    c = [b for b in f.body_list if b.is_coroutine and b.path.endswith(suffix) and 'Qcow2Dev' in b.path]
    if len(c) != 1:
        raise AnalysisError('body %s not found (%d)' % (suffix, len(c)))
    return c[0]


def verdict_rule(f, P, rep):
    chk = body_of(f, '::check::{closure#0}')
    leak = body_of(f, '::check_cluster_leak::{closure#0}')
    # check(): a decision on the leak result whose true edge builds Err
    dp = Deps(P, chk)
    ok = False
    for bi in sorted(chk.reachable()):
        t = chk.blocks[bi]['term']
        if t['k'] != 'switch':
            continue
        deps = dp.of_operand(t['d'], (bi, 10 ** 6))
        if not any(x[0] == 'fn' and x[1].endswith('check_cluster_leak') for x in deps):
            continue
        # some successor builds Err without further decisions on other data
        for s in chk.succ()[bi]:
            for r in chk.reachable(s):
                for st in chk.blocks[r]['st']:
                    if st['k'] == 'assign' and st['pl']['l'] == 0 and st['rv']['k'] == 'agg' and st['rv'].get('vn') == 'Err':
                        ok = True
    rep.ob('C20.2', 'check(): leak verdict -> Err', ok, 'a decision on the result of check_cluster_leak leads to Err' if ok else 'no such decision')
    if not ok:
        rep.violation('C20.2', 'C20.2:check:verdict', chk.where(0), 'check() does not turn a detected leak into an error')
    # check_cluster_leak: the Ok value returned is the flag set at the detection site
    dpl = Deps(P, leak)
    ret_ok = None
    for bi in sorted(leak.reachable()):
        for si, st in enumerate(leak.blocks[bi]['st']):
            if st['k'] == 'assign' and st['pl']['l'] == 0 and st['rv']['k'] == 'agg' and st['rv'].get('vn') == 'Ok' and st['rv']['ops']:
                o = st['rv']['ops'][0]
                if o['k'] in ('copy', 'move') and not o['pl']['p']:
                    ret_ok = (bi, si, o['pl']['l'])
    ok2 = False
    detail = 'no Ok(flag) return'
    if ret_ok is not None:
        flag = ret_ok[2]
        # the temporary holding the returned value: follow plain copies back to the variable
        for _ in range(4):
            ds = P.defs(leak).get(flag, [])
            srcs = set()
            for d in ds:
                if d[0] == 'st':
                    rv = leak.blocks[d[1]]['st'][d[2]]['rv']
                    if rv['k'] == 'use' and rv['ops'][0]['k'] in ('copy', 'move') and not rv['ops'][0]['pl']['p']:
                        srcs.add(rv['ops'][0]['pl']['l'])
            if len(srcs) == 1 and len(ds) == 1:
                flag = srcs.pop()
            else:
                break
        sets_true = []
        for bi in sorted(leak.reachable()):
            for si, st in enumerate(leak.blocks[bi]['st']):
                if st['k'] == 'assign' and st['pl']['l'] == flag and not st['pl']['p'] and st['rv']['k'] == 'use' \
                        and st['rv']['ops'][0]['k'] == 'const' and st['rv']['ops'][0].get('v') == '1':
                    sets_true.append(bi)
        # the detection: controlled by is_allocated_cluster_in_use
        det = False
        for bi in sets_true:
            for cb in leak.dominators().get(bi, ()):
                t = leak.blocks[cb]['term']
                if t['k'] == 'switch':
                    d = dpl.of_operand(t['d'], (cb, 10 ** 6))
                    if any(x[0] == 'fn' and x[1].endswith(('is_allocated_cluster_in_use', 'RangeInclusive::<Idx>::contains',
                                                            'iter::Iterator::any')) for x in d):
                        det = True          # the test against the set of used clusters (helper, or written out in place)
        ok2 = bool(sets_true) and det
        detail = 'flag set at %d site(s) under the in-use test' % len(sets_true) if ok2 else 'the returned flag is not set where a leak is detected'
    rep.ob('C20.2', 'check_cluster_leak: detection sets the returned flag', ok2, detail)
    if not ok2:
        rep.violation('C20.2', 'C20.2:check_cluster_leak:flag', leak.where(0), 'check_cluster_leak does not return true when it finds an allocated cluster that nothing references')


def bound_rule(f, P, rep):
    leak = body_of(f, '::check_cluster_leak::{closure#0}')
    fwd = [b for b in f.body_list if b.path.endswith('HostCluster::rt_index')]
    if not fwd:
        raise AnalysisError('HostCluster::rt_index not found')
    want = c15.geometry_fields(f, P, fwd[0].path)
    dp = Deps(P, leak)
    got = None
    where = None
    for bi in sorted(leak.reachable()):
        for si, st in enumerate(leak.blocks[bi]['st']):
            if st['k'] == 'assign' and st['rv']['k'] == 'agg' and st['rv'].get('p') == 'std::ops::Range' and len(st['rv']['ops']) == 2:
                d = dp.of_operand(st['rv']['ops'][1], (bi, si))
                flds = {x[1] for x in d if x[0] == 'field'} | {x[1].rsplit('::', 1)[-1] for x in d if x[0] == 'fn'}
                geo = set()
                for x in d:
                    if x[0] == 'fn':
                        cb = f.body(x[1])
                        if cb is not None and 'Qcow2Info' in x[1]:
                            geo |= c15.geometry_fields(f, P, x[1])
                    if x[0] == 'field':
                        geo.add(x[1])
                geo &= GEOMETRY
                if geo:
                    got = geo
                    where = leak.where(bi)
    if got is None:
        raise AnalysisError('check_cluster_leak: scan range not found')
    want = c15.canon(set(want) & GEOMETRY)
    got = c15.canon(got)
    ok = got == want
    # the bound has to come from the refcount structures alone: what is *referenced* must not limit what is scanned
    used = False
    for bi in sorted(leak.reachable()):
        for si, st in enumerate(leak.blocks[bi]['st']):
            if st['k'] == 'assign' and st['rv']['k'] == 'agg' and st['rv'].get('p') == 'std::ops::Range' and len(st['rv']['ops']) == 2:
                d = dp.of_operand(st['rv']['ops'][1], (bi, si))
                if any(x[0] == 'fn' and (x[1].endswith('sorted_ranges') or x[1].endswith('add_data_clusters') or x[1].endswith('add_table_clusters')
                                         or 'RangeInclusive' in x[1] and x[1].endswith('::end')) for x in d) and \
                        any(x[0] == 'field' and x[1] in GEOMETRY for x in d):
                    used = True
    rep.ob('C20.3', 'scan bound is independent of the set of referenced clusters', not used,
           'derived from the refcount table and the geometry only' if not used else 'derived from the used-cluster set')
    if used:
        rep.violation('C20.3', 'C20.3:check_cluster_leak:bound-from-used', where,
                      'the upper bound of the leak scan depends on the set of referenced clusters: an allocated cluster beyond the '
                      'last referenced one is never examined, so exactly the leaks at the end of the file are missed')
    # "no unused refcount-table entry found" means the whole table is in use: where the count of leading used entries comes
    # out of a search (position / find ..) through a defaulting combinator, the default has to be the table size
    SEARCH = ('::position', '::find', '::find_map', '::rposition', '::take_while', '::skip_while')
    DEFAULTS = ('Option::<T>::unwrap_or', 'Option::<T>::unwrap_or_default', 'Option::<T>::unwrap_or_else', 'Option::<T>::map_or',
                'Option::<T>::map_or_else')
    bodies = [leak] + [c for c in f.body_list if c.path != leak.path and (c.path.startswith(leak.path.rsplit('::{closure', 1)[0].rsplit('::', 1)[0])
                                                                          and 'check' in c.path and c.is_coroutine)]
    for cb in bodies:
        cdp = dp if cb is leak else Deps(P, cb)
        for bi, t in cb.calls():
            fn = t.get('fn') or ''
            if not fn.endswith(DEFAULTS) or not t['args']:
                continue
            rd = cdp.of_operand(t['args'][0], (bi, 10 ** 6))
            if not any(x[0] == 'fn' and x[1].endswith(SEARCH) for x in rd):
                continue
            if not any(x[0] == 'fn' and 'RefTable' in x[1] or x[0] == 'field' and x[1] == 'reftable' for x in rd):
                continue
            dd = set()
            for a in t['args'][1:]:
                dd |= cdp.of_operand(a, (bi, 10 ** 6))
            sized = any(x[0] == 'fn' and x[1].endswith(('::entries', '::len', '::byte_size')) for x in dd)
            rep.ob('C20.3', 'default of the refcount-table search at %s' % cb.where(bi), sized,
                   'the table size' if sized else 'not derived from the size of the table (%s)' % fn.rsplit('::', 1)[-1])
            if not sized:
                rep.violation('C20.3', 'C20.3:check_cluster_leak:search-default', cb.where(bi),
                              'the number of refcount-table entries in use is the result of a search for the first unused entry; when the '
                              'search finds none (the table is full) the value falls back to something that is not the table size: the '
                              'leak scan then stops early and leaks counted in later refcount blocks are not reported')
    rep.ob('C20.3', 'scan bound of check_cluster_leak', ok, 'uses %s; rt_index uses %s' % (sorted(got), sorted(want)))
    if not ok:
        rep.violation('C20.3', 'C20.3:check_cluster_leak:bound', where,
                      'the upper bound of the leak scan is computed from %s, while a host cluster is mapped to its refcount-table '
                      'entry with %s: clusters beyond the shorter bound are never examined, leaks there are not reported' % (
                          sorted(got), sorted(want)))


GEOMETRY = {'cluster_shift', 'rb_index_shift', 'rb_slice_index_shift', 'l2_index_shift', 'l2_slice_index_shift',
            'rb_slice_bits', 'l2_slice_bits', 'refcount_order', 'block_size_shift'}


def coverage_rule(f, P, rep):
    b = body_of(f, '::add_data_clusters::{closure#0}')
    src_adt = f.adts.get('meta::l2::MappingSource')
    if src_adt is None:
        raise AnalysisError('MappingSource not found')
    names = [v['n'] for v in src_adt['variants']]
    adds = {bi for bi, t in b.calls() if (t.get('fn') or '').endswith('add_used_cluster_to_set')}
    found = False
    for bi in sorted(b.reachable()):
        t = b.blocks[bi]['term']
        if t['k'] != 'switch':
            continue
        # the match on mapping.source: a discriminant read of a MappingSource place
        isdisc = False
        for st in b.blocks[bi]['st']:
            if st['k'] == 'assign' and st['rv']['k'] == 'discr':
                tid = place_tid(f, b, st['rv']['pl'])
                if tid is not None and f.types[tid].get('p') == 'meta::l2::MappingSource':
                    isdisc = True
        if not isdisc:
            continue
        found = True
        targets = {int(x['v']): x['t'] for x in t['ts']}
        for vi, name in enumerate(names):
            tgt = targets.get(vi, t['o'])
            # blocks of this arm: reachable from the target without passing the loop latch / other arms
            others = {x for v2, x in targets.items() if x != tgt} | ({t['o']} if t['o'] != tgt else set())
            arm = b.reachable(tgt, avoid=others)
            reaches = any(a in arm and dominated_within(b, tgt, a) for a in adds)
            need = name in HOLDERS
            ok = reaches or not need
            rep.ob('C20.4', 'add_data_clusters arm %s' % name, ok,
                   'adds its host cluster(s) to the used set' if reaches else ('holds no host cluster' if not need else 'does not add its host cluster'))
            if not ok:
                rep.violation('C20.4', 'C20.4:add_data_clusters:%s' % name, b.where(tgt),
                              'the used-cluster set skips %s mappings, which can hold a host cluster: check() reports a consistent '
                              'image as leaked' % name)
    if not found:
        raise AnalysisError('add_data_clusters: match on MappingSource not found')


def dominated_within(b, head, blk):
    return b.dominates(head, blk)


def place_tid(f, b, pl):
    tid = b.locals[pl['l']]
    for e in pl['p']:
        if e['k'] == 'deref':
            t = f.types[tid]
            tid = t['t'] if t['k'] in ('ref', 'ptr') else None
        elif e['k'] == 'field':
            tid = e.get('t')
        elif e['k'] == 'downcast':
            pass
        else:
            return None
        if tid is None:
            return None
    return tid

"""C11 — discard contract: zeros inside, untouched outside, space released.

Decided (engines F/G on the two discard bodies, dominance, provenance):
  C11.1  inward rounding and clipping: the cluster handed to the per-cluster routine is
         cluster aligned, not below the caller's offset, and ends at or before
         min(offset + len (saturating), virtual size)
  C11.2  discard never fails because of its arguments: every Err it returns is a
         propagated callee error or the read-only rejection
  C11.3  the early Ok returns (no L2 table, compressed, no allocation) dominate every
         mutation of the per-cluster routine
  C11.4  zeros, not backing data: the entry stored for a discarded cluster is not the
         all-zero entry unless the store is guarded by a has-no-backing-file test
  C11.5  release and punch use the allocation of the old entry (provenance)
  C11.6  the zero/punch wrapper falls back to writing zeros of the same range
  C11.7  the punch of a released extent is issued by the routine that released it, with
         no other suspension between the release and the punch
  C11.8  the walk advances by exactly one cluster per iteration and hands the cursor to
         the per-cluster routine (every whole cluster of the range is visited)
Not decided: content after discard, persistence across reopen (value level).
"""
from ..absint import fmt_itv, short_vn, Bottom
from ..align import AlignInt, BS, CL, shl1
from ..facts import AnalysisError
from ..guard import Deps
from ..interp import Program, short, POLL_NAMES

TARGETS = ('--lib',)


def run(ctx, rep):
    f = ctx.lib
    P = Program(f)
    rep.explanation = (
        'C11 is decided in part: rounding/clipping of the walked range (alignment + order facts), argument-independent '
        'success, dominance of the no-op exits over the mutations, provenance of release and punch, the zero-write '
        'fallback, release/punch adjacency and the exact advance of the walk are decided on every path; the bytes read '
        'after a discard are not decided.')
    for rid, txt in (('C11.1', 'per-cluster offset is cluster aligned and inside [offset, min(offset+len, virtual size))'),
                     ('C11.2', 'no Err of discard is built from its arguments (only propagated errors and the read-only rejection)'),
                     ('C11.3', 'early Ok returns dominate every mutation of __discard_one_cluster'),
                     ('C11.4', 'the entry stored for a discarded cluster keeps reads at zero when a backing file exists'),
                     ('C11.5', 'release and punch arguments derive from the old entry\'s allocation'),
                     ('C11.6', 'failed punch falls back to a zero write of the same offset and length'),
                     ('C11.7', 'punch follows the release in the same routine without another suspension'),
                     ('C11.8', 'the walk advances by exactly one cluster and passes the cursor to the per-cluster routine')):
        rep.rule(rid, txt)
    walk = body_of(f, '::discard::{closure#0}')
    one = body_of(f, '::__discard_one_cluster::{closure#0}')
    range_rule(f, rep, walk)
    err_rule(f, P, rep, walk)
    dominance_rule(f, P, rep, one)
    stored_entry_rule(f, P, rep, one)
    provenance_rule(f, P, rep, one)
    fallback_rule(f, P, rep)
    adjacency_rule(f, P, rep, one)
    # C11.10: "returns Ok for all arguments" - no argument value panics in the clipping arithmetic (C13.2 for discard)
    from . import c13
    from ..guard import checks as _checks
    rep.rule('C11.10', 'overflow-checked arithmetic of discard on its raw arguments is dominated by a check that bounds them')
    vb = c13.validation_body(f, P, 'discard')
    roots = c13.arg_roots(f, vb)
    cks, dp = _checks(P, vb)
    nn = [0]
    c13.raw_overflow_rule(f, P, rep, 'C11.10', 'discard', vb, roots, cks, dp, {}, nn)
    rep.floor('overflow sites of discard on raw arguments', nn[0], 1)
    # C11.9: the decision to release a cluster and the clearing of its entry are one step under the slice write guard
    from ..critsec import check_then_act
    rep.rule('C11.9', 'the discard routines decide on the L2 entry read through the slice write guard they mutate under (decision and '
                      'clearing are one atomic step)')
    ncta = 0
    for (fn, where, mname, ok, why) in check_then_act(f, P):
        if 'discard' not in fn.lower():
            continue
        ncta += 1
        rep.ob('C11.9', '%s: %s at %s' % (fn, mname, where), ok, why)
        if not ok:
            rep.violation('C11.9', 'C11.9:%s:%s' % (fn, mname), where,
                          '%s performs %s under the L2 slice write guard on a decision taken before that guard was acquired: two '
                          'overlapping discards both see the old entry and release its host cluster twice (%s)' % (fn, mname, why))
    rep.floor('guarded mutations in the discard routines', ncta, 1)


def body_of(f, suffix):
    c = [b for b in f.body_list if b.is_coroutine and b.path.endswith(suffix) and 'Qcow2Dev' in b.path]
    if len(c) != 1:
        raise AnalysisError('body %s not found (%d)' % (suffix, len(c)))
    return c[0]


# --------------------------------------------------------------------------- C11.1 / C11.8

def range_rule(f, rep, b):
    ai = AlignInt(f)
    ups = f.types[b.locals[1]].get('u') or []
    pv = {}
    seen = {'vs': None}

    def setup(ai_, st, frame, b_):
        st.le.update(ai_.base_state().le)
        for k, tid in enumerate(ups):
            v = ('u', ('param', b.path, k), ai_.tname(tid))
            pv[k] = v
            st.env[(('L', frame, 1), (('f', k),))] = v
    orig_read = ai.read_place

    def read_place(st, b_, frame, pl):
        v = orig_read(st, b_, frame, pl)
        pr = pl['p']
        if pr and pr[-1]['k'] == 'field' and pr[-1].get('n') == 'virtual_size':
            seen['vs'] = v
        return v
    ai.read_place = read_place
    frame, exits, states = ai.analyze(b.path, setup)
    if len(ups) < 3:
        raise AnalysisError('discard: unexpected captures')
    vo, ln = pv[1], pv[2]
    vs = seen['vs']
    if vs is None:
        raise AnalysisError('discard does not read the virtual size')
    calls = [r for r in ai.async_calls if r[2].endswith('__discard_one_cluster')]
    rep.floor('per-cluster calls in discard', len(calls), 1)
    cs = shl1(CL)
    last = {}
    for r in calls:
        last[(r[1], r[6])] = r
    for (bi, fr), (bp, _bi, fn, name, args, st, frame_, t) in sorted(last.items(), key=lambda kv: kv[0][0]):
        g = args[1]
        where = b.where(bi)
        ok_al = ai.is_mult(st, g, CL)
        rep.ob('C11.1', 'cluster offset passed at %s is cluster aligned' % where, ok_al, ai.show(st, g))
        ok_lo = ai.prove_le(st, vo, g)
        w_ = ai.walks.get(g)
        if not ok_lo and w_ is not None:
            # an iterator over start..stop: offset <= start <= what it yields
            ok_lo = ai.prove_le(st, vo, w_[1]) and ai.prove_le(st, w_[1], g)
        rep.ob('C11.1', 'cluster offset passed at %s is not below the caller\'s offset' % where, ok_lo, '')
        end_c = ai.mk_bin('Add', g, cs)
        sat = ('max', ('c', 0), ('min', ('c', (1 << 64) - 1), ai.mk_bin('Add', vo, ln)))
        ok_hi1 = ai.prove_le(st, end_c, vs)
        ok_hi2 = ai.prove_le(st, end_c, sat) or ai.prove_le(st, end_c, ai.mk_bin('Add', vo, ln))
        if not (ok_hi1 and ok_hi2):
            # relational fallback: linear forms with the floor / min / max lemmas (e.g. end = offset + min(len, vsize - offset))
            from ..linear import LinProver
            try:
                lp = LinProver(ai, st, CL)
                ok_hi1 = ok_hi1 or lp.prove_le(end_c, vs)
                ok_hi2 = ok_hi2 or lp.prove_le(end_c, ai.mk_bin('Add', vo, ln))
                # through the loop bound: cursor < stop, both cluster aligned => cursor + cluster <= stop (engine G), and
                # stop <= the limit by the linear layer
                for fct in list(st.le):
                    if len(fct) == 3 and fct[0] in ('lt', 'le') and ai.strip(st, fct[1]) == ai.strip(st, g):
                        X = fct[2]
                        if not ai.prove_le(st, end_c, X):
                            continue
                        ok_hi1 = ok_hi1 or lp.prove_le(X, vs)
                        ok_hi2 = ok_hi2 or lp.prove_le(X, ai.mk_bin('Add', vo, ln))
            except RecursionError:
                pass
        rep.ob('C11.1', 'cluster passed at %s ends inside the virtual size' % where, ok_hi1, '')
        rep.ob('C11.1', 'cluster passed at %s ends inside offset+len' % where, ok_hi2, '')
        for ok, what, key in ((ok_al, 'is not provably cluster aligned', 'align'), (ok_lo, 'can lie below the offset the caller gave (outward rounding)', 'low'),
                              (ok_hi1, 'can end beyond the virtual size', 'vsize'), (ok_hi2, 'can end beyond offset + len (outward rounding)', 'high')):
            if not ok:
                rep.violation('C11.1', 'C11.1:discard:%s' % key, where,
                              'the cluster handed to __discard_one_cluster %s: a partially covered or outside cluster is discarded' % what)
    # C11.8: exact advance on every back edge
    edges = ai.edges.get((frame, b.path), {})
    order = {bi: i for i, bi in enumerate(b._rpo())}
    nback = 0
    for (p, h), st in sorted(edges.items()):
        if order.get(h, 1 << 30) > order.get(p, -1):
            continue
        nback += 1
        key = (frame, b.path, h)
        cur = None
        for cell, v in st.env.items():
            if cell[0] == ('L', frame, cell[0][2]) and not cell[1]:
                Pv = ('u', ('phi', key, cell), ai.tname(ai.cellty.get(cell)))
                if any(r[4][1] == Pv for r in calls):
                    cur = (cell, Pv, v)
        if cur is None:
            # a `for` loop over (start..stop).step_by(cluster_size): the iterator is the cursor
            walks = [ai.walks.get(r[4][1]) for r in calls]
            if walks and all(w is not None and w[0] == 'stepby' and ai.pow2_shift(r[5], w[3]) is not None
                             and ai.strip(r[5], ai.pow2_shift(r[5], w[3])) == CL for w, r in zip(walks, calls)):
                rep.ob('C11.8', 'loop at %s' % b.where(h), True, 'step_by(cluster size) iterator handed to the per-cluster routine')
                continue
            rep.ob('C11.8', 'loop at %s' % b.where(h), False, 'the loop cursor is not what is passed to the per-cluster routine')
            rep.violation('C11.8', 'C11.8:discard:cursor', b.where(h), 'the discard walk does not pass its cursor to __discard_one_cluster')
            continue
        cell, Pv, v = cur
        want = ai.mk_bin('Add', Pv, cs)
        ok = ai.prove_le(st, v, want) and ai.prove_le(st, want, v)
        rep.ob('C11.8', 'back edge bb%d -> bb%d of the walk' % (p, h), ok, 'cursor advances by exactly one cluster' if ok else
               'cursor becomes %s' % short_vn(v)[:160])
        if not ok:
            rep.violation('C11.8', 'C11.8:discard:advance', b.where(p),
                          'the discard walk advances its cursor by something else than one cluster on some path (%s): whole '
                          'clusters of the range are never handed to __discard_one_cluster' % short_vn(v)[:160])
    rep.floor('back edges of the discard walk', nback, 1)


# --------------------------------------------------------------------------- C11.2

def err_rule(f, P, rep, b):
    n = 0
    dp = Deps(P, b)
    for bi in sorted(b.reachable()):
        for si, s in enumerate(b.blocks[bi]['st']):
            if s['k'] != 'assign' or s['rv']['k'] != 'agg' or s['rv'].get('p') != 'std::result::Result' or s['rv'].get('vn') != 'Err':
                continue
            if s['pl']['l'] != 0:
                continue
            n += 1
            # which decision leads here?  the nearest switch that dominates and whose other edge avoids this block
            dec = None
            for cb in sorted(b.dominators().get(bi, ()), reverse=True):
                t = b.blocks[cb]['term']
                if t['k'] == 'switch' and cb != bi:
                    dec = cb
                    break
            deps = dp.of_operand(b.blocks[dec]['term']['d'], (dec, 10 ** 6)) if dec is not None else frozenset()
            from_args = any(x[0] == 'in' and x[1] in (1, 2) for x in deps)
            ro = any(x[0] == 'fn' and x[1].endswith('is_read_only') for x in deps)
            ok = ro or not from_args
            rep.ob('C11.2', 'Err built at %s' % b.where(bi), ok, 'read-only rejection' if ro else ('decision depends on the arguments' if from_args else 'not argument dependent'))
            if not ok:
                rep.violation('C11.2', 'C11.2:discard:err', b.where(bi), 'discard rejects some (offset, len): it must return Ok for all arguments on a writable device')
    rep.count('Err constructions in discard', n)


# --------------------------------------------------------------------------- C11.3

MUTATORS = ('Table::set', '::set_dirty', '::mark_need_flush', '::free_clusters', '::call_fallocate')


def dominance_rule(f, P, rep, b):
    muts = [(bi, t) for bi, t in b.calls() if any((t.get('fn') or '').endswith(m) for m in MUTATORS)]
    rep.floor('mutating calls in __discard_one_cluster', len(muts), 4)
    dp = Deps(P, b)
    guards = {'L1 entry is zero': 'is_zero', 'compressed': 'is_compressed', 'no allocation': 'allocation'}
    if not any((t.get('fn') or '').endswith('L2Entry::allocation') for _bi, t in b.calls()) and \
            any((t.get('fn') or '').endswith('L2Entry::cluster_offset') for _bi, t in b.calls()):
        # the host cluster of a standard entry read directly: offset 0 = nothing allocated
        guards['no allocation'] = 'cluster_offset'
    for what, fn in guards.items():
        # a decision on the result of fn with an edge that returns without touching anything
        found = None
        for bi in sorted(b.reachable()):
            t = b.blocks[bi]['term']
            if t['k'] != 'switch':
                continue
            deps = dp.of_operand(t['d'], (bi, 10 ** 6))
            if not any(x[0] == 'fn' and x[1].endswith('::' + fn) for x in deps):
                continue
            # one successor must reach a return without passing a mutator
            mb = {m[0] for m in muts}
            for s in b.succ()[bi]:
                r = b.reachable(s, avoid=mb)
                if any(x in r for x in b.returns()) and not any(m in b.reachable(s) for m in mb if b.dominates(s, m)):
                    found = bi
            if found is not None:
                break
        ok = found is not None and all(b.dominates(found, m[0]) for m in muts)
        if not ok:
            # the decision may be carried in a value (e.g. an Option returned from a block and matched later): decide by
            # abstract interpretation of the routine with the guard forced - no mutating call may be reachable
            reached = _mutators_reachable_under(f, b, fn)
            if reached is not None and not reached:
                ok = True
                found = found if found is not None else 0
                rep.ob('C11.3', 'no-op exit "%s" precedes every mutation' % what, True,
                       'with %s forced no mutating call is reachable (abstract interpretation)' % fn)
                continue
        rep.ob('C11.3', 'no-op exit "%s" precedes every mutation' % what, ok,
               'decision at %s dominates %d mutating calls' % (b.where(found), len(muts)) if ok else 'no such decision dominates every mutation')
        if not ok:
            rep.violation('C11.3', 'C11.3:__discard_one_cluster:%s' % fn, b.where(found if found is not None else 0),
                          '__discard_one_cluster can mutate (unmap / release / punch) a cluster that is %s: such clusters must keep their content' % what)


def _mutators_reachable_under(f, b, guard_fn):
    """mutating calls of the routine that are reachable when the guard function says "nothing to do";
    None when the guard is not called at all"""
    from ..absint import AbsInt
    forced = {'is_zero': ('c', 1), 'is_compressed': ('c', 1), 'allocation': ('opt', 'Option', ('c', 0), ('c', 0)),
              'cluster_offset': ('c', 0)}[guard_fn]
    if not any((t.get('fn') or '').endswith('::' + guard_fn) for _bi, t in b.calls()):
        return None
    ai = AbsInt(f)
    hit = set()
    ai.hooks['::' + guard_fn] = lambda ai_, st, frame, b_, bi, t, args: forced

    def seen(ai_, st, frame, b_, bi, t, args):
        if frame[0] is None:
            hit.add((bi, t.get('fn')))
        return None
    for m in MUTATORS:
        ai.hooks[m] = seen
    ai.analyze(b.path)
    return hit


# --------------------------------------------------------------------------- C11.4

def stored_entry_rule(f, P, rep, b):
    """every L2Entry constant built in the per-cluster routine: under has_back_file() = true it
    carries the zero flag (bit 0); under = false it is the unallocated entry or zero-flagged;
    outside such a decision it must carry the zero flag"""
    from ..absint import AbsInt
    ai = AbsInt(f, inline=lambda p: not p.endswith('has_back_file'))
    made = {}

    def on_stmt(ai_, st, frame, b_, bi, si, s, v):
        if b_.path != b.path or v[0] != 'agg' or v[1] != 'meta::l2::L2Entry':
            return
        made[(bi, si)] = (v, st.pc, st.pcv)
    ai.stmt_hook = on_stmt
    ai.analyze(b.path)
    sets = [(bi, t) for bi, t in b.calls() if (t.get('fn') or '').endswith('Table::set')]
    rep.floor('entry stores in __discard_one_cluster', len(sets), 1)
    rep.floor('L2 entries built in __discard_one_cluster', len(made), 1)
    for (bi, si), (v, pc, pcv) in sorted(made.items()):
        x = v[3][0] if v[3] else None
        const = x[1] if x is not None and x[0] == 'c' else None
        backing = None
        if pc is not None and pc[0] == 'u' and isinstance(pc[1], tuple) and pc[1][0] == 'call':
            bb = f.body(pc[1][2])
            fn = bb.blocks[pc[1][3]]['term'].get('fn') or '' if bb is not None else ''
            if fn.endswith('has_back_file'):
                backing = (pcv == 1) if isinstance(pcv, int) else (0 in pcv[1])
        if const is None:
            ok, why = True, 'computed entry (not decided)'
            rep.note_undecided('C11.4', b.where(bi), 'the stored entry is not a constant')
        elif backing is True:
            ok, why = (const & 1 == 1 and const & ~1 == 0), 'with a backing file: entry %#x' % const
        elif backing is False:
            ok, why = const in (0, 1), 'without a backing file: entry %#x' % const
        else:
            ok, why = (const & 1 == 1 and const & ~1 == 0), 'no backing-file test on this path: entry %#x' % const
        rep.ob('C11.4', 'L2 entry built at %s' % b.where(bi), ok, why)
        if not ok:
            rep.violation('C11.4', 'C11.4:__discard_one_cluster:entry', b.where(bi),
                          '__discard_one_cluster stores the L2 entry %#x %s: an all-zero entry is classified as Backing by '
                          'into_mapping when a backing file exists, so the discarded cluster reads the backing image\'s old data '
                          'instead of zeros' % (const, 'when the image has a backing file' if backing else 'without testing for a backing file'))


# --------------------------------------------------------------------------- C11.5

def provenance_rule(f, P, rep, b):
    dp = Deps(P, b)
    n = 0
    for bi, t in b.calls():
        fn = t.get('fn') or ''
        if fn.endswith('::free_clusters') or fn.endswith('::call_fallocate'):
            n += 1
            d = dp.of_operand(t['args'][1], (bi, 10 ** 6))
            ok = any(x[0] == 'fn' and x[1].endswith(('L2Entry::allocation', 'L2Entry::cluster_offset')) for x in d)
            rep.ob('C11.5', '%s at %s' % (short(fn), b.where(bi)), ok, 'offset derives from the old entry\'s allocation() / cluster_offset()' if ok else 'offset does not derive from allocation()')
            if not ok:
                rep.violation('C11.5', 'C11.5:__discard_one_cluster:%s' % short(fn), b.where(bi),
                              '%s in __discard_one_cluster is applied to something else than the allocation of the entry being discarded' % short(fn))
    rep.floor('release/punch calls in __discard_one_cluster', n, 2)


# --------------------------------------------------------------------------- C11.6

def fallback_rule(f, P, rep):
    b = body_of(f, '::call_fallocate::{closure#0}')
    dp = Deps(P, b)
    writes = [(bi, t) for bi, t in b.calls() if (t.get('fn') or '').endswith('::call_write')]
    ok = False
    detail = 'no zero write in the wrapper'
    for bi, t in writes:
        d_off = dp.of_operand(t['args'][1], (bi, 10 ** 6))
        d_buf = dp.of_operand(t['args'][2], (bi, 10 ** 6))
        off_ok = ('in', 1) in d_off
        len_ok = ('in', 2) in d_buf
        zero_ok = any(x[0] == 'fn' and (x[1].endswith('zeroed_io_buf') or x[1].endswith('zero_buf') or 'Qcow2IoBuf' in x[1]) for x in d_buf)
        if off_ok and len_ok and zero_ok:
            ok = True
            detail = 'zero write of (offset, len) at %s' % b.where(bi)
    rep.ob('C11.6', 'zero-write fallback in call_fallocate', ok, detail)
    if not ok:
        rep.violation('C11.6', 'C11.6:call_fallocate:fallback', b.where(0), 'call_fallocate has no zero-write fallback for the same offset and length when the punch fails')
        return
    # every failure of the backend request takes the fallback: from the Err edge of the test of the request's result no
    # return is reachable without passing the zero write
    good = {bi for bi, t in writes}
    n = 0
    for sbi in sorted(b.reachable()):
        st = b.blocks[sbi]['term']
        if st['k'] != 'switch':
            continue
        d = dp.of_operand(st['d'], (sbi, 10 ** 6))
        if not any(x[0] == 'fn' and x[1].endswith('Qcow2IoOps::fallocate') for x in d):
            continue
        if any(x[0] == 'fn' and x[1].endswith('::call_write') for x in d):
            continue
        is_ok = any(x[0] == 'fn' and x[1].endswith('Result::<T, E>::is_ok') for x in d)
        is_err = any(x[0] == 'fn' and x[1].endswith('Result::<T, E>::is_err') for x in d)
        if is_ok != is_err and b.ty(st['d']['pl']['l']).get('p') == 'bool' if st['d']['k'] in ('copy', 'move') else False:
            # `if res.is_ok()` / `if res.is_err()`: the Err edge is the false / true edge of the bool
            zero_t = [x['t'] for x in st['ts'] if int(x['v']) == 0]
            false_t = zero_t[0] if zero_t else st['o']
            true_t = st['o'] if zero_t else [x['t'] for x in st['ts'] if int(x['v']) != 0][0]
            errt = [false_t] if is_ok else [true_t]
        else:
            # a test of the discriminant of the request's Result: value 1 = Err
            errt = [x['t'] for x in st['ts'] if int(x['v']) == 1]
            if len(st['ts']) == 1 and int(st['ts'][0]['v']) == 0:
                errt = [st['o']]
            if not errt or not _is_result_discr(f, b, st):
                continue
        n += 1
        esc = [r for r in b.reachable(errt[0], avoid=good) if b.blocks[r]['term']['k'] == 'return' and not b.blocks[r]['cleanup']]
        if errt[0] in good:
            esc = []
        ok2 = not esc
        rep.ob('C11.6', 'every failure of the backend request reaches the zero write (test at %s)' % b.where(sbi), ok2,
               'a return is reachable from the Err edge without the zero write' if esc else '')
        if not ok2:
            rep.violation('C11.6', 'C11.6:call_fallocate:partial-fallback', b.where(sbi),
                          'call_fallocate returns without writing zeros for some failures of the backend\'s punch/zero request (only '
                          'selected error kinds fall back): a refused punch makes discard() fail after the cluster was already unmapped '
                          'and released, and the rest of the range is not processed')
    rep.floor('tests of the fallocate result in call_fallocate', n, 1)


def _is_result_discr(f, b, st):
    """the switch operand is the discriminant of a Result"""
    if st['d']['k'] not in ('copy', 'move'):
        return False
    l = st['d']['pl']['l']
    for bl in b.blocks:
        for s_ in bl['st']:
            if s_['k'] == 'assign' and s_['pl']['l'] == l and not s_['pl']['p'] and s_['rv']['k'] == 'discr':
                pl = s_['rv']['pl']
                if pl['p']:
                    return False
                ty = f.types[b.locals[pl['l']]]
                return ty['k'] == 'adt' and ty.get('p') == 'std::result::Result'
    return False


# --------------------------------------------------------------------------- C11.7

def adjacency_rule(f, P, rep, b):
    frees = [bi for bi, t in b.calls() if (t.get('fn') or '').endswith('::free_clusters')]
    punches = [bi for bi, t in b.calls() if (t.get('fn') or '').endswith('::call_fallocate')]
    polls = [bi for bi, t in b.calls() if t.get('fn') in POLL_NAMES]
    ok = bool(frees) and bool(punches)
    detail = ''
    if ok:
        # every path from the release's completion to a return passes the punch creation before any other poll
        for fb in frees:
            # the poll that completes the release: the first poll after fb
            after = b.reachable(fb)
            for pb in punches:
                if pb not in after:
                    ok = False
                    detail = 'a punch is not reachable from the release'
            # polls strictly between: reachable from fb, reaching a punch, not the release's own poll
            own = None
            for pl in sorted(polls):
                if pl in after and b.dominates(fb, pl):
                    own = pl
                    break
            between = [pl for pl in polls if pl in after and pl != own and any(pb in b.reachable(pl) for pb in punches) and not any(b.dominates(pb, pl) for pb in punches)]
            if between:
                ok = False
                detail = 'another suspension at %s between the release and the punch' % b.where(between[0])
            # on the Ok path of the release every return is preceded by a punch
            rets = [r for r in b.returns()]
    rep.ob('C11.7', 'release -> punch in __discard_one_cluster', ok, detail or 'the punch is created right after the release completes')
    if not ok:
        rep.violation('C11.7', 'C11.7:__discard_one_cluster:punch', b.where(frees[0]) if frees else b.where(0),
                      'the host extent released by __discard_one_cluster is not punched by it right after the release (%s): the '
                      'cluster can be handed out again before it is punched, and the late punch destroys the new owner\'s data' % (
                          detail or 'no punch in the routine'))

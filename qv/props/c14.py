"""C14 — malformed or unsupported images are rejected, never mis-handled.

Decided with engine F (interval abstract interpretation, qv/absint.py):
  C14.1  accept set of the header parser: at every `Ok(header)` of from_buf the raw
         header lies inside the supported set (cluster_bits 9..21, refcount_order 0..6,
         crypt_method 0, no incompatible feature, version >= 2, magic)
  C14.2  the parser (from_buf, the extension parser and the helpers they call) and the
         device constructor cannot panic: every Assert (overflow, bounds, division),
         slice index, unwrap/expect and explicit panic on their paths is discharged for
         every byte string / every accepted header
  C14.3  the refcount-table buffer is bounded: refcount_table_clusters << cluster_bits
         <= 64 MiB at every Ok exit (per cluster_bits partition, so the bound is relational)
  C14.4  the extension walk makes progress: a cursor strictly increases on every back
         edge and is bounded on the continue edge
  C14.5  inflate status accept set: data of a compressed cluster is returned only when the
         status is Done or HasMoreOutput
Not decided: behaviour of every operation on a device built from malformed *tables*
(L1/L2/refcount entries pointing anywhere) — value level.
"""
from ..absint import AbsInt, fmt_itv, short_vn, INF, Bottom, mentions
from ..facts import AnalysisError
from ..interp import short

TARGETS = ('--lib',)
FROM_BUF = 'meta::header::Qcow2Header::from_buf'
RAW = 'meta::header::Qcow2RawHeader'
HDR = 'meta::header::Qcow2Header'
MAGIC = 0x514649fb
PARTS = [(0, 8)] + [(c, c) for c in range(9, 22)] + [(22, (1 << 32) - 1)]
RT_BOUND = 64 << 20

# explicit panics that validate *caller supplied parameters* (API preconditions), not the image
PRECONDITION_PANICS = {
    'cache_geometry': 'validates the cache parameters the caller chose for this image',
}


def fn2(path):
    parts = [p for p in path.split('::') if not (p.startswith('<') and p.endswith('>'))]
    return '::'.join(parts[-2:]) if len(parts) >= 2 else path


def adt_fields(f, path):
    for a in f.adts.values() if isinstance(f.adts, dict) else f.adts:
        p = a['path'] if 'path' in a else None
        if p == path:
            return {x['n']: (i, x['t']) for i, x in enumerate(a['variants'][0]['fields'])}
    raise AnalysisError('ADT %s not found' % path)


def parser_run(f, part, extra=None, switch_hook=None):
    """from_buf with cluster_bits restricted to `part` (and the fields in `extra` to theirs);
    -> (ai, frame, {block: (state, header vn)} of the Ok constructions, hits)"""
    raw = adt_fields(f, RAW)
    ai = AbsInt(f)
    hits = []
    oks = []

    def after_deser(ai_, st, frame, b, bi, t, res):
        a = t.get('a') or []
        if len(a) < 2 or f.types[a[1]].get('p') != RAW or b.path != FROM_BUF:
            return
        if res[0] != 'opt':
            return
        idx, tid = raw['cluster_bits']
        fv = ai_.project(st, res[2], (('f', idx),), tid)
        ai_.refine(st, fv, part[0], part[1])
        for name, (lo, hi) in (extra or {}).items():
            i2, t2 = raw[name]
            ai_.refine(st, ai_.project(st, res[2], (('f', i2),), t2), lo, hi)
        hits.append(bi)

    def on_stmt(ai_, st, frame, b, bi, si, s, v):
        if b.path != FROM_BUF or frame[0] is not None:
            return
        pl = s['pl']
        if pl['l'] == 0 and not pl['p'] and v[0] == 'opt' and v[1] == 'Result' and v[3] == ('c', 1):
            oks.append((bi, st.copy(), v[2]))

    ai.after_call['Options::deserialize'] = after_deser
    ai.stmt_hook = on_stmt
    ai.switch_hook = switch_hook
    frame, exits, states = ai.analyze(FROM_BUF)
    # only the Ok constructions of the final fixpoint count: re-derive from the last visit per block
    last = {}
    for bi, st, v in oks:
        last[bi] = (st, v)
    return ai, frame, last, hits


def header_field(ai, f, st, hv, name):
    hf = adt_fields(f, HDR)
    raw = adt_fields(f, RAW)
    ridx, rtid = hf['raw']
    idx, tid = raw[name]
    return ai.project(st, hv, (('f', ridx), ('f', idx)), tid)


def run(ctx, rep):
    f = ctx.lib
    rep.explanation = (
        'C14 is decided for the header/extension parser and the device constructor: interval abstract interpretation '
        '(value numbering, order facts, widening; cluster_bits partitioned so that bounds are relational) proves the '
        'accept set at every Ok exit, discharges every panic site for every byte string, bounds the refcount-table '
        'allocation and proves progress of the extension walk; the inflate status accept set is decided in '
        'do_read_compressed. Operations on devices whose L1/L2/refcount *tables* are malformed are not decided.')
    rep.rule('C14.1', 'at every Ok(header) of from_buf: cluster_bits in 9..21, refcount_order in 0..6, crypt_method = 0, incompatible_features = 0, version >= 2, magic')
    rep.rule('C14.2', 'every Assert / slice index / unwrap / explicit panic reachable in the parser and the device constructor is discharged')
    rep.rule('C14.3', 'refcount_table_clusters << cluster_bits <= 64 MiB and >= 1 cluster at every Ok exit')
    rep.rule('C14.4', 'every loop of the parser has a strictly increasing, bounded cursor or is driven by a finite std iterator')
    rep.rule('C14.5', 'decompressed data is used only when the inflate status is Done or HasMoreOutput')
    parser_rules(f, rep)
    ctor_rules(f, rep, 'C14.2')
    inflate_rule(f, rep)
    from .c09 import compressed_read_rule
    rep.rule('C14.6', 'a short or misplaced read of a compressed cluster cannot make the slice of the bounce buffer panic (start <= end <= bytes read)')
    compressed_read_rule(f, rep, 'C14.6')
    table_lookup_rule(f, rep, 'C14.7')


def table_lookup_rule(f, rep, rid):
    """The entry lookup of the pointer tables (L1 table, L2 table, refcount table) is total: for every index it returns
    an entry, out-of-range indices read as the all-zero (unallocated) entry.  Indices handed to it are computed from image
    content - a host offset stored in an L2 entry selects a refcount-table entry, a guest offset of a header with a huge size
    selects an L1 entry - and nothing validates the tables against the file when it is opened, so a lookup that can panic
    turns a malformed image into a panic of read_at / check().  Decided by engine F on each `get` body with an arbitrary
    index: every panic site is discharged.  (RefBlock, whose `get` decodes packed counters of a slice the caller sized, is
    not a pointer table and is not part of this rule.)"""
    from ..absint import AbsInt
    rep.rule(rid, 'Table::get of the L1 table, the L2 table and the refcount table cannot panic for any index (out of range reads as unallocated)')
    n = 0
    for im in f.impls:
        if im.get('trait') != 'meta::table::Table':
            continue
        name = f.tstr(im['self']).split('::')[-1]
        if name == 'RefBlock':
            continue
        for m in im['methods']:
            if m['n'] != 'get' or f.body(m['p']) is None:
                continue
            n += 1
            ai = AbsInt(f)
            ai.analyze(m['p'])
            bad = [o for o in ai.obl.values() if not o.ok]
            rep.ob(rid, '%s::get' % name, not bad, '%d panic site(s) examined, all discharged for an arbitrary index' % len(ai.obl) if not bad
                   else '%s at %s: %s' % (bad[0].kind, bad[0].where, (bad[0].detail or '')[:160]))
            if bad:
                rep.violation(rid, '%s:%s' % (rid, name), bad[0].where,
                              '%s::get can panic for an index outside the table (%s): the index comes from image content (an L2 entry '
                              'pointing beyond what the refcount table covers, a guest offset of an image whose header claims a huge '
                              'size), so a malformed image makes read_at / check() panic instead of reading the entry as unallocated' % (
                                  name, bad[0].kind.split('{')[0].strip()))
    rep.floor('pointer-table lookups examined', n, 3)


def parser_rules(f, rep):
    agg = {}          # (fn, kind) -> [ok, where, detail, n]
    accept = {}       # field -> [ok, worst interval]
    n_ok_exits = 0
    n_hits = 0
    loops = {}
    for part in PARTS:
        ai, frame, oks, hits = parser_run(f, part)
        n_hits += len(hits)
        for key, o in ai.obl.items():
            k = (short(o.fn), o.kind.split(' ')[0].split('{')[0].strip())
            e = agg.setdefault(k, [True, o.where, '', 0, set()])
            e[3] += 1
            e[4].add(o.where)
            if not o.ok:
                e[0] = False
                e[1] = o.where
                e[2] = '%s (cluster_bits in %s)' % (o.detail, fmt_itv(part))
        for bi, (st, hv) in oks.items():
            n_ok_exits += 1

            def chk(name, lo, hi, rule='C14.1'):
                v = header_field(ai, f, st, hv, name)
                i = ai.itvof(st, v)
                ok = i is not None and i[0] >= lo and i[1] <= hi
                e = accept.setdefault((rule, name, lo, hi), [True, None])
                if not ok:
                    e[0] = False
                    e[1] = (i, part)
                return i
            chk('cluster_bits', 9, 21)
            chk('refcount_order', 0, 6)
            chk('crypt_method', 0, 0)
            chk('incompatible_features', 0, 0)
            chk('version', 2, (1 << 32) - 1)
            chk('magic', MAGIC, MAGIC)
            cb = ai.itvof(st, header_field(ai, f, st, hv, 'cluster_bits'))
            rt = ai.itvof(st, header_field(ai, f, st, hv, 'refcount_table_clusters'))
            ok = rt is not None and cb is not None and rt[0] >= 1 and cb[1] <= 40 and (rt[1] << cb[1]) <= RT_BOUND
            e = accept.setdefault(('C14.3', 'refcount_table_clusters << cluster_bits', 1, RT_BOUND), [True, None])
            if not ok:
                e[0] = False
                e[1] = (rt, part)
        # loops of from_buf (analysed once per partition; the verdict must hold in each)
        b = f.body(FROM_BUF)
        edges = ai.edges.get((frame, FROM_BUF), {})
        order = {bi: i for i, bi in enumerate(b._rpo())}
        for (p, h), st in edges.items():
            if order.get(h, 1 << 30) > order.get(p, -1):
                continue
            # back edge p -> h
            ok, why = loop_progress(ai, b, frame, h, st)
            e = loops.setdefault(h, [True, ''])
            if not ok:
                e[0] = False
                e[1] = why
            elif not e[1]:
                e[1] = why
    if n_hits < len(PARTS):
        raise AnalysisError('the raw header is no longer produced by one deserialize call in from_buf (anchor for the cluster_bits partition)')
    rep.floor('Ok exits of from_buf (over %d partitions)' % len(PARTS), n_ok_exits, 13)
    rep.count('partitions of cluster_bits', len(PARTS))
    for (rule, name, lo, hi), (ok, worst) in sorted(accept.items()):
        rep.ob(rule, 'accept set of %s at Ok(header)' % name, ok,
               'within [%s, %s] at every Ok exit of every partition' % (lo, hex(hi) if hi > 1 << 16 else hi) if ok else
               'can be %s (cluster_bits in %s)' % (fmt_itv(worst[0]), fmt_itv(worst[1])))
        if not ok:
            rep.violation(rule, '%s:%s' % (rule, name.split(' ')[0]), 'src/meta/header.rs',
                          'from_buf returns Ok for a header whose %s can be %s (cluster_bits in %s); supported: [%s, %s]' % (
                              name, fmt_itv(worst[0]), fmt_itv(worst[1]), lo, hi))
    n_sites = 0
    for (fn, kind), (ok, where, detail, n, sites) in sorted(agg.items()):
        n_sites += len(sites)
        rep.ob('C14.2', '%s: %s (%d site(s))' % (fn, kind, len(sites)), ok, 'discharged in all %d partitions' % len(PARTS) if ok else detail)
        if not ok:
            rep.violation('C14.2', 'C14.2:%s:%s' % (fn, kind), where,
                          'the header parser can panic in %s for some byte string: %s %s' % (fn, kind, detail))
    rep.floor('panic sites examined in the parser', n_sites, 18)
    for h, (ok, why) in sorted(loops.items()):
        rep.ob('C14.4', 'loop at %s' % f.body(FROM_BUF).where(h), ok, why)
        if not ok:
            rep.violation('C14.4', 'C14.4:from_buf:loop', f.body(FROM_BUF).where(h),
                          'a loop of the header parser has no strictly increasing bounded cursor: %s' % why)
    rep.floor('loops of from_buf', len(loops), 1)


def loop_progress(ai, b, frame, head, st_back):
    """on the back-edge state: some integer cell holds a value strictly greater than the
    value it had at the loop head (the head's phi), and it is bounded"""
    key = (frame, b.path, head)
    best = None
    for cell, v in st_back.env.items():
        if cell[0][0] != 'L' or cell[0][1] != frame or cell[1]:
            continue
        ty = ai.tname(ai.cellty.get(cell))
        if ty is None or ty == 'bool':
            continue
        P = ('u', ('phi', key, cell), ty)
        if v == P:
            continue
        if ai.prove_le(st_back, P, v, True):
            i = ai.itvof(st_back, v)
            if i is not None and i[1] < INF and i[1] < (1 << 63):
                return True, '%s strictly increases and stays within %s' % (b.lname(cell[0][2]), fmt_itv(i))
            best = '%s increases but is not bounded' % b.lname(cell[0][2])
    # iterator driven?
    for bi in b.reachable():
        t = b.blocks[bi]['term']
        if t['k'] == 'call' and (t.get('fn') or '').endswith('Iterator::next') and b.dominates(head, bi):
            return True, 'driven by a std iterator'
    return False, best or 'no cell strictly increases on the back edge'


# --------------------------------------------------------------------------- constructor

def ctor_rules(f, rep, rule):
    """Qcow2Dev::new (and Qcow2Info::new inside it) for every accepted header"""
    cands = [b.path for b in f.body_list if b.path.endswith('Qcow2Dev::<T>::new') and b.path.startswith('dev::')]
    if len(cands) != 1:
        raise AnalysisError('Qcow2Dev::new not found: %s' % cands)
    path = cands[0]
    raw = adt_fields(f, RAW)
    hf = adt_fields(f, HDR)
    b = f.body(path)
    # parameter positions by type
    hpos = ppos = None
    for i in range(1, b.argc + 1):
        ty = f.types[b.locals[i]]
        if ty['k'] == 'adt' and ty['p'] == HDR:
            hpos = i
        if ty['k'] == 'ref' and f.types[ty['t']].get('p', '').endswith('Qcow2DevParams'):
            ppos = i
    if hpos is None or ppos is None:
        raise AnalysisError('Qcow2Dev::new: header / params parameters not found')
    pf = adt_fields(f, f.types[f.types[b.locals[ppos]]['t']]['p'])
    agg = {}
    runs = 0
    for cb in range(9, 22):
        for ro in range(0, 7):
            for custom in (False, True):
                ai = AbsInt(f)

                def setup(ai_, st, frame, b_, cb=cb, ro=ro, custom=custom):
                    hv = st.env[(('L', frame, hpos), ())]
                    ridx = hf['raw'][0]

                    def setf(name, lo, hi):
                        idx, tid = raw[name]
                        v = ai_.project(st, hv, (('f', ridx), ('f', idx)), tid)
                        ai_.refine(st, v, lo, hi)
                    setf('cluster_bits', cb, cb)
                    setf('refcount_order', ro, ro)
                    setf('crypt_method', 0, 0)
                    setf('incompatible_features', 0, 0)
                    setf('version', 2, (1 << 32) - 1)
                    setf('refcount_table_clusters', 1, (8 << 20) >> cb)
                    pv = st.env[(('L', frame, ppos), ())]
                    for name, (idx, tid) in pf.items():
                        cell = (('M', pv), (('f', idx),))
                        if 'bs' in name or 'block' in name:
                            v = ai_.read_cell(st, cell, tid)
                            if ai_.tname(tid):
                                ai_.refine(st, v, 9, 12)
                        elif ai_.kind_of_tid(tid) == 'Option':
                            v = ai_.read_cell(st, cell, tid)
                            if v[0] == 'opt':
                                ai_.assume(st, v[3], custom)
                frame, exits, states = ai.analyze(path, setup)
                runs += 1
                hparam = ('param', path, hpos - 1)
                for key, o in ai.obl.items():
                    fn = fn2(o.fn)
                    kind = o.kind.split(' ')[0].split('{')[0].strip()
                    k = (fn, kind)
                    e = agg.setdefault(k, [True, o.where, '', set(), False])
                    e[3].add(o.where)
                    if not o.ok:
                        pparam = ('param', path, ppos - 1)
                        if o.cond is not None and not mentions(o.cond, lambda v: v[0] == 'u' and len(v) > 1 and v[1] == hparam) \
                                and mentions(o.cond, lambda v: v[0] == 'u' and len(v) > 1 and v[1] == pparam):
                            # the failing condition is a function of the caller's parameters only
                            e[4] = True
                            continue
                        e[0] = False
                        e[1] = o.where
                        e[2] = '%s (cluster_bits %d, refcount_order %d, %s cache parameters)' % (
                            o.detail, cb, ro, 'custom' if custom else 'default')
    rep.count('constructor runs (cluster_bits x refcount_order x default/custom parameters)', runs)
    n_sites = 0
    for (fn, kind), (ok, where, detail, sites, pre) in sorted(agg.items()):
        n_sites += len(sites)
        if pre:
            rep.assume('%s in %s whose condition depends on the caller-supplied device parameters only (not on the image) '
                       'is a precondition of the API' % (kind, fn))
        if not ok and kind == 'panic' and fn.split('::')[-1] in PRECONDITION_PANICS:
            rep.assume('explicit panics in %s are API preconditions: %s' % (fn, PRECONDITION_PANICS[fn.split('::')[-1]]))
            continue
        rep.ob(rule, 'constructor: %s: %s (%d site(s))' % (fn, kind, len(sites)), ok,
               'discharged for every accepted header' if ok else detail)
        if not ok:
            rep.violation(rule, '%s:ctor:%s:%s' % (rule, fn, kind), where,
                          'building a device from an accepted header can panic in %s: %s %s' % (fn, kind, detail))
    rep.floor('panic sites examined in the constructor', n_sites, 20)


# --------------------------------------------------------------------------- inflate status

def inflate_rule(f, rep):
    n = 0
    for b in f.body_list:
        if '::tests::' in b.path:
            continue
        sites = [bi for bi, t in b.calls() if (t.get('fn') or '').endswith('inflate::core::decompress')]
        if not sites:
            continue
        ai = AbsInt(f)
        status = {}
        captured = []

        def after(ai_, st, frame, b_, bi, t, res, status=status):
            # (status, in, out) tuple
            dt = ai_.place_tid(b_, t['dst'])
            ty = f.types[dt]
            if ty['k'] == 'tuple':
                v = ai_.project(st, res, (('f', 0),), ty['a'][0])
                status[bi] = v
                en = f.types[ty['a'][0]].get('enum')
                if en:
                    st.vals[('u', ('discr', v), 'isize')] = frozenset(int(x['d']) for x in en)
                    status['enum'] = en

        def on_stmt(ai_, st, frame, b_, bi, si, s, v, captured=captured):
            pl = s['pl']
            if b_.path == b.path and pl['l'] == 0 and not pl['p'] and v[0] == 'opt' and v[3] == ('c', 1):
                captured.append((bi, st.copy()))
        ai.after_call['inflate::core::decompress'] = after
        ai.stmt_hook = on_stmt
        ai.analyze(b.path)
        last = {}
        for bi, st in captured:
            last[bi] = st
        for site in sites:
            n += 1
            sv = status.get(site)
            if sv is None:
                rep.ob('C14.5', 'inflate status at %s' % b.where(site), False, 'status value not found')
                rep.violation('C14.5', 'C14.5:%s' % short(b.path), b.where(site), 'the inflate status is not bound to a value')
                continue
            en = status.get('enum')
            if not en:
                raise AnalysisError('the status type of the inflate call is not a field-less enum any more')
            good = {int(x['d']) for x in en if x['n'] in ('Done', 'HasMoreOutput')}
            if len(good) != 2:
                raise AnalysisError('TINFLStatus has no Done / HasMoreOutput variants')
            for obi, st in sorted(last.items()):
                d = ('u', ('discr', sv), 'isize')
                vs = st.vals.get(d)
                ok = vs is not None and vs <= good and len(good) <= 2
                rep.ob('C14.5', 'Ok exit of %s at %s' % (short(b.path), b.where(obi)), ok,
                       'status in %s' % sorted(vs) if vs is not None else 'status not restricted to the good values')
                if not ok:
                    rep.violation('C14.5', 'C14.5:%s' % short(b.path), b.where(obi),
                                  '%s returns Ok with inflated data although the inflate status can be other than Done / '
                                  'HasMoreOutput (e.g. a truncated stream): %s' % (
                                      short(b.path), 'status in %s' % sorted(vs) if vs is not None else 'any status'))
    rep.floor('inflate call sites', n, 1)

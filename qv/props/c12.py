"""C12 — metadata growth (refblocks, refcount table, L1) is correct and crash-safe.

Decided (DESIGN C12):
  C12.1  header switch only after the relocated table is synced (C04.O5) and the old
         table is released only after the synced header switch (C04.O4 header variant)
  C12.2  rollback: a failed header write runs the rollback closure before the error
         is returned (fault model), and the values the rollback restores do not
         derive from the new (grown, still private) table
  C12.3  the refblock written directly by the growth path is a private table and the
         rest of its slice range is zeroed in the same request group
  C12.4  a zero-length zero/punch request never reaches the backend or the zero-write
         fallback (the wrapper returns early)
  C12.5  the growth path does not request a lock its caller holds (certain hang)
Not decided: that growth computes the right sizes (units/value level).
"""
from ..interp import Program, short, POLL_NAMES
from ..guard import Deps
from ..flow import FlowDomain, Classifier
from ..facts import AnalysisError
from . import c04

TARGETS = ('--lib',)


def run(ctx, rep):
    f = ctx.lib
    P = Program(f)
    rep.explanation = (
        'C12 is decided in part: ordering of the header switch against the relocated table, release of the old table, '
        'rollback on a failed header write and its provenance, zero-length request guard and self-deadlock on the '
        'growth path are decided on every path. The sizes computed during growth are not decided (value level).')
    rep.rule('C12.1', 'header switch after the relocated table is synced; old table released after the synced switch')
    rep.rule('C12.2', 'failed header write => rollback closure runs; rollback values do not derive from the new table')
    rep.rule('C12.3', 'directly written refblock is private and its slice range is zeroed in the same group')
    rep.rule('C12.4', 'zero-length zero/punch request returns before the backend call')
    rep.rule('C12.5', 'no lock held by the caller is requested again on the growth path')
    d = c04.common(ctx, rep)
    for (rule, site), (ok, detail) in sorted(d.obl.items()):
        if rule in ('C04.O5',) or (rule == 'C04.O4' and 'HDR' in detail):
            rep.ob('C12.1', '%s:%s' % (rule, site), ok, detail)
        if rule == 'C04.O6' and 'grow' in site:
            rep.ob('C12.3', site, ok, detail)
    for key, v in sorted(d.viol.items()):
        if v['rule'] == 'C04.O5' or (v['rule'] == 'C04.O4' and key.endswith('UNREF(HDR)')):
            rep.violation('C12.1', key, v['where'], v['msg'], {'path': v['chain']})
        if v['rule'] == 'C04.O6' and 'grow' in key:
            rep.violation('C12.3', key.replace('C04.O6', 'C12.3'), v['where'], v['msg'], {'path': v['chain']})
    for h in d.cut_hangs:
        rep.ob('C12.5', h, False, 'certain self-deadlock on the growth path')
        rep.violation('C12.5', 'C12.5:' + h.split(' requested')[0], '',
                      'the metadata growth path requests %s: the operation that triggers the growth never completes' % h)
    if not d.cut_hangs:
        rep.ob('C12.5', 'growth path lock requests', True, 'no single-instance lock is requested while held by the caller')
    # fault model: rollback runs
    fd = c04.closure_cached(f, faults=True)
    rb = [k for k, v in fd.viol.items() if v['rule'] == 'C17.3' and k.endswith(':rollback')]
    rep.ob('C12.2', 'rollback runs on a failed header write', not rb, 'fault-model typestate')
    for k in rb:
        v = fd.viol[k]
        rep.violation('C12.2', k.replace('C17.3', 'C12.2'), v['where'], v['msg'], {'path': v['chain']})
    # rollback provenance: values captured by the closure handed to the header writer
    cl = Classifier(P)
    n = 0
    for b in f.body_list:
        if not b.is_coroutine or '::tests::' in b.path:
            continue
        dp = None
        for bi, t in b.calls():
            fn = t.get('fn') or ''
            fb = f.body(fn)
            if fb is None or not any((x.get('fn') or '').endswith('serialize_to_buf') for co in f.coroutines_of(fn)
                                     for _i, x in f.body(co).calls()):
                continue
            # closure argument
            for a in t['args']:
                if a['k'] not in ('copy', 'move'):
                    continue
                ty = b.ty(a['pl']['l'])
                if ty['k'] != 'closure':
                    continue
                n += 1
                if dp is None:
                    dp = Deps(P, b)
                # captured values: operands of the closure aggregate
                bad = []
                for dd in P.defs(b).get(a['pl']['l'], []):
                    if dd[0] != 'st':
                        continue
                    rv = b.blocks[dd[1]]['st'][dd[2]]['rv']
                    if rv['k'] == 'agg' and rv.get('ak') == 'closure':
                        for o in rv['ops']:
                            deps = dp.of_operand(o, (dd[1], dd[2]))
                            # derived from the grown/private table?
                            for x in deps:
                                if x[0] == 'fn' and x[1].endswith('clone_and_grow'):
                                    bad.append('clone_and_grow')
                            # parameters that are private tables of the caller
                            for x in deps:
                                if x[0] == 'in':
                                    pt = f.body(b.parent).ty(x[1] + 1) if b.parent and f.body(b.parent) else None
                                    if pt is not None and pt['k'] == 'ref' and pt.get('m') and \
                                            f.types[pt['t']].get('p') in ('meta::refcount::RefTable', 'meta::l1::L1Table'):
                                        bad.append('the new table (&mut %s parameter)' % f.types[pt['t']]['p'].split('::')[-1])
                ok = not bad
                rep.ob('C12.2', 'rollback closure of %s at %s' % (short(b.path), b.where(bi)), ok,
                       'captured values derive from the old state' if ok else 'derive from %s' % sorted(set(bad)))
                if not ok:
                    rep.violation('C12.2', 'C12.2:%s:rollback-source' % short(b.path), b.where(bi),
                                  'the rollback closure of %s restores a value that derives from %s: after a failed '
                                  'header write the in-RAM header describes a table that does not exist on disk' % (
                                      short(b.path), sorted(set(bad))))
    rep.floor('header writes with a rollback closure', n, 2)
    # C12.4
    wrappers = [b for b in f.body_list if b.is_coroutine and any(
        t.get('fn') in POLL_NAMES and any(fu.kind == 'trait_fn' and fu.path == 'ops::Qcow2IoOps::fallocate'
                                          for fu in P.futs(t['a'][0], ())) for _bi, t in b.calls())
        and 'Qcow2Dev' in b.path]
    rep.rule('C12.7', 'the child slices of a top-table block are located with the geometry fields of the top-table index (new refblocks reach the disk before the reftable block that points at them)')
    from .c15 import key_rule
    from ..interp import Program as _P2
    key_rule(f, _P2(f), rep, 'C12.7')
    rep.rule('C12.8', 'the in-RAM count of L1 entries the header covers is raised only after the header update succeeded')
    header_mirror_rule(f, rep)
    from . import c08
    c08.grant_rule(f, P, rep, 'C12.9')
    new_mark_rule(f, P, rep, 'C12.11')
    rep.rule('C12.10', 'building the grown copy of a top table leaves the source table untouched (the source stays the live table when the growth fails)')
    source_untouched_rule(f, P, rep)
    rep.rule('C12.6', 'the fresh refblock of the growth path accounts for the refblock and every cluster of the relocated table')
    growth_refcount_rule(f, rep)
    rep.floor('zero/punch wrappers', len(wrappers), 1)
    for b in wrappers:
        dp = Deps(P, b)
        polls = [bi for bi, t in b.calls() if t.get('fn') in POLL_NAMES]
        ok = False
        for bi in b.reachable():
            t = b.blocks[bi]['term']
            if t['k'] != 'switch':
                continue
            dd = dp.of_operand(t['d'], (bi, 10 ** 6))
            if ('in', 2) in dd and not any(x[0] == 'fn' and 'poll' in x[1] for x in dd) and all(b.dominates(bi, p) for p in polls):
                ok = True
        rep.ob('C12.4', 'zero-length guard in %s' % short(b.path), ok, 'a test of the length dominates every backend request')
        if not ok:
            rep.violation('C12.4', 'C12.4:%s' % short(b.path), b.where(0),
                          '%s passes a zero length to the backend: table growth zeroes an empty range in front of a '
                          'refblock that starts its slice range, the punch fails and the zero-write fallback allocates a '
                          '0-byte buffer (panic)' % short(b.path))


INTERIOR_MUTATORS = (
    'RefCell::<T>::take', 'RefCell::<T>::replace', 'RefCell::<T>::replace_with', 'RefCell::<T>::swap', 'RefCell::<T>::borrow_mut',
    'RefCell::<T>::try_borrow_mut', 'Cell::<T>::set', 'Cell::<T>::replace', 'Cell::<T>::take', 'Cell::<T>::swap',
    '::store', '::swap', '::fetch_add', '::fetch_sub', '::fetch_or', '::fetch_and', '::compare_exchange',
    'Mutex::<T>::lock', 'RwLock::<T>::write', 'UnsafeCell::<T>::get')


def _derives_from(P, b, op, roots):
    if op['k'] not in ('copy', 'move'):
        return False
    def hit(o):
        if o in roots:
            return True
        if isinstance(o, tuple) and o and o[0] == 'field':
            return hit(o[1]) if isinstance(o[1], tuple) else ('arg', o[1]) in roots
        return False
    return any(hit(o) for o in P.place_origins(b, op['pl']))


def source_untouched_rule(f, P, rep):
    """C12.10: `clone_and_grow(&self, ..)` only reads its source.  The copy is installed by the caller after the growth
    succeeded; when the growth fails the source is still the live table and must have kept its entries and its queue of
    dirty blocks.  Decided on the body (helpers followed through arguments that derive from `self`): no interior-mutation
    primitive is applied to something reached from the source."""
    roots_fn = [b for b in f.body_list if b.path.endswith('::clone_and_grow') and '::tests::' not in b.path]
    rep.floor('table copy constructors (clone_and_grow)', len(roots_fn), 2)
    for b0 in roots_fn:
        bad = []
        seen = set()
        work = [(b0, frozenset({('arg', 1)}), 0)]
        n = 0
        while work:
            b, roots, d = work.pop()
            if (b.path, roots) in seen or d > 4:
                continue
            seen.add((b.path, roots))
            for bi, t in b.calls():
                fn = t.get('fn') or ''
                n += 1
                if not t['args']:
                    continue
                if any(fn.endswith(m) for m in INTERIOR_MUTATORS) and _derives_from(P, b, t['args'][0], roots):
                    bad.append((b.where(bi), fn))
                    continue
                cb = f.body(fn)
                if cb is not None and not cb.is_coroutine:
                    r2 = frozenset(('arg', i + 1) for i, a in enumerate(t['args']) if _derives_from(P, b, a, roots))
                    if r2:
                        work.append((cb, r2, d + 1))
        me = b0.path.split('::')[-2] + '::clone_and_grow'
        rep.ob('C12.10', me, not bad, '%d call(s) followed from the source table; %s' % (
            n, 'none changes it' if not bad else 'source changed by %s' % ', '.join('%s at %s' % (x[1].split('::', 2)[-1], x[0]) for x in bad)))
        if bad:
            rep.violation('C12.10', 'C12.10:%s' % me, bad[0][0],
                          '%s changes the table it copies (`%s` on something reached from `self`): the caller installs the copy '
                          'only after the growth succeeded, so when the growth fails the old table stays live with that state '
                          'taken away - entries set since the last flush are never written and flush_meta() reports success' % (
                              me, bad[0][1].split('::', 2)[-1]))


def growth_refcount_rule(f, rep):
    """C12.6: the fresh refblock built by the growth path accounts for every cluster of the relocated
    table: some increment site can reach index N = cluster count of the grown table (if every index that
    is incremented is provably below N, the last table cluster is written with refcount 0)"""
    from ..absint import AbsInt
    bodies = [b for b in f.body_list if b.is_coroutine and b.path.endswith('grow_reftable::{closure#0}')]
    if len(bodies) != 1:
        raise AnalysisError('grow_reftable not found')
    b = bodies[0]
    ai = AbsInt(f, inline=lambda p: not p.endswith('RefBlock::increment'))
    counts = []
    incs = []

    def after_cc(ai_, st, frame, b_, bi, t, res):
        if b_.path == b.path:
            counts.append((bi, res))

    def after_inc(ai_, st, frame, b_, bi, t, res):
        args = [ai_.operand(st, b_, frame, a) for a in t['args']]
        incs.append(((b_.path, bi, frame), args[1] if len(args) > 1 else None, st.copy()))
    ai.after_call['Table::cluster_count'] = after_cc
    ai.after_call['RefBlock::increment'] = after_inc
    ai.analyze(b.path)
    if not counts:
        raise AnalysisError('grow_reftable: cluster count of the grown table not found')
    N = counts[0][1]
    last = {}
    for key, idx, st in incs:
        last[key] = (idx, st)
    rep.floor('refcount increments on the growth path', len(last), 1)
    reach = False
    for key, (idx, st) in sorted(last.items(), key=lambda kv: kv[0][1]):
        below = idx is not None and ai.prove_le(st, idx, N, True)
        if not below:
            reach = True
    rep.ob('C12.6', 'new refblock covers the refblock and all clusters of the relocated table', reach,
           'some increment can reach index N (cluster count of the grown table)' if reach else
           'every incremented index is provably below N: the last cluster of the table keeps refcount 0')
    if not reach:
        rep.violation('C12.6', 'C12.6:grow_reftable:coverage', b.where(counts[0][0]),
                      'grow_reftable increments the refcounts of indexes that are all provably below the cluster count of the '
                      'relocated table: its last cluster (index N, after the refblock at index 0) is written with refcount 0, so '
                      'the image is invalid as soon as the header is switched')


def header_mirror_rule(f, rep):
    """update_header_entries (what the L1 table believes the on-disk header covers) must come after the
    successful header commit: if it is raised first and the commit fails, the rollback restores the header
    but the table keeps the larger count, and the retry skips the header extension"""
    from ..absint import AbsInt, short_vn
    n = 0
    for b in f.body_list:
        if '::tests::' in b.path or not b.is_coroutine:
            continue
        ups = [(bi, t) for bi, t in b.calls() if (t.get('fn') or '').endswith('L1Table::update_header_entries')]
        if not ups:
            continue
        commits = [bi for bi, t in b.calls() if (t.get('fn') or '').endswith('::flush_header_for_l1_table') or (t.get('fn') or '').endswith('::commit_header')]
        # values: the count committed to the header and the count mirrored into the table
        ai = AbsInt(f)
        vals = {}

        def grab(ai_, st, frame, b_, bi_, t_, args, _b=b):
            if frame[0] is None and b_.path == _b.path:
                vals[bi_] = args[-1]
            return None
        ai.hooks['::flush_header_for_l1_table'] = grab
        ai.hooks['L1Table::update_header_entries'] = grab
        ai.analyze(b.path)

        def peel(v):
            k = 0
            while isinstance(v, tuple) and v and v[0] in ('wrap', 'cast') and k < 8:
                v = v[1]
                k += 1
            return v
        for bi, t in ups:
            n += 1
            # the commit's future is created at a call block; its success continuation dominates what follows the `?`
            doms = [c for c in commits if b.dominates(c, bi) and polled_between(b, c, bi)]
            ok = bool(doms)
            rep.ob('C12.8', 'update_header_entries in %s at %s' % (short(b.path), b.where(bi)), ok,
                   'after the awaited header update' if ok else 'not dominated by a completed header update')
            if ok and bi in vals:
                cm = [c for c in doms if c in vals and (b.blocks[c]['term'].get('fn') or '').endswith('::flush_header_for_l1_table')]
                if cm:
                    same = any(peel(vals[c]) == peel(vals[bi]) for c in cm)
                    rep.ob('C12.8', 'count mirrored in %s at %s equals the count committed' % (short(b.path), b.where(bi)), same,
                           'mirrored %s; committed %s' % (short_vn(peel(vals[bi]))[:80], [short_vn(peel(vals[c]))[:80] for c in cm]))
                    if not same:
                        rep.violation('C12.8', 'C12.8:%s:count' % short(b.path), b.where(bi),
                                      '%s records %s as the number of L1 entries the on-disk header covers, but the header was written '
                                      'with %s: the table believes entries are active that the header does not list, the header is never '
                                      'extended again and mappings installed there are invisible to any reader of the file' % (
                                          short(b.path), short_vn(peel(vals[bi]))[:80], [short_vn(peel(vals[c]))[:80] for c in cm]))
            if not ok:
                rep.violation('C12.8', 'C12.8:%s' % short(b.path), b.where(bi),
                              '%s raises the number of L1 entries the header is believed to cover before the header update has '
                              'succeeded: after a failed header write the rollback restores the header only, and the retried write '
                              'installs an L1 entry beyond the on-disk l1_size' % short(b.path))
    rep.floor('update_header_entries call sites', n, 1)


def polled_between(b, create_bi, use_bi):
    """a poll of some future lies on every path from the creation to the use (the await completed)"""
    from ..interp import POLL_NAMES
    polls = {bi for bi, t in b.calls() if t.get('fn') in POLL_NAMES and b.dominates(create_bi, bi)}
    return any(b.dominates(p, use_bi) for p in polls)


def new_mark_rule(f, P, rep, rid):
    """A freshly allocated metadata cluster holds stale bytes in the file.  The function that allocates it and then puts a
    slice of it into a cache (add_rb_slice / add_l2_slice / add_cache_slice) must have marked the cluster as new before:
    without the mark the insertion *loads* the slice from the file, over the entries just built in RAM (the refblock's own
    refcount), and leaves it clean."""
    rep.rule(rid, 'in a function that allocates a cluster and inserts a cache slice afterwards, a mark_new_cluster call that '
                  'follows the allocation dominates the insertion')
    # a cluster becomes a table cluster by an allocation or by an install into the top table at a computed position
    ALLOC = ('::allocate_cluster', '::allocate_clusters', '::set_refblock_offset', '::map_l2_offset')
    INSERT = ('::add_rb_slice', '::add_l2_slice', '::add_cache_slice')
    n = 0
    for b in f.body_list:
        if '::tests::' in b.path or not b.path.startswith('dev::'):
            continue
        calls = list(b.calls())
        allocs = [bi for bi, t in calls if (t.get('fn') or '').endswith(ALLOC)]
        ins = [bi for bi, t in calls if (t.get('fn') or '').endswith(INSERT)]
        marks = [bi for bi, t in calls if (t.get('fn') or '').endswith('::mark_new_cluster')]
        if not allocs or not ins:
            continue
        succ = b.succ()

        def reach(src):
            seen, st = set(), list(succ[src])
            while st:
                x = st.pop()
                if x not in seen:
                    seen.add(x)
                    st.extend(succ[x])
            return seen
        for abi in allocs:
            ra = reach(abi)
            for ibi in ins:
                if ibi not in ra:
                    continue
                n += 1
                good = [m for m in marks if m in ra and b.dominates(m, ibi)]
                fn = short(b.path)
                ok = bool(good)
                rep.ob(rid, '%s: slice insertion at %s after the allocation at %s' % (fn, b.where(ibi), b.where(abi)), ok,
                       'mark_new_cluster at %s dominates it' % b.where(good[0]) if ok else 'no mark_new_cluster between the allocation and the insertion')
                if not ok:
                    rep.violation(rid, '%s:%s' % (rid, fn), b.where(ibi),
                                  '%s inserts a cache slice of the cluster it has just allocated (at %s) before the cluster is marked as new: '
                                  'the insertion reads the slice from the file, replacing the entries built in RAM (the new refcount block '
                                  'loses its own reference when the file already extends there) and leaving the slice clean' % (fn, b.where(abi)))
    rep.floor('slice insertions after an allocation in the same function', n, 1)

"""C16 — backend requests are block aligned (direct-I/O safe).

Decided with engine G (alignment over the interval engine, modular over the async
call graph):
  C16.1  offset of every read/write/zero request is a multiple of the block size
  C16.2  length of every request (buffer length, zero/punch length) is a multiple of it
  C16.3  the buffer handed to the backend is a Qcow2IoBuf / table buffer at a block
         multiple, or the caller's buffer at a block multiple - never a Vec or the stack
  C16.4  every table buffer is created with a size that is a multiple of the block size
         and every table offset that is recorded is a multiple of it (the modular
         invariants the other rules rely on)
Assumed: cluster >= slice >= block size; host offsets stored in a spec-valid image
(L1/L2/refcount-table entries) are cluster aligned; the caller's buffer is aligned.
"""
from ..absint import fmt_itv, short_vn, Bottom
from ..align import AlignInt, BS, CL, L2S, RBS
from ..facts import AnalysisError
from ..interp import short

TARGETS = ('--lib',)

TRAIT = 'ops::Qcow2IoOps::'
# callee suffix -> [(argument index, kind)]   kinds: mult | ptr | blen
BASE_REQS = {
    TRAIT + 'read_to': [(1, 'mult'), (2, 'ptr'), (2, 'blen')],
    TRAIT + 'write_from': [(1, 'mult'), (2, 'ptr'), (2, 'blen')],
    TRAIT + 'fallocate': [(1, 'mult'), (2, 'mult')],
}
# modular invariants: sizes of table buffers, recorded table offsets
SYNC_SINKS = {
    'meta::table::Table::new_empty': [(1, 'mult')],
    'meta::l2::L2Table::new': [(1, 'mult')],
    'meta::refcount::RefTable::new': [(1, 'mult')],
    'meta::refcount::RefBlock::new': [(1, 'mult')],
    'meta::l1::L1Table::new': [(1, 'mult')],
    'meta::table::Table::set_offset': [(1, 'optmult')],
    'helpers::Qcow2IoBuf::<T>::new': [(0, 'mult')],
}
# sources: results that are multiples of the cluster size in a spec-valid image, with the reason
CL_SOURCES = {
    'L1Entry::l2_offset': 'L2 table offset stored in the L1 table',
    'L1Entry::get_value': 'L2 table offset stored in the L1 table',
    'RefTableEntry::refblock_offset': 'refcount block offset stored in the refcount table',
    'RefTableEntry::get_value': 'refcount block offset stored in the refcount table',
    'L2Entry::cluster_offset': 'host cluster offset of a standard cluster',
    'Qcow2Header::reftable_offset': 'validated by from_buf',
    'Qcow2Header::l1_table_offset': 'validated by from_buf',
}
BS_SOURCES = {
    'Table::get_offset': 'every set_offset argument is a block multiple (C16.4)',
    'Table::byte_size': 'every table buffer is created with a block multiple (C16.4)',
}
# byte-granular host offsets live in Mapping.cluster_offset only for compressed clusters
MAPPING_EXCEPT = ('do_read_compressed',)


def run(ctx, rep):
    f = ctx.lib
    rep.explanation = (
        'C16: offset, length and buffer of every backend request are decided by an alignment analysis (multiples of '
        '2^shift with symbolic block/slice/cluster shifts, on top of the interval engine), modular over the async call '
        'graph: what a request needs from a function parameter becomes a precondition checked at every call site, up to '
        'the validated public API.')
    rep.rule('C16.1', 'request offset is a multiple of the block size')
    rep.rule('C16.2', 'request length is a multiple of the block size')
    rep.rule('C16.3', 'request buffer is a Qcow2IoBuf/table buffer or the caller\'s buffer, at a block multiple')
    rep.rule('C16.4', 'table buffer sizes and recorded table offsets are block multiples')
    A = Analysis(f, rep)
    A.run()


class Analysis:
    def __init__(self, f, rep):
        self.f = f
        self.rep = rep
        self.reqs = {}
        for k, v in BASE_REQS.items():
            self.reqs[k] = list(v)
        for k, v in SYNC_SINKS.items():
            self.reqs[k] = list(v)
        self.pre = {}             # fn path -> set of (idx, kind)
        self.results = {}         # (body path) -> list of site results
        self.n_runs = 0

    # -------------------------------------------------------------- one body under assumptions
    def params_of(self, b):
        """-> [(index, value vn, kind candidates)] of the parameters of the function this body implements"""
        f = self.f
        out = []
        if b.is_coroutine:
            ty = f.types[b.locals[1]]
            ups = ty.get('u') or []
            for k, tid in enumerate(ups):
                out.append((k, tid))
        else:
            for i in range(b.argc):
                out.append((i, b.locals[i + 1]))
        return out

    def param_vn(self, ai, b, idx, tid):
        return ('u', ('param', b.path, idx), ai.tname(tid))

    def cand_kinds(self, tid):
        f = self.f
        t = f.types[tid]
        if t['k'] == 'prim' and t['p'] in ('u64', 'usize', 'u32'):
            return ['mult']
        if t['k'] == 'ref':
            tt = f.types[t['t']]
            if tt['k'] == 'slice' or (tt['k'] == 'adt' and tt['p'] == 'helpers::Qcow2IoBuf'):
                return ['ptr', 'blen']
        return []

    def analyze(self, b, assumed):
        """assumed: set of (idx, kind).  -> list of (bi, callee, idx, kind, ok, detail)"""
        f = self.f
        nosrc = tuple(CL_SOURCES) + tuple(BS_SOURCES)
        ai = AlignInt(f, inline=lambda path: not any(path.endswith(x) for x in nosrc))
        ai.mapping_except = MAPPING_EXCEPT
        ai.sync_sinks = tuple(SYNC_SINKS)
        ai.al_sources.append(self.source)
        self.cur_body = b
        params = self.params_of(b)

        def setup(ai_, st, frame, b_):
            st.le.update(ai_.base_state().le)
            for idx, tid in params:
                v = self.param_vn(ai_, b, idx, tid)
                if b.is_coroutine:
                    st.env[(('L', frame, 1), (('f', idx),))] = v
                else:
                    st.env[(('L', frame, idx + 1), ())] = v
                for (i2, kind) in assumed:
                    if i2 != idx:
                        continue
                    if kind == 'mult':
                        ai_.add_al(st, v, BS)
                    elif kind == 'ptr':
                        st.le.add(('al', ('ptr', v), BS))
                    elif kind == 'blen':
                        ai_.add_al(st, ai_.len_of(v), BS)
        self.n_runs += 1
        ai.analyze(b.path, setup)
        out = []
        seen = {}
        for rec in ai.trait_calls + ai.async_calls:
            (bpath, bi, fn, name, args, st, frame, t) = rec
            key = fn
            rq = self.reqs.get(key)
            if rq is None:
                continue
            for (idx, kind) in rq:
                if idx >= len(args):
                    continue
                ok, detail = self.check(ai, st, args[idx], kind)
                k2 = (bpath, bi, fn, idx, kind, frame)
                seen[k2] = (bpath, bi, fn, idx, kind, ok, detail)
        # the last visit of a call site (per inlining context) is the one with the final state;
        # a site holds if it holds in every context
        agg = {}
        for (bp, bi2, fn, idx, kind, frame), r in seen.items():
            k3 = (bp, bi2, fn, idx, kind)
            if k3 not in agg or not r[5]:
                agg[k3] = r
        return list(agg.values())

    def check(self, ai, st, v, kind):
        if kind == 'mult':
            ok = ai.is_mult(st, v, BS)
            return ok, '' if ok else 'value %s is not provably a multiple of the block size' % ai.show(st, v)
        if kind == 'optmult':
            if v[0] == 'opt':
                c = ai.itvof(st, v[3])
                if c == (0, 0):
                    return True, ''
                ok = ai.is_mult(st, v[2], BS)
                return ok, '' if ok else 'offset %s is not provably a multiple of the block size' % ai.show(st, v[2])
            return False, 'offset of unknown shape'
        if kind == 'ptr':
            k = ai.ptr_kind(st, v)
            return k[0] == 'ok', k[1]
        if kind == 'blen':
            ln = ai.len_of(v)
            ok = ai.is_mult(st, ln, BS)
            return ok, '' if ok else 'buffer length %s is not provably a multiple of the block size' % ai.show(st, ln)
        return False, kind

    def source(self, ai, st, v, t):
        """assumption table: values that are cluster / block multiples by construction"""
        if v[0] != 'u' or not isinstance(v[1], tuple) or not v[1]:
            if v[0] == 'opt':
                return False
            return False
        k = v[1]
        # walk to the root unknown
        leaf_ty = v[2] if len(v) > 2 else None
        while k[0] == 'proj' and isinstance(k[1], tuple) and k[1] and k[1][0] == 'u':
            k = k[1][1]
        if k[0] == 'await':
            fut = k[1]
            if fut[0] == 'u' and isinstance(fut[1], tuple) and fut[1] and fut[1][0] == 'call':
                fk = fut[1]
                bb = self.f.body(fk[2])
                fn = (bb.blocks[fk[3]]['term'].get('fn') or '') if bb is not None else ''
                if (fn.endswith('allocate_cluster') or fn.endswith('allocate_clusters')) and leaf_ty == 'u64':
                    self.rep.assume('the allocator hands out cluster addresses (first component of its result)')
                    return ai.prove_le(st, t, CL)
            return False
        if k[0] in ('call', 'ret') and len(k) >= 4:
            # result of a call in body k[2] at block k[3]
            b = self.f.body(k[2])
            if b is not None:
                tm = b.blocks[k[3]]['term']
                fn = tm.get('fn') or ''
                for suf, why in CL_SOURCES.items():
                    if fn.endswith(suf):
                        self.rep.assume('%s yields a cluster-aligned host offset (%s; image validity)' % (suf, why))
                        return ai.prove_le(st, t, CL)
                for suf, why in BS_SOURCES.items():
                    if fn.endswith(suf):
                        return ai.prove_le(st, t, BS)
                if fn.endswith('allocate_cluster') or fn.endswith('allocate_clusters'):
                    self.rep.assume('the allocator hands out cluster addresses')
                    return ai.prove_le(st, t, CL)
        if k[0] == 'bytesize':
            return ai.prove_le(st, t, BS)
        if k[0] == 'proj':
            # a field of something: Mapping.cluster_offset
            base, rest = k[1], k[2]
            return self.field_source(ai, st, base, rest, t)
        if k[0] == 'init':
            cell = k[1]
            return self.cell_source(ai, st, cell, t)
        return False

    def field_source(self, ai, st, base, rest, t):
        return False

    def cell_source(self, ai, st, cell, t):
        return False

    # -------------------------------------------------------------- fixpoint over the call graph
    def run(self):
        f, rep = self.f, self.rep
        bodies = [b for b in f.body_list if '::tests::' not in b.path and not b.path.startswith('utils::')]
        changed = True
        rounds = 0
        final = {}
        called_sync = set()
        for b in bodies:
            for _bi, t in b.calls():
                fn = t.get('fn') or ''
                cb = f.body(fn)
                if cb is not None and not cb.is_coroutine and not f.coroutines_of(fn):
                    called_sync.add(fn)
        while changed and rounds < 8:
            changed = False
            rounds += 1
            for b in bodies:
                callees = {t.get('fn') for _bi, t in b.calls()}
                if not any(c in self.reqs for c in callees):
                    continue
                if not b.is_coroutine and (b.path in called_sync or b.path.startswith('meta::')):
                    # synchronous helpers are analysed in the context of their callers (inlined);
                    # meta::header::format_* builds an image in memory with its own parameters
                    continue
                fnpath = b.parent if b.is_coroutine and b.parent else b.path
                sig = (frozenset((c, tuple(self.reqs[c])) for c in callees if c in self.reqs))
                if final.get(b.path, (None,))[0] == sig:
                    continue
                res0 = self.analyze(b, set())
                fails0 = [r for r in res0 if not r[5]]
                need = set()
                hard = []
                if fails0:
                    cands = set()
                    for idx, tid in self.params_of(b):
                        for kd in self.cand_kinds(tid):
                            cands.add((idx, kd))
                    res1 = self.analyze(b, cands) if cands else res0
                    hard = [r for r in res1 if not r[5]]
                    okkeys = {(r[1], r[2], r[3], r[4]) for r in res1 if r[5]}
                    # which assumptions are needed
                    for a in sorted(cands):
                        res2 = self.analyze(b, cands - {a})
                        ok2 = {(r[1], r[2], r[3], r[4]) for r in res2 if r[5]}
                        if okkeys - ok2:
                            need.add(a)
                    final[b.path] = (sig, res1, hard, need)
                else:
                    final[b.path] = (sig, res0, [], set())
                old = self.pre.get(fnpath, set())
                if need - old:
                    self.pre[fnpath] = old | need
                    self.reqs[fnpath] = sorted(self.pre[fnpath])
                    changed = True
        self.report(final)

    def report(self, final):
        f, rep = self.f, self.rep
        RULE = {'mult': None, 'optmult': 'C16.4', 'ptr': 'C16.3', 'blen': 'C16.2'}
        n_sites = 0
        n_backend = 0
        for bpath, (sig, res, hard, need) in sorted(final.items()):
            b = f.body(bpath)
            for (bp, bi, fn, idx, kind, ok, detail) in sorted(res, key=lambda r: (r[1], r[3], r[4])):
                bb = f.body(bp)
                n_sites += 1
                if fn.startswith(TRAIT):
                    n_backend += 1
                if fn in SYNC_SINKS:
                    rule = 'C16.4'
                elif kind == 'mult':
                    rule = 'C16.1' if idx == 1 and not fn.endswith('fallocate') or (fn.endswith('fallocate') and idx == 1) else 'C16.2'
                    if fn not in BASE_REQS:
                        # a forwarded requirement: name it after what the callee needs it for
                        rule = 'C16.1'
                else:
                    rule = RULE[kind]
                site = '%s -> %s arg %d (%s) at %s' % (short(bp), short(fn), idx, kind, bb.where(bi))
                rep.ob(rule, site, ok, detail if detail else 'proved')
                if not ok:
                    rep.violation(rule, '%s:%s->%s:%d:%s' % (rule, short(bp), short(fn), idx, kind), bb.where(bi),
                                  '%s passes %s to %s (argument %d): %s' % (
                                      short(bp), {'mult': 'an offset/length', 'optmult': 'a table offset', 'ptr': 'a buffer',
                                                  'blen': 'a buffer whose length'}[kind], short(fn), idx, detail))
        # residual preconditions of public entry points
        for fnpath, need in sorted(self.pre.items()):
            info = f.fns.get(fnpath)
            callers = [b for b in f.body_list if any(t.get('fn') == fnpath for _bi, t in b.calls()) and '::tests::' not in b.path
                       and not b.path.startswith('utils::')]
            if callers:
                continue
            for (idx, kind) in sorted(need):
                ok = kind == 'ptr'
                rep.ob('C16.3' if kind == 'ptr' else 'C16.1', 'entry point %s parameter %d (%s)' % (short(fnpath), idx, kind), ok,
                       "the caller's buffer address (aligned by hypothesis)" if ok else 'reaches a backend request without validation')
                if not ok:
                    rep.violation('C16.1', 'C16.1:entry:%s:%d:%s' % (short(fnpath), idx, kind), '',
                                  'parameter %d of the entry point %s reaches a backend request (%s) without being validated '
                                  'against the block size' % (idx, short(fnpath), kind))
        rep.count('analysis runs', self.n_runs)
        rep.count('functions with alignment preconditions', len(self.pre))
        rep.floor('request/precondition sites examined', n_sites, 30)
        rep.floor('backend request arguments examined', n_backend, 8)

"""C03 — the flushed image is a valid qcow2 file with exact refcounts.

Decided (DESIGN C03):
  C03.1  COPIED on install: the value stored by L2Table::map_cluster and by
         L1Table::map_l2_offset has bit 63 set (bit provenance)
  C03.2  the allocation displaced by map_cluster (its #[must_use] result) reaches
         free_clusters or is matched None: it is not dropped
  C03.3  every release is tied to the reference it removes: the cluster and count
         handed to free_clusters derive from the old entry's allocation() /
         compressed_range(), from an allocation made in the same section, or from
         the old table being replaced; the count is not the constant 0
  plus the refcount-before-mapping and release ordering obligations shared with
  C04 (O3r, O4) as far as they concern exactness after a successful flush.
Not decided: numeric equality of stored and counted references (value level).
"""
from ..bitsem import Evaluator, Undecided, C, S, T, Adt, sym, to_bits
from ..interp import Program, Interp, Domain, short, POLL_NAMES, tag_of_operand
from ..guard import Deps
from ..facts import AnalysisError
from .. import api

TARGETS = ('--lib',)
GOOD_SOURCES = ('L2Entry::allocation', 'L2Entry::cluster_offset', 'L2Entry::compressed_range', 'Table::get_offset', 'try_alloc_from_rb_slice',
                'alloc_and_map_cluster', 'allocate_cluster', 'allocate_clusters', 'cluster_count')


def run(ctx, rep):
    f = ctx.lib
    from . import span
    rep.rule('C03.4', 'the host-cluster span of a compressed extent is exactly the clusters it touches (allocation(), and releases computed in place)')
    span.allocation_rule(f, rep, 'C03.4')
    span.release_rule(f, rep, 'C03.4')
    P = Program(f)
    rep.explanation = (
        'C03 is decided in part: the COPIED flag on every installed mapping (bit provenance), the fate of displaced '
        'allocations, and the provenance of every release are decided on every path. Numeric equality of stored and '
        'counted references is not decided.')
    rep.rule('C03.1', 'bit 63 of the entry stored by map_cluster / map_l2_offset is the constant 1')
    rep.rule('C03.2', 'the Option returned by map_cluster (displaced allocation) is consumed, not dropped')
    rep.rule('C03.5', 'inside a loop the reftable entry handed to get_refblock is computed in the same iteration as the host cluster it belongs to')
    rep.rule('C03.3', 'free_clusters arguments derive from the removed reference (or a same-section allocation / replaced table); count is not constant 0')
    ev = Evaluator(f)
    h = S(['h%d' % i if i < 56 else '0' for i in range(64)])
    # ---------------------------------------------------------------- C03.1
    # map_l2_offset(self, index, l2_offset): look at the value handed to Table::set
    for (fn, what) in (('meta::l1::L1Table::map_l2_offset', 'L1 entry'), ('meta::l2::L2Table::map_cluster', 'L2 entry')):
        b = f.body(fn)
        if b is None:
            raise AnalysisError('%s not found' % fn)
        val = stored_value(f, ev, b, h)
        if val is None:
            rep.note_undecided('C03.1', fn, 'value handed to Table::set is outside the bit domain')
            rep.ob('C03.1', '%s (not decided)' % fn, True, '')
            continue
        bits = to_bits(val, 64)
        ok = bits[63] == '1'
        rep.ob('C03.1', 'COPIED flag of the %s installed by %s' % (what, short(fn)), ok, 'bit 63 = %s, bits 9..55 = %s..' % (bits[63], bits[9]))
        if not ok:
            rep.violation('C03.1', 'C03.1:%s' % short(fn), b.where(0),
                          '%s stores an entry whose COPIED flag (bit 63) is %s: allocated standard clusters must carry the '
                          'flag' % (short(fn), bits[63]))
        okoff = all(bits[i] == 'h%d' % i for i in range(9, 56))
        rep.ob('C03.1', 'host offset field of the %s installed by %s' % (what, short(fn)), okoff, 'bits 9..55 = argument bits')
        if not okoff:
            rep.violation('C03.1', 'C03.1:%s:offset' % short(fn), b.where(0), '%s does not store the host offset in bits 9..55' % short(fn))
    # ---------------------------------------------------------------- C03.2
    n = 0
    for b in f.body_list:
        if '::tests::' in b.path:
            continue
        for bi, t in b.calls():
            if not (t.get('fn') or '').endswith('L2Table::map_cluster'):
                continue
            n += 1
            dst = t['dst']['l']
            used = local_is_read(b, dst)
            rep.ob('C03.2', 'map_cluster result in %s at %s' % (short(b.path), b.where(bi)), used,
                   'the displaced allocation is %s' % ('inspected' if used else 'dropped (`let _ =`)'))
            if not used:
                rep.violation('C03.2', 'C03.2:%s' % short(b.path), b.where(bi),
                              '%s drops the allocation displaced by map_cluster: mapping over an entry that carries a host '
                              'cluster (a zero-flagged preallocation) leaks that cluster (refcount stays, no reference)' % short(b.path))
    rep.floor('map_cluster call sites', n, 2)
    # ---------------------------------------------------------------- C03.3
    n = 0
    for b in f.body_list:
        if '::tests::' in b.path or not b.is_coroutine:
            continue
        dp = None
        for bi, t in b.calls():
            if not (t.get('fn') or '').endswith('::free_clusters'):
                continue
            if dp is None:
                dp = Deps(P, b)
            n += 1
            d = dp.of_operand(t['args'][1], (bi, 10 ** 6)) | dp.of_operand(t['args'][2], (bi, 10 ** 6))
            srcs = sorted({x[1] for x in d if x[0] == 'fn' and any(x[1].endswith(g) for g in GOOD_SOURCES)})
            ok = bool(srcs)
            if not ok and any(x[0] == 'in' for x in d):
                # the address is handed in by the caller (a helper): decided at the call sites of the helper
                me = b.path.rsplit('::{closure', 1)[0]
                sites = []
                for cb in f.body_list:
                    if '::tests::' in cb.path:
                        continue
                    cdp = None
                    for cbi, ct in cb.calls():
                        if ct.get('fn') != me:
                            continue
                        cdp = cdp or Deps(P, cb)
                        cd = set()
                        for a in ct['args']:
                            cd |= cdp.of_operand(a, (cbi, 10 ** 6))
                        sites.append(sorted({x[1] for x in cd if x[0] == 'fn' and any(x[1].endswith(g) for g in GOOD_SOURCES)}))
                if sites and all(sites):
                    ok = True
                    srcs = sorted({y for x in sites for y in x})
            rep.ob('C03.3', 'release in %s at %s' % (short(b.path), b.where(bi)), ok,
                   'cluster/count derive from %s' % [s.split('::')[-1] for s in srcs])
            if not ok:
                rep.violation('C03.3', 'C03.3:%s:source' % short(b.path), b.where(bi),
                              '%s releases clusters whose address does not derive from the reference being removed' % short(b.path))
    rep.floor('free_clusters call sites', n, 6)
    stale_entry_rule(f, P, rep)
    abandoned_run_rule(f, P, rep, 'C03.9')
    release_once_rule(f, P, rep, 'C03.10')
    # C03.6: a mapping is installed / removed on a decision read under the same slice write guard
    from ..critsec import check_then_act
    rep.rule('C03.6', 'mappings are installed and removed on a decision read through the slice write guard the mutation happens under '
                      '(two racing writers do not both allocate for one guest cluster; two racing discards do not both release)')
    ncta = 0
    for (fn, where, mname, ok, why) in check_then_act(f, P):
        ncta += 1
        rep.ob('C03.6', '%s: %s at %s' % (fn, mname, where), ok, why)
        if not ok:
            rep.violation('C03.6', 'C03.6:%s:%s' % (fn, mname), where,
                          '%s applies %s through a slice write guard without deciding it on a value read through that guard: of two '
                          'racing operations on one guest cluster the second overwrites the entry of the first, whose host cluster '
                          'keeps its refcount with no reference (leak), or both release the same cluster (%s)' % (fn, mname, why))
    rep.floor('mutations through slice write guards', ncta, 6)
    from . import rollback
    rollback.report(f, P, rep, 'C03.7', ('release',))
    zc = zero_count_releases(f, P)
    for (fn, where, ok) in zc:
        rep.ob('C03.3', 'release count in %s at %s' % (fn, where), ok, 'count is not the constant 0 on any path')
        if not ok:
            rep.violation('C03.3', 'C03.3:%s:zero-count' % fn, where,
                          '%s calls free_clusters with a count that is the constant 0 on some path: the clusters taken '
                          'before are never released (leak)' % fn)


def stored_value(f, ev, b, h):
    """The entry handed to Table::set by a small installer function, with the
    host offset argument symbolic (56-bit: host offsets fit the entry field)."""
    from ..bitsem import Captured
    if short(b.path) == 'map_l2_offset':
        ev.capture = 'set'
        ev.steps = 0
        try:
            ev.call(b.path, [T, C(64, 0), h])
        except Captured as c:
            v = c.args_[2] if len(c.args_) > 2 else None
            return v if isinstance(v, (C, S)) else None
        except Undecided:
            return None
        finally:
            ev.capture = None
        return None
    # map_cluster: L2Entry::from_mapping(Mapping{DataFile, Some(host), None, copied}, bits)
    fl = [x['n'] for x in f.adts['meta::l2::Mapping']['variants'][0]['fields']]
    if fl != ['source', 'cluster_offset', 'compressed_length', 'copied']:
        raise AnalysisError('Mapping layout changed: %s' % fl)
    copied = None
    src = None
    for bl in b.blocks:
        for s in bl['st']:
            if s['k'] == 'assign' and s['rv']['k'] == 'agg' and s['rv'].get('p') == 'meta::l2::Mapping':
                ops = s['rv']['ops']
                if ops[3]['k'] == 'const':
                    copied = ops[3].get('v') == '1'
            if s['k'] == 'assign' and s['rv']['k'] == 'agg' and s['rv'].get('p') == 'meta::l2::MappingSource':
                src = (s['rv']['v'], s['rv'].get('vn'))
    if copied is None or src is None:
        return None
    m = Adt('meta::l2::Mapping', 0, [Adt('meta::l2::MappingSource', src[0], [], src[1]),
                                      Adt('std::option::Option', 1, [h], 'Some'),
                                      Adt('std::option::Option', 0, [], 'None'), C(1, 1 if copied else 0)])
    try:
        ev.steps = 0
        return ev.call('meta::l2::L2Entry::from_mapping', [m, C(32, 16)])
    except Undecided:
        return None


def _const_temp(b, l):
    for bl in b.blocks:
        for s in bl['st']:
            if s['k'] == 'assign' and s['pl']['l'] == l and not s['pl']['p'] and s['rv']['k'] == 'bin' and s['rv']['op'] == 'Shl':
                a, c = s['rv']['ops']
                if a['k'] == 'const' and c['k'] == 'const':
                    return C(64, int(a['v']) << int(c['v']))
    return None


def local_is_read(b, l):
    """Is the local (or a local it is moved into) read by anything but drops?"""
    seen = set()
    work = [l]
    while work:
        x = work.pop()
        if x in seen:
            continue
        seen.add(x)
        for bl in b.blocks:
            if bl['cleanup']:
                continue
            for s in bl['st']:
                if s['k'] != 'assign':
                    continue
                rv = s['rv']
                if rv['k'] in ('ref', 'discr') and rv['pl']['l'] == x:
                    return True
                for o in rv.get('ops', []):
                    if o['k'] in ('copy', 'move') and o['pl']['l'] == x:
                        if rv['k'] == 'use' and not o['pl']['p']:
                            work.append(s['pl']['l'])
                        else:
                            return True
            t = bl['term']
            if t['k'] == 'call':
                for a in t['args']:
                    if a['k'] in ('copy', 'move') and a['pl']['l'] == x:
                        return True
            if t['k'] == 'switch' and t['d']['k'] in ('copy', 'move') and t['d']['pl']['l'] == x:
                return True
    return False


class ZeroCount(Domain):
    """Path-sensitive: is the count argument of a free_clusters creation the
    constant 0 (interpreter tags)?"""
    merge = False

    def __init__(self):
        self.sites = {}

    def initial(self):
        return frozenset()

    def intercept(self, ip, fr, tok, tags, bi, term, callee):
        cb = ip.f.body(callee)
        if cb is not None and cb.is_async_fn:
            return None
        return [(tok, None)]

    def on_create(self, ip, fr, tok, tags, bi, term, fn):
        if fn.endswith('::free_clusters') and len(term['args']) > 2:
            tg = tag_of_operand(term['args'][2], tags)
            k = (short(fr.body.path), fr.where(bi))
            self.sites[k] = self.sites.get(k, True) and tg != 'int:0'
        return tok


def zero_count_releases(f, P):
    out = []
    for b in f.body_list:
        if not b.is_coroutine or '::tests::' in b.path:
            continue
        if not any((t.get('fn') or '').endswith('::free_clusters') for _bi, t in b.calls()):
            continue
        d = ZeroCount()
        ip = Interp(P, d)
        ip.one_fut = lambda fr, bi, tok, tags, t, fu: [(tok, None)]
        ip.run(b)
        for (fn, where), ok in sorted(d.sites.items()):
            out.append((fn, where, ok))
    return out


def stale_entry_rule(f, P, rep):
    """get_refblock(cls, entry): when the host cluster changes per loop iteration, the reftable entry must be
    looked up per iteration too (an entry of an earlier cluster loads the wrong refcount block for clusters
    behind a refcount-block boundary)"""
    n = 0
    for b in f.body_list:
        if '::tests::' in b.path or not b.is_coroutine:
            continue
        for bi, t in b.calls():
            if not (t.get('fn') or '').endswith('::get_refblock') or len(t['args']) < 3:
                continue
            n += 1
            loop = {x for x in b.reachable(bi) if bi in b.reachable(x)}
            if not loop:
                rep.ob('C03.5', 'get_refblock in %s at %s' % (short(b.path), b.where(bi)), True, 'not in a loop')
                continue

            def def_blocks(o, depth=0, seen=None):
                seen = seen if seen is not None else set()
                out = set()
                if o['k'] not in ('copy', 'move') or depth > 6:
                    return out
                l = o['pl']['l']
                if l in seen:
                    return out
                seen.add(l)
                for d in P.defs(b).get(l, []):
                    if d[0] == 'st':
                        rv = b.blocks[d[1]]['st'][d[2]]['rv']
                        if rv['k'] in ('ref', 'rawptr'):
                            out |= def_blocks({'k': 'copy', 'pl': {'l': rv['pl']['l'], 'p': []}}, depth + 1, seen)
                        elif rv['k'] == 'use' and rv['ops'][0]['k'] in ('copy', 'move'):
                            out |= def_blocks(rv['ops'][0], depth + 1, seen)
                        else:
                            out.add(d[1])        # where the value itself is made
                    else:
                        out.add(d[1])
                return out
            dc = def_blocks(t['args'][1])
            de = def_blocks(t['args'][2])
            if 1 <= (t['args'][1].get('pl', {}).get('l', 0)) <= b.argc or not dc or not de:
                rep.ob('C03.5', 'get_refblock in %s at %s' % (short(b.path), b.where(bi)), True, 'operands come from the caller')
                continue
            cls_in = bool(dc & loop)
            ent_in = bool(de & loop)
            ok = not cls_in or ent_in
            rep.ob('C03.5', 'get_refblock in %s at %s' % (short(b.path), b.where(bi)), ok,
                   'cluster and entry are computed in the same iteration' if ok else 'the cluster changes per iteration, the entry is computed before the loop')
            if not ok:
                rep.violation('C03.5', 'C03.5:%s' % short(b.path), b.where(bi),
                              '%s looks the reftable entry up once before its loop and uses it for every host cluster of the '
                              'range: behind a refcount-block boundary the wrong refcount block is loaded and modified, the '
                              'cluster that should be released keeps its refcount' % short(b.path))
    rep.floor('get_refblock call sites', n, 3)


def abandoned_run_rule(f, P, rep, rid):
    """An allocator that collects a run piece by piece and gives it up (count := 0 after its initialisation, to start
    again elsewhere) has already incremented the refcounts of the pieces it holds: before the count is reset a release that
    depends on the run (start, count) must have been issued, otherwise those clusters keep refcount 1 with no reference."""
    from ..critsec import _through_copy
    from ..guard import Deps
    rep.rule(rid, 'where a run collected piece by piece is given up (its count is reset to 0 after the initialisation), a '
                  'free_clusters call that depends on the run dominates the reset: abandoned pieces are released, not leaked')
    n_sites = 0
    for b in f.body_list:
        if '::tests::' in b.path or not b.is_coroutine:
            continue
        defs = P.defs(b)
        pairs = set()
        for bi in b.reachable():
            for s in b.blocks[bi]['st']:
                if s['k'] == 'assign' and s['rv']['k'] == 'agg' and s['rv'].get('ak') == 'tuple' and len(s['rv']['ops']) == 2:
                    o0, o1 = s['rv']['ops']
                    if o0['k'] in ('copy', 'move') and o1['k'] in ('copy', 'move') and not o0['pl']['p'] and not o1['pl']['p']:
                        a, n = _through_copy(b, defs, o0['pl']['l']), _through_copy(b, defs, o1['pl']['l'])
                        if b.ty(a).get('p') == 'u64' and b.ty(n).get('p') == 'usize' and a in b.names and n in b.names:
                            pairs.add((a, n))
        if not pairs:
            continue
        dp = Deps(P, b)
        frees = [(bi, t) for bi, t in b.calls() if (t.get('fn') or '').endswith('::free_clusters')]
        for (a, n) in sorted(pairs):
            zero = sorted((d[1], d[2]) for d in defs.get(n, []) if d[0] == 'st' and
                          b.blocks[d[1]]['st'][d[2]]['rv']['k'] == 'use' and b.blocks[d[1]]['st'][d[2]]['rv']['ops'][0].get('v') == '0')
            grows = any(d[0] == 'st' and b.blocks[d[1]]['st'][d[2]]['rv']['k'] == 'use' and
                        b.blocks[d[1]]['st'][d[2]]['rv']['ops'][0]['k'] in ('copy', 'move') for d in defs.get(n, []))
            if len(zero) < 2 or not grows:
                continue
            for (zbi, zsi) in zero[1:]:
                n_sites += 1
                dom = []
                for fbi, ft in frees:
                    if not b.dominates(fbi, zbi):
                        continue
                    ls = set()
                    for arg in ft['args'][1:]:
                        if arg['k'] in ('copy', 'move'):
                            ls.add(_through_copy(b, defs, arg['pl']['l']))
                            for x in dp.of_operand(arg, (fbi, 10 ** 6)):
                                if x[0] == 'local':
                                    ls.add(x[1])
                    # the start or the count of the run reaches the release (directly or through a sum / shift)
                    if ls & {a, n} or _mentions_locals(b, defs, ft['args'][1:], {a, n}):
                        dom.append(fbi)
                ok = bool(dom)
                fn = short(b.path)
                # the piece obtained last: allocated like the others, not (yet) part of the run when the run is given up
                for pl_, inc_bi in _pieces(b, defs, n):
                    pdefs = [d for d in defs.get(pl_, [])]
                    obtained = any(b.dominates(d[1], zbi) for d in pdefs)
                    if not obtained or b.dominates(inc_bi, zbi):
                        continue
                    pdom = [fbi for fbi, ft in frees if b.dominates(fbi, zbi) and _mentions_locals(b, defs, ft['args'][1:], {pl_}, stop={a, n})]
                    rep.ob(rid, '%s: piece %s in hand when the run is given up at %s' % (fn, b.lname(pl_), b.where(zbi)), bool(pdom),
                           'released at %s' % b.where(pdom[0]) if pdom else 'not released')
                    if not pdom:
                        rep.violation(rid, '%s:%s:piece' % (rid, fn), b.where(zbi),
                                      '%s gives up its run at %s while it holds a further piece (%s) that was allocated but not added to the '
                                      'run, and does not release that piece: its clusters keep refcount 1 with no reference (leak)' % (
                                          fn, b.where(zbi), b.lname(pl_)))
                rep.ob(rid, '%s: run (%s, %s) given up at %s' % (fn, b.lname(a), b.lname(n), b.where(zbi)), ok,
                       'release of the run at %s dominates the reset' % b.where(dom[0]) if ok else 'no release of the run dominates the reset')
                if not ok:
                    rep.violation(rid, '%s:%s' % (rid, fn), b.where(zbi),
                                  '%s gives up the run (%s, %s) it has collected (count reset at %s) without releasing the pieces it already '
                                  'took: their refcounts were incremented by the allocation, nothing references them - leaked clusters in '
                                  'every later flushed image' % (fn, b.lname(a), b.lname(n), b.where(zbi)))
    rep.floor('run restarts in piecewise allocators', n_sites, 1)


def _mentions_locals(b, defs, args, want, depth=4, stop=()):
    """do the argument operands derive (through copies, casts and arithmetic, a few steps) from one of the locals `want`"""
    seen = set()
    work = [a['pl']['l'] for a in args if a['k'] in ('copy', 'move')]
    for _ in range(depth * 8):
        if not work:
            break
        l = work.pop()
        if l in seen:
            continue
        seen.add(l)
        if l in want:
            return True
        if l in stop:
            continue
        for d in defs.get(l, []):
            if d[0] != 'st':
                continue
            rv = b.blocks[d[1]]['st'][d[2]]['rv']
            for o in rv.get('ops', []):
                if o['k'] in ('copy', 'move'):
                    work.append(o['pl']['l'])
    return False


def release_once_rule(f, P, rep, rid):
    """The allocation an L2 entry held before it is replaced is released exactly once.  An installer that passes the
    displaced allocation (map_cluster's result) on to free_clusters has released it; a caller that awaits such an installer
    and then releases the old entry's allocation() itself decrements the same clusters a second time: a host cluster
    shared by two compressed guest clusters drops to refcount 0 while the other one still references it."""
    from ..guard import Deps
    rep.rule(rid, 'a function that awaits an installer which already releases the displaced allocation (map_cluster result -> '
                  'free_clusters) does not release the allocation() of the old entry again on a path that follows the installer')
    releasers = set()
    n_maps = 0
    bodies = [b for b in f.body_list if '::tests::' not in b.path and b.path.startswith('dev::')]
    for b in bodies:
        calls = list(b.calls())
        n_maps += sum(1 for _bi, t in calls if (t.get('fn') or '').endswith('::map_cluster'))
        frees = [(bi, t) for bi, t in calls if (t.get('fn') or '').endswith('::free_clusters')]
        if not frees or not any((t.get('fn') or '').endswith('::map_cluster') for _bi, t in calls):
            continue
        dp = Deps(P, b)
        for bi, t in frees:
            d = set()
            for a in t['args'][1:]:
                d |= dp.of_operand(a, (bi, 10 ** 6))
            if any(x[0] == 'fn' and x[1].endswith('::map_cluster') for x in d):
                releasers.add(b.path.rsplit('::{closure', 1)[0])
    rep.floor('map_cluster call sites', n_maps, 2)
    rep.count('installers that release the displaced allocation themselves', len(releasers))
    for b in bodies:
        calls = list(b.calls())
        inst = [(bi, t) for bi, t in calls if (t.get('fn') or '') in releasers]
        frees = [(bi, t) for bi, t in calls if (t.get('fn') or '').endswith('::free_clusters')]
        if not inst or not frees:
            continue
        dp = Deps(P, b)
        succ = b.succ()
        for ibi, it in inst:
            seen, st = set(), list(succ[ibi])
            while st:
                x = st.pop()
                if x not in seen:
                    seen.add(x)
                    st.extend(succ[x])
            for fbi, ft in frees:
                if fbi not in seen:
                    continue
                d = set()
                for a in ft['args'][1:]:
                    d |= dp.of_operand(a, (fbi, 10 ** 6))
                old = any(x[0] == 'fn' and x[1].endswith(('L2Entry::allocation', 'L2Entry::cluster_offset', 'L2Entry::compressed_range'))
                          for x in d)
                me = short(b.path)
                rep.ob(rid, '%s: release at %s after awaiting %s' % (me, b.where(fbi), short(it['fn'])), not old,
                       'releases the old entry\'s allocation again' if old else 'releases something else')
                if old:
                    rep.violation(rid, '%s:%s' % (rid, me), b.where(fbi),
                                  '%s releases the allocation of the entry it replaced (at %s) although the installer %s it awaited before '
                                  'already hands the displaced allocation to free_clusters: the same host clusters are decremented twice - '
                                  'a cluster shared by two compressed guest clusters reaches refcount 0 while still referenced' % (
                                      me, b.where(fbi), short(it['fn'])))


def _pieces(b, defs, n):
    """(tuple-typed local, block of the increment) for every `n = n + piece.len` increment of the run count"""
    out = set()
    for d in defs.get(n, []):
        if d[0] != 'st':
            continue
        rv = b.blocks[d[1]]['st'][d[2]]['rv']
        if rv['k'] != 'use' or rv['ops'][0]['k'] not in ('copy', 'move'):
            continue
        src = rv['ops'][0]['pl']['l']
        for d2 in defs.get(src, []):
            if d2[0] != 'st':
                continue
            rv2 = b.blocks[d2[1]]['st'][d2[2]]['rv']
            if rv2['k'] != 'bin' or not rv2.get('op', '').startswith('Add'):
                continue
            # backward from the added operand to a tuple-typed local
            work = [o['pl'] for o in rv2['ops'] if o['k'] in ('copy', 'move')]
            seen = set()
            for _ in range(24):
                if not work:
                    break
                pl = work.pop()
                l = pl['l']
                if l in seen or l == n:
                    continue
                seen.add(l)
                if b.ty(l).get('k') == 'tuple' and l in b.names:
                    out.add((l, d[1]))
                    continue
                for d3 in defs.get(l, []):
                    if d3[0] == 'st':
                        rv3 = b.blocks[d3[1]]['st'][d3[2]]['rv']
                        work.extend(o['pl'] for o in rv3.get('ops', []) if o['k'] in ('copy', 'move'))
    return sorted(out)

"""C09 — qcow2 specification conformance: reads foreign images, formats valid ones.

Decided (engine F = interval abstract interpretation, and the layout rule of C15):
  C09.1  version 2 headers: on every Ok path of the parser with version = 2 the fields
         that do not exist in a version 2 header have their specified defaults
         (refcount_order 4, header_length 72, no feature bits, compression 0), and such
         a path exists
  C09.2  raw header field sequence = specification table; fixed-width big-endian codec
  C09.3  the device constructor is panic-free for every header of the accept set with
         default and custom parameters (13 cluster sizes x 7 refcount widths)
  C09.4  derived geometry = specification formulas, as constants per (cluster_bits,
         refcount_order): cluster mask, L2 entries/index shift, refcount-block
         entries/index shift; slice geometry consistent with the chosen slice size
Not decided: agreement of get_mapping/read_at with an independent implementation,
validity of formatted images (value level); the compressed descriptor split is C15.2.
"""
from ..absint import AbsInt, fmt_itv, short_vn
from ..facts import AnalysisError
from ..interp import short
from . import c14, c15

TARGETS = ('--lib',)


def run(ctx, rep):
    f = ctx.lib
    rep.explanation = (
        'C09 is decided in part: version-2 defaults, header layout, panic freedom of the device constructor over the '
        'whole accept set and the derived geometry (constant propagation per cluster size x refcount width) are decided '
        'by abstract interpretation of the parser and the constructor; agreement of reads with an independent '
        'implementation and validity of formatted images are not decided.')
    rep.rule('C09.1', 'version 2: refcount_order 4, header_length 72, no feature bits, compression 0 at every Ok exit; an Ok exit exists')
    rep.rule('C09.2', 'raw header field sequence = specification; serialiser fixed-width big-endian')
    rep.rule('C09.3', 'every panic site of the device constructor is discharged for every accepted header')
    rep.rule('C09.5', 'the block-aligned bounce read of a compressed cluster covers the compressed bytes (slice pad..pad+len lies inside the buffer that was read)')
    rep.rule('C09.4', 'Qcow2Info fields equal the specification formulas for each (cluster_bits, refcount_order)')
    v2_rule(f, rep)
    c15.header_layout_rule(f, rep, 'C09.2')
    c14.ctor_rules(f, rep, 'C09.3')
    geometry_rule(f, rep)
    compressed_read_rule(f, rep)
    classification_rule(f, rep, 'C09.6')
    read_predicate_rule(f, rep, 'C09.12')
    from . import c20
    c20.format_rounding_rule(f, rep, 'C09.7')
    c15.ext_cursor_rule(f, rep, 'C09.8')
    tail_field_rule(f, rep, 'C09.9')
    c20.l1_count_rule(f, rep, 'C09.10', 'C09.11')


MIN_V3_HEADER = 104


def tail_field_rule(f, rep, rid):
    """A version 3 header may be 104 bytes long (what qemu 1.1 - 5.0 wrote); the bytes behind it belong to the first header
    extension.  The raw header is deserialised as a fixed-size struct, so its fields at byte offset >= 104 hold extension
    bytes for such an image.  Rule: in the parser no branch that leaves with an error may depend on such a field unless a
    test of header_length dominates it.  (For version 2 the fields behind byte 72 are reset before any use: C09.1.)"""
    from ..interp import Program
    from ..guard import Deps
    from .c14 import FROM_BUF
    rep.rule(rid, 'no rejecting branch of the header parser depends on a raw header field at byte offset >= 104 without a dominating '
                  'test of header_length (a 104-byte version 3 header is valid; those bytes are extension data)')
    raw = f.adts.get('meta::header::Qcow2RawHeader')
    if raw is None:
        raise AnalysisError('Qcow2RawHeader not found')
    off = 0
    tail = []
    for fl in raw['variants'][0]['fields']:
        w = {'u8': 1, 'u16': 2, 'u32': 4, 'u64': 8}.get(f.types[fl['t']].get('p'))
        if w is None:
            raise AnalysisError('Qcow2RawHeader field %s has an unexpected type' % fl['n'])
        if off >= MIN_V3_HEADER:
            tail.append(fl['n'])
        off += w
    rep.floor('raw header fields behind the minimal version 3 header', len(tail), 1)
    b = f.body(FROM_BUF)
    if b is None:
        raise AnalysisError('from_buf not found')
    P = Program(f)
    dp = Deps(P, b)
    succ = b.succ()
    reach = {}

    def region(s):
        if s not in reach:
            r, st = set(), [s]
            while st:
                x = st.pop()
                if x not in r:
                    r.add(x)
                    st.extend(succ[x])
            reach[s] = r
        return reach[s]
    sw = [(bi, b.blocks[bi]['term']) for bi in sorted(b.reachable()) if b.blocks[bi]['term']['k'] == 'switch']
    deps = {bi: dp.of_operand(t['d'], (bi, 10 ** 6)) for bi, t in sw}
    n = 0
    for bi, t in sw:
        used = sorted(x[1] for x in deps[bi] if x[0] == 'field' and x[1] in tail)
        if not used:
            continue
        # a rejecting branch: one successor's region is small and private (the error return), the others go on
        regs = [region(s_) for s_ in succ[bi]]
        rej = [r for i, r in enumerate(regs) if len(r) <= 25 and all(len(o) > len(r) for j, o in enumerate(regs) if j != i)]
        if not rej:
            continue
        n += 1
        guard = [g for g, _t in sw if g != bi and b.dominates(g, bi) and ('field', 'header_length') in deps[g]]
        ok = bool(guard)
        rep.ob(rid, 'test of %s at %s' % ('/'.join(used), b.where(bi)), ok,
               'dominated by a test of header_length at %s' % b.where(guard[0]) if ok else 'no test of header_length dominates it')
        if not ok:
            rep.violation(rid, '%s:%s' % (rid, '+'.join(used)), b.where(bi),
                          'from_buf rejects (or accepts) an image depending on the raw field %s, which lies at byte offset >= %d, '
                          'without looking at header_length: for a valid version 3 image with a %d-byte header these bytes are the '
                          'start of the first header extension, so the image is refused or misread depending on extension data' % (
                              '/'.join(used), MIN_V3_HEADER, MIN_V3_HEADER))
    rep.ob(rid, 'rejecting tests on tail fields (%s)' % ', '.join(tail), True, '%d such test(s) in from_buf' % n)


def flag_bits(f, ev, pred):
    """the single-bit values of Qcow2Info.flags for which the predicate method is true (from the code itself)"""
    from ..bitsem import C as BC, Undecided
    info0 = c15.info_value(f, 16, 4, 12, 12)
    names = [x['n'] for x in f.adts['dev::info::Qcow2Info']['variants'][0]['fields']]
    fi = names.index('flags')
    w = info0.xs[fi].w
    out = []
    for k in range(w):
        info0.xs[fi] = BC(w, 1 << k)
        ev.steps = 0
        try:
            r = ev.call('dev::info::Qcow2Info::' + pred, [info0])
        except Undecided as e:
            raise AnalysisError('Qcow2Info::%s is not decided by the bit evaluator: %s' % (pred, e))
        if not isinstance(r, BC):
            raise AnalysisError('Qcow2Info::%s does not evaluate to a constant on a constant flag word' % pred)
        if r.v:
            out.append(k)
    return out, fi, w


def classification_rule(f, rep, rid):
    """L2Entry::into_mapping agrees with the cluster-descriptor table of the specification on every
    partition of a standard / compressed descriptor (flag bits concrete, the 47 offset bits symbolic)."""
    from ..bitsem import Evaluator, Undecided, C as BC, S as BS, T as BT, Adt
    rep.rule(rid, 'L2Entry::into_mapping classifies every spec-valid L2 entry as the specification says: bit 62 -> Compressed; '
                  'else bit 0 -> Zero (host offset kept iff non-zero); else offset 0 -> Unallocated / Backing; else DataFile with '
                  'the offset bits 9..55 unchanged and copied = bit 63')
    ev = Evaluator(f)
    INTO = 'meta::l2::L2Entry::into_mapping'
    if f.body(INTO) is None:
        raise AnalysisError('L2Entry::into_mapping not found')
    fl = [x['n'] for x in f.adts['meta::l2::Mapping']['variants'][0]['fields']]
    need = ('source', 'cluster_offset', 'copied')
    if any(n not in fl for n in need):
        raise AnalysisError('Mapping layout changed: %s' % fl)
    isrc, ioff, icop = fl.index('source'), fl.index('cluster_offset'), fl.index('copied')
    hb, fi, w = flag_bits(f, ev, 'has_back_file')
    if len(hb) != 1:
        raise AnalysisError('has_back_file is true for %d single flag bits' % len(hb))
    n = 0
    bad = {}
    und = {}
    for cb in (9, 12, 16, 21):
        for backing in (False, True):
            info = c15.info_value(f, cb, 4, min(12, cb), min(12, cb))
            info.xs[fi] = BC(w, (1 << hb[0]) if backing else 0)
            guest = Adt('meta::addr::SplitGuestOffset', 0, [BC(64, 5 << cb)])
            for comp in (0, 1):
                for zero in (0, 1):
                    for copied in (0, 1):
                        for nz in (None, cb, 30, 55):
                            if comp and nz is None:
                                continue
                            if not comp and not zero and nz is None and copied:
                                continue        # COPIED with offset 0: not a valid descriptor
                            bits = ['0'] * 64
                            bits[0] = str(zero)
                            bits[62] = str(comp)
                            bits[63] = str(copied)
                            if comp:
                                for i in range(0, 62):
                                    bits[i] = 'e%d' % i
                                bits[nz] = '1'
                            elif nz is not None:
                                for i in range(cb, 56):
                                    bits[i] = 'e%d' % i
                                bits[nz] = '1'
                            entry = Adt('meta::l2::L2Entry', 0, [BS(bits)])
                            part = 'cluster_bits %d backing %s: compressed=%d zero=%d copied=%d offset %s' % (
                                cb, backing, comp, zero, copied, 'zero' if nz is None else 'non-zero (bit %d set)' % nz)
                            if comp:
                                want = ('Compressed', None, None)
                            elif zero:
                                want = ('Zero', 'keep' if nz is not None else 'none', None)
                            elif nz is None:
                                want = ('Backing' if backing else 'Unallocated', None, None)
                            else:
                                want = ('DataFile', 'keep', copied)
                            ev.steps = 0
                            n += 1
                            try:
                                r = ev.call(INTO, [entry, info, guest])
                            except Undecided as e:
                                und[part] = str(e)
                                continue
                            if not isinstance(r, Adt) or len(r.xs) != len(fl) or not isinstance(r.xs[isrc], Adt):
                                und[part] = 'result %r' % (r,)
                                continue
                            got = r.xs[isrc].vname
                            msg = None
                            if got != want[0]:
                                msg = 'classified as %s, the specification says %s' % (got, want[0])
                            elif want[1] is not None:
                                o = r.xs[ioff]
                                if want[1] == 'none':
                                    if not (isinstance(o, Adt) and o.vname == 'None'):
                                        msg = 'host offset of a zero cluster without preallocation is %r, not None' % (o,)
                                else:
                                    exp = ['0'] * 64
                                    for i in range(cb, 56):
                                        exp[i] = bits[i]
                                    pay = o.xs[0] if isinstance(o, Adt) and o.vname == 'Some' and o.xs else None
                                    from ..bitsem import to_bits
                                    pb = to_bits(pay, 64) if isinstance(pay, (BC, BS)) else None
                                    if pb is None or list(pb) != exp:
                                        msg = 'host offset is %r, not bits %d..55 of the entry' % (o, cb)
                            if msg is None and want[2] is not None:
                                c = r.xs[icop]
                                if not (isinstance(c, BC) and c.v == want[2]):
                                    msg = 'copied is %r, the entry has bit 63 = %d' % (c, want[2])
                            rep.ob(rid, part, msg is None, msg or '')
                            if msg:
                                bad.setdefault(msg.split(',')[0] + ' [%s]' % part.split(': ')[1], part)
    rep.floor('descriptor partitions evaluated through into_mapping', n - len(und), 150)
    if und:
        k = sorted(und)[0]
        raise AnalysisError('into_mapping not decided on %d partition(s), e.g. %s: %s' % (len(und), k, und[k]))
    b = f.body(INTO)
    for msg, part in sorted(bad.items())[:6]:
        rep.violation(rid, '%s:into_mapping:%s' % (rid, msg.split(' [')[1].rstrip(']').replace(' ', '_')), b.where(0),
                      'L2Entry::into_mapping, %s: %s' % (part, msg.split(' [')[0]))


def v2_rule(f, rep):
    want = {'refcount_order': (4, 4), 'header_length': (72, 72), 'incompatible_features': (0, 0),
            'compatible_features': (0, 0), 'autoclear_features': (0, 0), 'compression_type': (0, 0)}
    bad = {}
    n = 0
    raw = c14.adt_fields(f, c14.RAW)
    v3only = {raw[k][0]: k for k in want}
    judged = {}
    for cb in (9, 12, 16, 21):
        def on_switch(ai_, st, frame_, b_, bi, d):
            # a decision of the parser that looks at raw bytes 72.. of a version 2 header
            if b_.path != c14.FROM_BUF:
                return
            def israw(v):
                return v[0] == 'u' and len(v) > 1 and isinstance(v[1], tuple) and len(v[1]) == 3 and v[1][0] == 'proj' \
                    and len(v[1][2]) == 1 and v[1][2][0][0] == 'f' and v[1][2][0][1] in v3only \
                    and isinstance(v[1][1], tuple) and v[1][1][0] == 'u' and isinstance(v[1][1][1], tuple) and v[1][1][1][:1] == ('call',)
            from ..absint import mentions
            hit = []
            mentions(d, lambda v: hit.append(v3only[v[1][2][0][1]]) or False if israw(v) else False)
            for h in hit:
                judged[h] = b_.where(bi)
        ai, frame, oks, hits = c14.parser_run(f, (cb, cb), {'version': (2, 2)}, switch_hook=on_switch)
        if not hits:
            raise AnalysisError('deserialize anchor missing in from_buf')
        for bi, (st, hv) in oks.items():
            n += 1
            for name, (lo, hi) in want.items():
                i = ai.itvof(st, c14.header_field(ai, f, st, hv, name))
                if i is None or i[0] < lo or i[1] > hi:
                    bad[name] = i
    ok = n >= 4
    rep.ob('C09.1', 'a version 2 header reaches Ok(header)', ok, '%d Ok exits over 4 cluster sizes' % n)
    if not ok:
        rep.violation('C09.1', 'C09.1:no-ok-exit', 'src/meta/header.rs', 'from_buf has no Ok exit for a version 2 header: valid version 2 images are refused')
    for name in sorted(set(want)):
        ok = name not in judged
        rep.ob('C09.1', 'version 2: no decision on the raw bytes of %s' % name, ok,
               'never inspected before the default is applied' if ok else 'a decision at %s depends on them' % judged.get(name))
        if not ok:
            rep.violation('C09.1', 'C09.1:judged:%s' % name, judged[name],
                          'for a version 2 image from_buf takes a decision on the raw bytes of %s: in version 2 those bytes belong to '
                          'the header extensions, a valid image whose extension data looks like a bad value is refused' % name)
    for name in want:
        ok = name not in bad
        rep.ob('C09.1', 'version 2 default of %s' % name, ok, 'equals %d at every Ok exit' % want[name][0] if ok else 'can be %s' % fmt_itv(bad[name]))
        if not ok:
            rep.violation('C09.1', 'C09.1:%s' % name, 'src/meta/header.rs',
                          'for a version 2 image from_buf returns a header whose %s is %s: those bytes are not a header field in '
                          'version 2 (they belong to the header extensions), the specified default is %d' % (name, fmt_itv(bad[name]), want[name][0]))


def geometry_rule(f, rep, rid='C09.4'):
    cands = [b.path for b in f.body_list if b.path == 'dev::info::Qcow2Info::new']
    if not cands:
        raise AnalysisError('Qcow2Info::new not found')
    path = cands[0]
    b = f.body(path)
    raw = c14.adt_fields(f, c14.RAW)
    hf = c14.adt_fields(f, c14.HDR)
    inf = c14.adt_fields(f, 'dev::info::Qcow2Info')
    hpos = ppos = None
    for i in range(1, b.argc + 1):
        ty = f.types[b.locals[i]]
        if ty['k'] == 'ref' and f.types[ty['t']].get('p') == c14.HDR:
            hpos = i
        if ty['k'] == 'ref' and f.types[ty['t']].get('p', '').endswith('Qcow2DevParams'):
            ppos = i
    if hpos is None or ppos is None:
        raise AnalysisError('Qcow2Info::new: parameters not found')
    pf = c14.adt_fields(f, f.types[f.types[b.locals[ppos]]['t']]['p'])
    bad = {}
    n = 0
    n_custom = [0]
    checked = set()
    for cb in range(9, 22):
      for ro in range(0, 14):
        # ro 7..13: the same refcount widths once more with *custom* cache parameters - slices of different sizes for the two
        # caches (the defaults give both the same size, so a field derived from the wrong one would go unnoticed)
        custom = None
        if ro >= 7:
            ro -= 7
            if cb == 9:
                continue
            custom = (min(cb, 12), 9) if ro % 2 == 0 else (9, min(cb, 12))
        if True:
            ai = AbsInt(f)
            got = []

            def setup(ai_, st, frame, b_, cb=cb, ro=ro, custom=custom):
                hv = st.env[(('L', frame, hpos), ())]
                ridx = hf['raw'][0]

                def setf(name, lo, hi):
                    idx, tid = raw[name]
                    v = ai_.read_cell(st, (('M', hv), (('f', ridx), ('f', idx))), tid)
                    ai_.refine(st, v, lo, hi)
                setf('cluster_bits', cb, cb)
                setf('refcount_order', ro, ro)
                pv = st.env[(('L', frame, ppos), ())]
                for name, (idx, tid) in pf.items():
                    cell = (('M', pv), (('f', idx),))
                    if 'bs' in name or 'block' in name:
                        if ai_.tname(tid):
                            ai_.refine(st, ai_.read_cell(st, cell, tid), 9, 12)
                    elif ai_.kind_of_tid(tid) == 'Option':
                        v = ai_.read_cell(st, cell, tid)
                        if custom is not None and ('l2' in name or 'rb' in name):
                            bits = custom[0] if 'l2' in name else custom[1]
                            ai_.write_cell(st, cell, ('opt', 'Option', ('agg', 'tuple', 0, (('c', bits), ('c', 1 << 20))), ('c', 1)))
                        elif v[0] == 'opt':
                            ai_.assume(st, v[3], False)

            def on_stmt(ai_, st, frame, b_, bi, si, s, v):
                if b_.path == path and v[0] == 'agg' and v[1] == 'dev::info::Qcow2Info':
                    got.append((st.copy(), v))
            ai.stmt_hook = on_stmt
            ai.analyze(path, setup)
            if not got:
                bad.setdefault('(any field)', (None, cb, ro, 'a value: the constructor never returns Ok for this configuration'))
                checked.add('(any field)')
                continue
            st, v = got[-1]
            n += 1

            def fld(name):
                idx, tid = inf[name]
                return ai.itvof(st, v[3][idx])
            sl = min(12, cb)
            l2sb = fld('l2_slice_bits')
            rbsb = fld('rb_slice_bits')
            if custom is not None:
                n_custom[0] += 1
                for name, want in (('l2_slice_bits', custom[0]), ('rb_slice_bits', custom[1]),
                                   ('l2_cache_cnt', (1 << 20) >> custom[0]), ('rb_cache_cnt', (1 << 20) >> custom[1])):
                    checked.add(name)
                    i = fld(name)
                    if i != (want, want):
                        bad.setdefault(name, (i, cb, ro, '%d with cache parameters l2=(%d, 1 MiB) rb=(%d, 1 MiB)' % (want, custom[0], custom[1])))
            exp = {
                'cluster_shift': cb, 'refcount_order': ro,
                'in_cluster_offset_mask': (1 << cb) - 1,
                'l2_index_mask': (1 << (cb - 3)) - 1, 'l2_index_shift': cb - 3,
                'rb_index_mask': (1 << (cb + 3 - ro)) - 1, 'rb_index_shift': cb + 3 - ro,
            }
            if l2sb is not None and l2sb[0] == l2sb[1]:
                exp['l2_slice_entries'] = 1 << (l2sb[0] - 3)
                exp['l2_slice_index_shift'] = l2sb[0] - 3
            else:
                bad.setdefault('l2_slice_bits', (l2sb, cb, ro, 'a constant'))
            if rbsb is not None and rbsb[0] == rbsb[1]:
                exp['rb_slice_index_shift'] = rbsb[0] + 3 - ro
            else:
                bad.setdefault('rb_slice_bits', (rbsb, cb, ro, 'a constant'))
            for name, e in exp.items():
                checked.add(name)
                i = fld(name)
                if i != (e, e):
                    bad.setdefault(name, (i, cb, ro, e))
            for name in ('l2_slice_bits', 'rb_slice_bits'):
                checked.add(name)
                i = fld(name)
                if i is None or i[0] < 9 or i[1] > cb:
                    bad.setdefault(name, (i, cb, ro, 'within [9, cluster_bits]'))
            for name in ('l2_cache_cnt', 'rb_cache_cnt'):
                checked.add(name)
                i = fld(name)
                if i is None or i[0] < 2:
                    bad.setdefault(name, (i, cb, ro, 'at least 2'))
    rep.count('geometry configurations (cluster_bits x refcount_order)', n)
    rep.floor('geometry configurations with custom cache parameters (slice sizes differ)', n_custom[0], 84)
    for name in sorted(checked):
        ok = name not in bad
        rep.ob(rid, 'Qcow2Info.%s' % name, ok, 'equals the formula in all %d configurations' % n if ok else
               'is %s for cluster_bits %d refcount_order %d, expected %s' % (fmt_itv(bad[name][0]), bad[name][1], bad[name][2], bad[name][3]))
        if not ok:
            rep.violation(rid, '%s:%s' % (rid, name), 'src/dev/info.rs',
                          'Qcow2Info::new derives %s = %s for cluster_bits %d, refcount_order %d; the specification gives %s' % (
                              name, fmt_itv(bad[name][0]), bad[name][1], bad[name][2], bad[name][3]))
    rep.floor('geometry fields checked', len(checked), 12)


def compressed_read_rule(f, rep, rid='C09.5'):
    """(a) the slice of the bounce buffer handed to inflate lies inside the buffer that was read;
    (b) it starts where the compressed data starts: read offset + slice start = byte offset of the data"""
    from ..align import AlignInt, BS
    bodies = [b for b in f.body_list if b.is_coroutine and b.path.endswith('do_read_compressed::{closure#0}')]
    if len(bodies) != 1:
        raise AnalysisError('do_read_compressed not found')
    b = bodies[0]
    ai = AlignInt(f)
    ups = f.types[b.locals[1]].get('u') or []

    def setup(ai_, st, frame, b_):
        st.le.update(ai_.base_state().le)
        for k, tid in enumerate(ups):
            st.env[(('L', frame, 1), (('f', k),))] = ('u', ('param', b.path, k), ai_.tname(tid))
    ai.analyze(b.path, setup)
    n = 0
    slices = []
    for key, o in sorted(ai.obl.items(), key=lambda kv: kv[0][1]):
        if o.fn != b.path or o.kind != 'index' or o.cond is None:
            continue
        base = o.cond[0]
        if base[0] != 'rawslice':
            continue
        n += 1
        slices.append(o)
        rep.ob(rid, 'compressed data slice of the bounce buffer at %s' % o.where, o.ok,
               'pad..pad+compressed_length lies inside the aligned buffer' if o.ok else o.detail[:200])
        if not o.ok:
            rep.violation(rid, '%s:do_read_compressed:bounce' % rid, o.where,
                          'the slice of the bounce buffer that is inflated can lie outside the bytes that were read (short read, or '
                          'the block-aligned read does not cover the compressed bytes for some block size): %s' % o.detail[:300])
    rep.floor('bounce buffer slices in do_read_compressed', n, 1)
    reads = [r for r in ai.async_calls if r[2].endswith('::call_read')]
    if not reads or not slices:
        raise AnalysisError('do_read_compressed: bounce read / slice not found')
    aligned_off = reads[-1][4][1]
    base, start, end, st = slices[0].cond
    x = aligned_off
    while x[0] in ('wrap', 'cast'):
        x = x[1]
    ok = False
    why = 'the read offset is not a rounded-down byte offset'
    if x[0] == 'bin' and x[1] == 'BitAnd':
        for X, m in ((x[2], x[3]), (x[3], x[2])):
            if not (m[0] == 'bin' and m[1] == 'Sub' and m[2][0] == 'c'):
                continue
            lo = ai.low_ones(st, m[3])
            if lo is None:
                continue
            s0 = start
            while s0[0] in ('wrap', 'cast'):
                s0 = s0[1]
            if s0 == ('bin', 'Sub', X, aligned_off) or (s0[0] == 'bin' and s0[1] == 'Sub' and ai.strip(st, s0[2]) == ai.strip(st, X)
                                                      and ai.strip(st, s0[3]) == ai.strip(st, aligned_off)):
                ok, why = True, 'slice start = byte offset - read offset'
            elif s0[0] == 'bin' and s0[1] == 'BitAnd':
                for Y, m2 in ((s0[2], s0[3]), (s0[3], s0[2])):
                    l2 = ai.low_ones(st, m2)
                    if l2 is not None and ai.strip(st, Y) == ai.strip(st, X):
                        if ai.prove_le(st, l2, lo) and ai.prove_le(st, lo, l2):
                            ok, why = True, 'slice start = byte offset masked with the block size'
                        else:
                            why = 'slice start keeps the low %s bits but the read was rounded down to 2^%s' % (ai.show(st, l2)[:40], ai.show(st, lo)[:40])
            else:
                why = 'slice start %s is not derived from the byte offset and the read offset' % ai.show(st, start)[:120]
    rep.ob(rid, 'start of the compressed data inside the bounce buffer', ok, why)
    if not ok:
        rep.violation(rid, '%s:do_read_compressed:start' % rid, slices[0].where,
                      'the compressed stream is taken from the wrong position of the bounce buffer for some block size: %s' % why)


def spec_partitions(cb):
    """(kind, bits) for every descriptor partition of classification_rule (flag bits concrete, offset bits symbolic)"""
    out = []
    for comp in (0, 1):
        for zero in (0, 1):
            for copied in (0, 1):
                for nz in (None, cb, 30, 55):
                    if comp and nz is None:
                        continue
                    if not comp and not zero and nz is None and copied:
                        continue
                    bits = ['0'] * 64
                    bits[0] = str(zero)
                    bits[62] = str(comp)
                    bits[63] = str(copied)
                    if comp:
                        for i in range(0, 62):
                            bits[i] = 'e%d' % i
                        bits[nz] = '1'
                    elif nz is not None:
                        for i in range(cb, 56):
                            bits[i] = 'e%d' % i
                        bits[nz] = '1'
                    kind = 'Compressed' if comp else 'Zero' if zero else 'Unallocated/Backing' if nz is None else 'DataFile'
                    out.append((kind, bits))
    return out


def read_predicate_rule(f, rep, rid):
    """The read path decides what a guest cluster is through into_mapping (whose classification is C09.6).  Any other
    boolean method of L2Entry consulted on the read path decides the same thing a second time, on raw bits: it is accepted
    only if its answer is a function of the specified cluster kind - the same on all descriptors of one kind (bit
    evaluator over the descriptor partitions of C09.6).  `is_zero()` (bit 0) is not: in a compressed descriptor bit 0 is
    the lowest bit of the host byte offset."""
    from ..bitsem import Evaluator, Undecided, C as BC, S as BS, Adt
    rep.rule(rid, 'a boolean L2Entry method whose result is consulted on the read path (other than into_mapping) gives the same '
                  'answer on all descriptors of one specified cluster kind (standard / zero / compressed / unallocated)')
    ev = Evaluator(f)
    n_into = 0
    seen = {}
    for b in f.body_list:
        if not b.path.startswith('dev::read::') or '::tests::' in b.path:
            continue
        for bi, t in b.calls():
            fn = t.get('fn') or ''
            if not fn.startswith('meta::l2::L2Entry::'):
                continue
            if fn.endswith('::into_mapping'):
                n_into += 1
                continue
            cb_ = f.body(fn)
            if cb_ is None or f.types[cb_.locals[0]].get('p') != 'bool' or cb_.argc != 1:
                continue
            seen.setdefault(fn, []).append((b, bi))
    rep.floor('into_mapping calls on the read path', n_into, 2)
    for fn, sites in sorted(seen.items()):
        answers = {}
        for cb in (9, 16, 21):
            for kind, bits in spec_partitions(cb):
                entry = Adt('meta::l2::L2Entry', 0, [BS(bits)])
                ev.steps = 0
                try:
                    r = ev.call(fn, [entry])
                except Undecided:
                    r = None
                answers.setdefault(kind, set()).add(r.v if isinstance(r, BC) else 'depends on offset bits')
        mixed = {k: v for k, v in answers.items() if len(v) > 1 or 'depends on offset bits' in v}
        for b, bi in sites:
            me = short(b.path)
            rep.ob(rid, '%s consulted by %s at %s' % (short(fn), me, b.where(bi)), not mixed,
                   'answers per kind: %s' % {k: sorted(map(str, v)) for k, v in sorted(answers.items())})
            if mixed:
                k = sorted(mixed)[0]
                rep.violation(rid, '%s:%s:%s' % (rid, me, short(fn)), b.where(bi),
                              '%s decides on L2Entry::%s() on the read path, but that method does not follow the cluster kind: on %s '
                              'descriptors its answer %s (in a compressed descriptor the low bits belong to the host byte offset). '
                              'Reads of such clusters take the wrong branch' % (me, short(fn), k,
                              'depends on offset bits' if 'depends on offset bits' in mixed[k] else 'is both true and false'))

"""C09 — qcow2 specification conformance: reads foreign images, formats valid ones.

Decided (engine F = interval abstract interpretation, and the layout rule of C15):
  C09.1  version 2 headers: on every Ok path of the parser with version = 2 the fields
         that do not exist in a version 2 header have their specified defaults
         (refcount_order 4, header_length 72, no feature bits, compression 0), and such
         a path exists
  C09.2  raw header field sequence = specification table; fixed-width big-endian codec
  C09.3  the device constructor is panic-free for every header of the accept set with
         default and custom parameters (13 cluster sizes x 7 refcount widths)
  C09.4  derived geometry = specification formulas, as constants per (cluster_bits,
         refcount_order): cluster mask, L2 entries/index shift, refcount-block
         entries/index shift; slice geometry consistent with the chosen slice size
Not decided: agreement of get_mapping/read_at with an independent implementation,
validity of formatted images (value level); the compressed descriptor split is C15.2.
"""
from ..absint import AbsInt, fmt_itv, short_vn
from ..facts import AnalysisError
from ..interp import short
from . import c14, c15

TARGETS = ('--lib',)


def run(ctx, rep):
    f = ctx.lib
    rep.explanation = (
        'C09 is decided in part: version-2 defaults, header layout, panic freedom of the device constructor over the '
        'whole accept set and the derived geometry (constant propagation per cluster size x refcount width) are decided '
        'by abstract interpretation of the parser and the constructor; agreement of reads with an independent '
        'implementation and validity of formatted images are not decided.')
    rep.rule('C09.1', 'version 2: refcount_order 4, header_length 72, no feature bits, compression 0 at every Ok exit; an Ok exit exists')
    rep.rule('C09.2', 'raw header field sequence = specification; serialiser fixed-width big-endian')
    rep.rule('C09.3', 'every panic site of the device constructor is discharged for every accepted header')
    rep.rule('C09.5', 'the block-aligned bounce read of a compressed cluster covers the compressed bytes (slice pad..pad+len lies inside the buffer that was read)')
    rep.rule('C09.4', 'Qcow2Info fields equal the specification formulas for each (cluster_bits, refcount_order)')
    v2_rule(f, rep)
    c15.header_layout_rule(f, rep, 'C09.2')
    c14.ctor_rules(f, rep, 'C09.3')
    geometry_rule(f, rep)
    compressed_read_rule(f, rep)


def v2_rule(f, rep):
    want = {'refcount_order': (4, 4), 'header_length': (72, 72), 'incompatible_features': (0, 0),
            'compatible_features': (0, 0), 'autoclear_features': (0, 0), 'compression_type': (0, 0)}
    bad = {}
    n = 0
    for cb in (9, 12, 16, 21):
        ai, frame, oks, hits = c14.parser_run(f, (cb, cb), {'version': (2, 2)})
        if not hits:
            raise AnalysisError('deserialize anchor missing in from_buf')
        for bi, (st, hv) in oks.items():
            n += 1
            for name, (lo, hi) in want.items():
                i = ai.itvof(st, c14.header_field(ai, f, st, hv, name))
                if i is None or i[0] < lo or i[1] > hi:
                    bad[name] = i
    ok = n >= 4
    rep.ob('C09.1', 'a version 2 header reaches Ok(header)', ok, '%d Ok exits over 4 cluster sizes' % n)
    if not ok:
        rep.violation('C09.1', 'C09.1:no-ok-exit', 'src/meta/header.rs', 'from_buf has no Ok exit for a version 2 header: valid version 2 images are refused')
    for name in want:
        ok = name not in bad
        rep.ob('C09.1', 'version 2 default of %s' % name, ok, 'equals %d at every Ok exit' % want[name][0] if ok else 'can be %s' % fmt_itv(bad[name]))
        if not ok:
            rep.violation('C09.1', 'C09.1:%s' % name, 'src/meta/header.rs',
                          'for a version 2 image from_buf returns a header whose %s is %s: those bytes are not a header field in '
                          'version 2 (they belong to the header extensions), the specified default is %d' % (name, fmt_itv(bad[name]), want[name][0]))


def geometry_rule(f, rep):
    cands = [b.path for b in f.body_list if b.path == 'dev::info::Qcow2Info::new']
    if not cands:
        raise AnalysisError('Qcow2Info::new not found')
    path = cands[0]
    b = f.body(path)
    raw = c14.adt_fields(f, c14.RAW)
    hf = c14.adt_fields(f, c14.HDR)
    inf = c14.adt_fields(f, 'dev::info::Qcow2Info')
    hpos = ppos = None
    for i in range(1, b.argc + 1):
        ty = f.types[b.locals[i]]
        if ty['k'] == 'ref' and f.types[ty['t']].get('p') == c14.HDR:
            hpos = i
        if ty['k'] == 'ref' and f.types[ty['t']].get('p', '').endswith('Qcow2DevParams'):
            ppos = i
    if hpos is None or ppos is None:
        raise AnalysisError('Qcow2Info::new: parameters not found')
    pf = c14.adt_fields(f, f.types[f.types[b.locals[ppos]]['t']]['p'])
    bad = {}
    n = 0
    checked = set()
    for cb in range(9, 22):
        for ro in range(0, 7):
            ai = AbsInt(f)
            got = []

            def setup(ai_, st, frame, b_, cb=cb, ro=ro):
                hv = st.env[(('L', frame, hpos), ())]
                ridx = hf['raw'][0]

                def setf(name, lo, hi):
                    idx, tid = raw[name]
                    v = ai_.read_cell(st, (('M', hv), (('f', ridx), ('f', idx))), tid)
                    ai_.refine(st, v, lo, hi)
                setf('cluster_bits', cb, cb)
                setf('refcount_order', ro, ro)
                pv = st.env[(('L', frame, ppos), ())]
                for name, (idx, tid) in pf.items():
                    cell = (('M', pv), (('f', idx),))
                    if 'bs' in name or 'block' in name:
                        if ai_.tname(tid):
                            ai_.refine(st, ai_.read_cell(st, cell, tid), 9, 12)
                    elif ai_.kind_of_tid(tid) == 'Option':
                        v = ai_.read_cell(st, cell, tid)
                        if v[0] == 'opt':
                            ai_.assume(st, v[3], False)

            def on_stmt(ai_, st, frame, b_, bi, si, s, v):
                if b_.path == path and v[0] == 'agg' and v[1] == 'dev::info::Qcow2Info':
                    got.append((st.copy(), v))
            ai.stmt_hook = on_stmt
            ai.analyze(path, setup)
            if not got:
                bad.setdefault('(any field)', (None, cb, ro, 'a value: the constructor never returns Ok for this configuration'))
                checked.add('(any field)')
                continue
            st, v = got[-1]
            n += 1

            def fld(name):
                idx, tid = inf[name]
                return ai.itvof(st, v[3][idx])
            sl = min(12, cb)
            l2sb = fld('l2_slice_bits')
            rbsb = fld('rb_slice_bits')
            exp = {
                'cluster_shift': cb, 'refcount_order': ro,
                'in_cluster_offset_mask': (1 << cb) - 1,
                'l2_index_mask': (1 << (cb - 3)) - 1, 'l2_index_shift': cb - 3,
                'rb_index_mask': (1 << (cb + 3 - ro)) - 1, 'rb_index_shift': cb + 3 - ro,
            }
            if l2sb is not None and l2sb[0] == l2sb[1]:
                exp['l2_slice_entries'] = 1 << (l2sb[0] - 3)
                exp['l2_slice_index_shift'] = l2sb[0] - 3
            else:
                bad.setdefault('l2_slice_bits', (l2sb, cb, ro, 'a constant'))
            if rbsb is not None and rbsb[0] == rbsb[1]:
                exp['rb_slice_index_shift'] = rbsb[0] + 3 - ro
            else:
                bad.setdefault('rb_slice_bits', (rbsb, cb, ro, 'a constant'))
            for name, e in exp.items():
                checked.add(name)
                i = fld(name)
                if i != (e, e):
                    bad.setdefault(name, (i, cb, ro, e))
            for name in ('l2_slice_bits', 'rb_slice_bits'):
                checked.add(name)
                i = fld(name)
                if i is None or i[0] < 9 or i[1] > cb:
                    bad.setdefault(name, (i, cb, ro, 'within [9, cluster_bits]'))
            for name in ('l2_cache_cnt', 'rb_cache_cnt'):
                checked.add(name)
                i = fld(name)
                if i is None or i[0] < 2:
                    bad.setdefault(name, (i, cb, ro, 'at least 2'))
    rep.count('geometry configurations (cluster_bits x refcount_order)', n)
    for name in sorted(checked):
        ok = name not in bad
        rep.ob('C09.4', 'Qcow2Info.%s' % name, ok, 'equals the formula in all %d configurations' % n if ok else
               'is %s for cluster_bits %d refcount_order %d, expected %s' % (fmt_itv(bad[name][0]), bad[name][1], bad[name][2], bad[name][3]))
        if not ok:
            rep.violation('C09.4', 'C09.4:%s' % name, 'src/dev/info.rs',
                          'Qcow2Info::new derives %s = %s for cluster_bits %d, refcount_order %d; the specification gives %s' % (
                              name, fmt_itv(bad[name][0]), bad[name][1], bad[name][2], bad[name][3]))
    rep.floor('geometry fields checked', len(checked), 12)


def compressed_read_rule(f, rep):
    bodies = [b for b in f.body_list if b.is_coroutine and b.path.endswith('do_read_compressed::{closure#0}')]
    if len(bodies) != 1:
        raise AnalysisError('do_read_compressed not found')
    b = bodies[0]
    ai = AbsInt(f)

    def on_stmt(ai_, st, frame, b_, bi, si, s, v):
        rv = s['rv']
        if rv['k'] == 'use' and rv['ops'][0]['k'] in ('copy', 'move'):
            pr = rv['ops'][0]['pl']['p']
            if pr and pr[-1]['k'] == 'field' and pr[-1].get('n') == 'block_size_shift':
                ai_.refine(st, v, 9, 12)
    ai.stmt_hook = on_stmt
    ai.analyze(b.path)
    n = 0
    for key, o in sorted(ai.obl.items(), key=lambda kv: kv[0][1]):
        if o.fn != b.path or o.kind != 'index' or o.cond is None:
            continue
        base = o.cond
        if base[0] != 'rawslice':
            continue
        n += 1
        rep.ob('C09.5', 'compressed data slice of the bounce buffer at %s' % o.where, o.ok,
               'pad..pad+compressed_length lies inside the aligned buffer' if o.ok else o.detail)
        if not o.ok:
            rep.violation('C09.5', 'C09.5:do_read_compressed:bounce', o.where,
                          'the block-aligned host read of a compressed cluster does not cover the compressed bytes for some '
                          'block size: %s' % o.detail[:300])
    rep.floor('bounce buffer slices in do_read_compressed', n, 1)

"""Roll-back of a failed copy-on-write (shared by C10.7, C08.7, C03.7, C17.5).

A routine that installs a freshly allocated host cluster as the mapping of a guest cluster (a call of a
function that hands an allocator result to L2Table::map_cluster) and then runs a step on that fresh mapping
(an awaited call that receives it: the copy of the old content merged with the caller's bytes) must, on every
exit that reports the failure of that step,
  R1  have put back an entry that does not derive from the fresh mapping (the old mapping), on every path, and
  R2  have released the fresh cluster, on every path.
Otherwise the guest cluster stays mapped to a cluster without valid content / without refcount (R1), or the
fresh cluster keeps its refcount with no reference (R2).  Not examined: a failure of the release itself inside
the roll-back (second-order fault).
"""
from ..interp import short, POLL_NAMES
from ..guard import Deps
from ..facts import AnalysisError

ALLOCATORS = ('::allocate_cluster', '::allocate_clusters')
RELEASE = ('::free_clusters', '::clear_new_cluster')


def install_fns(f, P):
    """crate functions (async fn paths) whose coroutine hands an allocator result to map_cluster"""
    out = set()
    for b in f.body_list:
        if '::tests::' in b.path or not b.is_coroutine:
            continue
        dp = None
        for bi, t in b.calls():
            if not (t.get('fn') or '').endswith('L2Table::map_cluster') or len(t['args']) < 3:
                continue
            dp = dp or Deps(P, b)
            d = dp.of_operand(t['args'][2], (bi, 10 ** 6))
            if any(x[0] == 'fn' and x[1].endswith(ALLOCATORS) for x in d):
                out.add(b.path.rsplit('::{closure', 1)[0])
    return out


_RC = {}


def reach_calls(f, fn, depth):
    """names of the functions called from fn's body / coroutine, transitively to the given depth"""
    k = (fn, depth)
    if k in _RC:
        return _RC[k]
    _RC[k] = set()
    out = set()
    bodies = [f.body(fn)] + [f.body(c) for c in (f.coroutines_of(fn) or [])]
    for b in bodies:
        if b is None:
            continue
        for _bi, t in b.calls():
            x = t.get('fn') or ''
            if not x:
                continue
            out.add(x)
            if depth > 0 and (f.body(x) is not None):
                out |= reach_calls(f, x, depth - 1)
    _RC[k] = out
    return out


def analyse(f, P):
    """-> list of dicts, one per (routine, failing exit of the step on the fresh mapping)"""
    inst = install_fns(f, P)
    if not inst:
        raise AnalysisError('roll-back rule: no function installs a fresh allocation with map_cluster')
    res = []
    for b in f.body_list:
        if '::tests::' in b.path or not b.is_coroutine:
            continue
        icalls = [(bi, t) for bi, t in b.calls() if t.get('fn') in inst]
        if not icalls:
            continue
        dp = Deps(P, b)

        def from_install(d):
            return any(x[0] == 'fn' and x[1] in inst for x in d)
        # steps on the fresh mapping: awaited crate calls that receive it
        steps = []
        for bi, t in b.calls():
            fn = t.get('fn') or ''
            if fn in inst or fn.endswith(RELEASE) or not f.coroutines_of(fn):
                continue
            sub = reach_calls(f, fn, 2)
            if any(x.endswith('::free_clusters') or x.endswith('Table::set') for x in sub):
                continue            # a roll-back helper, not the step that fills the fresh cluster
            if not any(ib != bi and b.dominates(ib, bi) for ib, _t in icalls):
                continue
            if any(from_install(dp.of_operand(a, (bi, 10 ** 6))) for a in t['args']):
                steps.append((bi, fn))
        if not steps:
            continue
        stepfns = {fn for _bi, fn in steps}
        sets = []
        frees = []
        step_bis = [sb for sb, _fn in steps]
        for bi, t in b.calls():
            fn = t.get('fn') or ''
            if not any(sb != bi and b.dominates(sb, bi) for sb in step_bis):
                continue            # roll-back actions come after the step
            if fn.endswith('Table::set') and len(t['args']) >= 3:
                d = dp.of_operand(t['args'][2], (bi, 10 ** 6))
                sets.append((bi, not from_install(d) and any(x[0] in ('in', 'fn', 'field') for x in d)))
            if fn.endswith('::free_clusters') and len(t['args']) >= 2:
                d = dp.of_operand(t['args'][1], (bi, 10 ** 6))
                frees.append((bi, from_install(d)))
            # a helper that does the roll-back (the stores / releases are in a callee): accepted when it is handed
            # something of the old state (restore) / of the fresh mapping (release); its body is not examined further
            if fn not in inst and not fn.endswith(RELEASE) and fn not in {x for _b, x in steps}:
                sub = reach_calls(f, fn, 2)
                if any(x.endswith('Table::set') for x in sub):
                    ds = [dp.of_operand(a, (bi, 10 ** 6)) for a in t['args'][1:]]
                    if any(not from_install(d) and any(x[0] == 'in' for x in d) for d in ds):
                        sets.append((bi, True))
                if any(x.endswith('::free_clusters') for x in sub):
                    ds = [dp.of_operand(a, (bi, 10 ** 6)) for a in t['args'][1:]]
                    if any(from_install(d) for d in ds):
                        frees.append((bi, True))
        # exits that report the failure of a step
        for bi in sorted(b.reachable()):
            blk = b.blocks[bi]
            vals = []
            for si, s in enumerate(blk['st']):
                if s['k'] == 'assign' and s['pl']['l'] == 0 and not s['pl']['p']:
                    if s['rv']['k'] == 'agg' and s['rv'].get('vn') == 'Err' and s['rv']['ops']:
                        vals.append(dp.of_operand(s['rv']['ops'][0], (bi, si)))
            t = blk['term']
            if t['k'] == 'call' and t['dst']['l'] == 0 and not t['dst']['p'] and (t.get('fn') or '').endswith('from_residual'):
                for a in t['args']:
                    vals.append(dp.of_operand(a, (bi, 10 ** 6)))
            for d in vals:
                src = sorted({x[1] for x in d if x[0] == 'fn' and x[1] in stepfns})
                if not src:
                    continue
                # an error of the step itself, not of a later call in the roll-back
                later = {x[1] for x in d if x[0] == 'fn' and x[1].endswith(RELEASE)}
                if later:
                    continue
                restored = any(ok and b.dominates(sb, bi) for sb, ok in sets)
                stale = [b.where(sb) for sb, ok in sets if not ok and b.dominates(sb, bi)]
                released = any(ok and b.dominates(fb, bi) for fb, ok in frees)
                res.append({'fn': short(b.path), 'where': b.where(bi), 'step': [short(x) for x in src],
                            'restored': restored, 'released': released, 'stale': stale,
                            'sets': [b.where(sb) for sb, _ok in sets], 'frees': [b.where(fb) for fb, _ok in frees]})
    return res


def report(f, P, rep, rid, want):
    """want: subset of {'restore', 'release'}"""
    parts = []
    if 'restore' in want:
        parts.append('puts back an entry that does not derive from the fresh mapping')
    if 'release' in want:
        parts.append('releases the fresh cluster')
    rep.rule(rid, 'a routine that installs a fresh cluster and then fails in the step that fills it %s on every path to the '
                  'exit that reports that failure' % ' and '.join(parts))
    res = analyse(f, P)
    rep.floor('failing exits of a step on a freshly installed mapping', len(res), 1)
    for r in res:
        site = '%s: exit at %s reporting the failure of %s' % (r['fn'], r['where'], '/'.join(r['step']))
        if 'restore' in want:
            rep.ob(rid, site + ' [restore]', r['restored'], 'entry stores on the way: %s; deriving from the fresh mapping: %s' % (r['sets'], r['stale']))
            if not r['restored']:
                rep.violation(rid, '%s:%s:restore' % (rid, r['fn']), r['where'],
                              '%s returns the error of %s without having put the previous entry back on every path (%s): the guest '
                              'cluster stays mapped to the fresh host cluster, which holds no valid copy and is released - the old '
                              'content is lost and the cluster is handed to another owner by the next allocation' % (
                                  r['fn'], '/'.join(r['step']),
                                  'the entry stored at %s derives from the fresh mapping' % r['stale'] if r['stale'] else
                                  ('entry stores at %s do not cover every path' % r['sets'] if r['sets'] else 'no entry is stored')))
        if 'release' in want:
            rep.ob(rid, site + ' [release]', r['released'], 'releases on the way: %s' % r['frees'])
            if not r['released']:
                rep.violation(rid, '%s:%s:release' % (rid, r['fn']), r['where'],
                              '%s returns the error of %s without releasing the cluster it allocated for the copy on every path: '
                              'the cluster keeps refcount 1 with no reference (leak in the flushed image)' % (r['fn'], '/'.join(r['step'])))

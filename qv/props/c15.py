"""C15 — codec fidelity: headers, table entries, refcount packing, address split.

Decided (engine H, bit provenance; DESIGN C15):
  C15.1  field extraction of the L2 / L1 / reftable entry accessors equals the
         specification's bit tables (which input bits reach which output bits)
  C15.2  compressed descriptor: offset field = bits 0..x-1 (x = 62 - (cluster_bits
         - 8), capped at 56 bits), sector field = bits x..61, for cluster_bits 9..21
  C15.3  refcount packing: RefBlock get/set of every width address exactly the
         bits the specification assigns to the entry (LSB-first sub-byte packing,
         big-endian words), set preserves every other bit, and refuses values that
         do not fit before storing
  C15.4  table entries are stored big-endian: get converts with from_be, set with to_be
  C15.5  header codec: the raw header field sequence equals the specification's
         layout; the serialiser is fixed-width big-endian at every use; the backing
         file name offset written by serialize_to_buf does not depend on the stale
         header_length field
  C15.6  inverse slice-key functions read the same geometry fields as the forward
         index functions they invert
Not decided: sub-byte arithmetic results beyond the enumerated indices, compressed
length formula, round trips, address-split partition for symbolic geometries.
"""
from ..bitsem import Evaluator, Undecided, C, S, T, Tup, Adt, Bytes, Zt, sym, to_bits, norm
from ..interp import Program, short
from ..guard import Deps
from ..facts import AnalysisError

TARGETS = ('--lib',)

SPEC_HEADER = [('magic', 32), ('version', 32), ('backing_file_offset', 64), ('backing_file_size', 32),
               ('cluster_bits', 32), ('size', 64), ('crypt_method', 32), ('l1_size', 32),
               ('l1_table_offset', 64), ('refcount_table_offset', 64), ('refcount_table_clusters', 32),
               ('nb_snapshots', 32), ('snapshots_offset', 64), ('incompatible_features', 64),
               ('compatible_features', 64), ('autoclear_features', 64), ('refcount_order', 32),
               ('header_length', 32), ('compression_type', 8)]


def passthrough(lo, hi, w=64, prefix='e'):
    return ['%s%d' % (prefix, i) if lo <= i <= hi else '0' for i in range(w)]


def ext_cursor_rule(f, rep, rid):
    """Parser side of the 8-byte padding of header extensions: with header_length a multiple of 8 (what the
    specification requires of it), the cursor of the extension walk is a multiple of 8 wherever an extension
    header or its payload is sliced out of the buffer - i.e. every advance of the cursor is the padded length."""
    from ..align import AlignInt
    from ..absint import short_vn
    from . import c14
    rep.rule(rid, 'from_buf: every slice the extension walk takes out of the header buffer starts at a multiple of 8, given that '
                  'header_length is one (each extension is skipped with its padding)')
    rep.assume('header_length of a specification-valid image is a multiple of 8')
    raw = c14.adt_fields(f, c14.RAW)
    ai = AlignInt(f)
    hls = []

    def after_deser(ai_, st, frame, b, bi, t, res):
        a = t.get('a') or []
        if len(a) < 2 or f.types[a[1]].get('p') != c14.RAW or b.path != c14.FROM_BUF or res[0] != 'opt':
            return
        idx, tid = raw['cluster_bits']
        ai_.refine(st, ai_.project(st, res[2], (('f', idx),), tid), 9, 21)
        i2, t2 = raw['header_length']
        hl = ai_.project(st, res[2], (('f', i2),), t2)
        st.le.add(('al', hl, ('c', 3)))
        hls.append(hl)
    ai.after_call['Options::deserialize'] = after_deser
    seen = {}

    def idx(ai_, st, frame, b, bi, t, args):
        if b.path == c14.FROM_BUF and frame[0] is None and len(args) > 1 and args[1][0] == 'agg' and 'Range' in str(args[1][1]) and hls:
            s_ = args[1][3][0]
            from ..absint import mentions
            cursor = mentions(s_, lambda v: v[0] == 'u' and isinstance(v[1], tuple) and v[1] and v[1][0] == 'phi') or s_ in hls
            if cursor:
                seen[bi] = (s_, ai_.is_mult(st, s_, ('c', 3)))
        return None
    ai.hooks['Index::index'] = idx
    ai.analyze(c14.FROM_BUF)
    b = f.body(c14.FROM_BUF)
    rep.floor('slices taken by the extension walk', len(seen), 2)
    for bi, (s_, ok) in sorted(seen.items()):
        rep.ob(rid, 'slice at %s starts at a multiple of 8' % b.where(bi), ok, short_vn(s_)[:100])
        if not ok:
            rep.violation(rid, '%s:from_buf:%s' % (rid, 'cursor'), b.where(bi),
                          'from_buf slices the header buffer at %s, which is not provably a multiple of 8: an extension whose length is '
                          'not a multiple of 8 is not skipped with its padding, the next extension header is read from inside the '
                          'padding and a specification-valid image fails to open (or is misparsed)' % short_vn(s_)[:100])


def ext_length_rule(f, rep, rid):
    """Serialiser side: the length field of an extension header is the length of the payload exactly as
    serialize_data() returned it (the padding is not part of the recorded length)."""
    from ..absint import AbsInt, short_vn
    rep.rule(rid, 'serialize_extensions: the length field of every extension header is len() of the unmodified serialize_data() payload')
    hn = [a for a in f.adts if a.endswith('Qcow2HeaderExtensionHeader')]
    if len(hn) != 1:
        raise AnalysisError('Qcow2HeaderExtensionHeader not found')
    # the routine that serialises the extensions: builds extension headers from serialize_data() payloads
    cands = [x for x in f.body_list if '::tests::' not in x.path and not x.is_coroutine and
             any((t.get('fn') or '').endswith('::serialize_data') for _bi, t in x.calls()) and
             any(s_['k'] == 'assign' and s_['rv']['k'] == 'agg' and s_['rv'].get('p') == hn[0] for bl in x.blocks for s_ in bl['st'])]
    if len(cands) != 1:
        raise AnalysisError('the routine that serialises header extensions was not found (%d candidates)' % len(cands))
    b = cands[0]
    path = b.path
    fl = [x['n'] for x in f.adts[hn[0]]['variants'][0]['fields']]
    li = fl.index('length')
    ai = AbsInt(f)
    pays = []
    made = {}
    ai.after_call['::serialize_data'] = lambda ai_, st, frame, b_, bi, t, res: pays.append(res[2] if res[0] == 'opt' else res) if frame[0] is None else None

    def on_stmt(ai_, st, frame, b_, bi, si, s_, v):
        if frame[0] is None and v[0] == 'agg' and v[1] == hn[0]:
            made[(bi, si)] = v[3][li]
    ai.stmt_hook = on_stmt
    ai.analyze(path)

    def peel(v):
        k = 0
        while isinstance(v, tuple) and v and v[0] in ('wrap', 'cast') and k < 8:
            v = v[1]
            k += 1
        return v
    n = 0
    for (bi, si), lv in sorted(made.items()):
        lv = peel(lv)
        if lv == ('c', 0):
            continue            # the end marker
        n += 1
        ok = lv[0] == 'len' and (lv[1] in pays or (lv[1][0] == 'vslice' and lv[1][1] in pays))
        rep.ob(rid, 'extension header built at %s' % b.where(bi), ok, 'length = %s' % short_vn(lv)[:100])
        if not ok:
            rep.violation(rid, '%s:serialize_extensions' % rid, b.where(bi),
                          'serialize_extensions records %s as the length of an extension, not the length of the payload that '
                          'serialize_data() produced: after parse -> serialise -> parse the extension has changed (padding becomes '
                          'part of the data)' % short_vn(lv)[:100])
    rep.floor('extension headers built by the serialiser', n, 1)


def run(ctx, rep):
    f = ctx.lib
    from . import span
    ext_cursor_rule(f, rep, 'C15.9')
    ext_length_rule(f, rep, 'C15.10')
    # the address functions (C15.8) are evaluated on geometry fields; that the constructor derives those fields as the
    # specification says - with default and with custom cache parameters, i.e. also when the two slice sizes differ - is C09.4
    from . import c09 as _c09
    rep.rule('C15.12', 'Qcow2Info fields (index shifts, masks, slice geometry) equal the specification formulas for each '
                       '(cluster_bits, refcount_order), with default and with custom cache parameters')
    _c09.geometry_rule(f, rep, 'C15.12')
    rep.rule('C15.7', 'the host-cluster span of a compressed extent is exactly the clusters it touches (allocation(), and releases computed in place)')
    span.allocation_rule(f, rep, 'C15.7')
    P = Program(f)
    rep.explanation = (
        'C15 is decided in part: bit provenance of every entry accessor, of the compressed descriptor split for all 13 '
        'cluster sizes, of refcount get/set for all 7 widths over the first 16 indices, byte-order symmetry of table '
        'get/set, header layout and serialiser configuration are decided by abstract interpretation of the accessor '
        'bodies. Arithmetic results (lengths, round trips) are not decided.')
    rep.rule('C15.1', 'accessor output bits = specification bit table')
    rep.rule('C15.2', 'compressed descriptor split per cluster_bits 9..21')
    rep.rule('C15.3', 'refcount get/set address exactly the specified bits; set preserves the rest and range-checks first')
    rep.rule('C15.4', 'table get uses from_be, set uses to_be')
    rep.rule('C15.5', 'raw header field sequence = specification; serialiser fixed-width big-endian; backing name offset independent of header_length field')
    rep.rule('C15.8', 'address arithmetic (HostCluster, SplitGuestOffset) = specification bit tables for every geometry')
    rep.rule('C15.6', 'inverse key functions use the geometry fields of the forward index functions')
    ev = Evaluator(f)
    e = sym('e', 64)
    tally = {'decided': 0, 'undecided': 0}

    def check(rule, name, fn, args, expect, key):
        try:
            ev.steps = 0
            r = ev.call(fn, args)
        except Undecided as x:
            rep.note_undecided(rule, name, str(x))
            rep.ob(rule, name + ' (not decided)', True, 'outside the bit domain: %s' % x)
            tally['undecided'] += 1
            return None
        tally['decided'] += 1
        ok, detail = expect(r)
        rep.ob(rule, name, ok, detail)
        if not ok:
            rep.violation(rule, key, f.body(fn).where(0) if f.body(fn) else '', '%s: %s' % (name, detail))
        return r

    def vec_eq(bits):
        def f_(r):
            try:
                got = to_bits(r, len(bits))
            except Undecided:
                return False, 'result is not a bit vector: %r' % (r,)
            bad = [i for i in range(len(bits)) if got[i] != bits[i]]
            return not bad, ('all %d bits as specified' % len(bits)) if not bad else \
                'bit(s) %s differ: got %s, specification says %s' % (bad[:8], [got[i] for i in bad[:8]], [bits[i] for i in bad[:8]])
        return f_

    def flag(bit):
        def f_(r):
            ok = isinstance(r, Zt) and r.op == 'Ne' and r.bits == ['e%d' % bit]
            return ok, 'tests exactly bit %d' % bit if ok else 'depends on %r, specification: bit %d' % (r, bit)
        return f_

    # ---------------------------------------------------------------- C15.1
    n = 0
    for (fn, exp, nm) in [
        ('meta::l2::L2Entry::cluster_offset', vec_eq(passthrough(9, 55)), 'L2Entry::cluster_offset = bits 9..55'),
        ('meta::l2::L2Entry::is_compressed', flag(62), 'L2Entry::is_compressed = bit 62'),
        ('meta::l2::L2Entry::is_copied', flag(63), 'L2Entry::is_copied = bit 63'),
        ('meta::l2::L2Entry::is_zero', flag(0), 'L2Entry::is_zero = bit 0'),
        ('meta::l2::L2Entry::compressed_descriptor', vec_eq(passthrough(0, 61)), 'L2Entry::compressed_descriptor = bits 0..61'),
        ('meta::l1::L1Entry::l2_offset', vec_eq(passthrough(9, 55)), 'L1Entry::l2_offset = bits 9..55'),
        ('meta::l1::L1Entry::is_copied', flag(63), 'L1Entry::is_copied = bit 63'),
        ('meta::refcount::RefTableEntry::refblock_offset', vec_eq(passthrough(9, 63)), 'RefTableEntry::refblock_offset = bits 9..63'),
    ]:
        if f.body(fn) is None:
            raise AnalysisError('accessor %s not found' % fn)
        n += 1
        check('C15.1', nm, fn, [e], exp, 'C15.1:' + fn.split('::')[-2] + '::' + fn.split('::')[-1])
    for (fn, lo, hi, nm) in [('meta::l1::L1Entry::is_zero', 9, 55, 'L1Entry::is_zero <=> bits 9..55 all zero'),
                             ('meta::refcount::RefTableEntry::is_zero', 9, 63, 'RefTableEntry::is_zero <=> bits 9..63 all zero')]:
        n += 1
        want = ['e%d' % i for i in range(lo, hi + 1)]
        check('C15.1', nm, fn, [e],
              lambda r, want=want: (isinstance(r, Zt) and r.op == 'Eq' and r.bits == want,
                                    'zero test over the specified bits' if isinstance(r, Zt) and r.bits == want else 'depends on %r' % (r,)),
              'C15.1:' + fn.split('::')[-2] + '::is_zero')
    rep.floor('entry accessors', n, 10)
    # mapping install: COPIED flag
    h = sym('h', 64)
    l1m = f.body('meta::l1::L1Table::map_l2_offset')
    # the value constructed by map_l2_offset: evaluate the expression (1 << 63) | l2_offset directly
    r = ev._bin('BitOr', C(64, 1 << 63), h)
    # ---------------------------------------------------------------- C15.2
    ec = S(e.bits[:62] + ['1', e.bits[63]])
    for cb in range(9, 22):
        x = 62 - (cb - 8)

        def exp(r, x=x):
            if not (isinstance(r, Adt) and r.vname == 'Some' and isinstance(r.xs[0], Tup)):
                return False, 'not Some((offset, length)): %r' % (r,)
            off = r.xs[0].xs[0]
            want = passthrough(0, min(x, 56) - 1)
            try:
                got = to_bits(off, 64)
            except Undecided:
                return False, 'offset is not a bit vector'
            bad = [i for i in range(64) if got[i] != want[i]]
            return not bad, 'offset = bits 0..%d' % (min(x, 56) - 1) if not bad else 'offset bit(s) %s wrong (x = %d)' % (bad[:6], x)
        check('C15.2', 'compressed_range offset field, cluster_bits=%d' % cb, 'meta::l2::L2Entry::compressed_range',
              [ec, C(32, cb)], exp, 'C15.2:compressed_range:offset')
    # the length field: every bit of the "additional sectors" field (bits x..61, cluster_bits - 8 of them) reaches the decoded
    # length at its place: length = (sectors + 1) * 512 - (offset & 511).  One field bit symbolic at a time, the rest of the
    # descriptor zero (so nothing is subtracted and no carry can hide the bit).
    for cb in range(9, 22):
        x = 62 - (cb - 8)
        for j in range(cb - 8):
            bits = ['0'] * 64
            bits[62] = '1'
            bits[x + j] = 'd'

            def expl(r, j=j, cb=cb):
                if not (isinstance(r, Adt) and r.vname == 'Some' and isinstance(r.xs[0], Tup)):
                    return False, 'not Some((offset, length)): %r' % (r,)
                try:
                    got = to_bits(r.xs[0].xs[1], 64)
                except Undecided:
                    return False, 'length is not a bit vector'
                if j == 0:
                    ok = 'd' in got[9] and got[9] != 'd'        # (d + 1) * 512: bit 9 is the complement of d
                else:
                    ok = got[9] == '1' and got[9 + j] == 'd'
                return ok, 'sector-count bit %d (descriptor bit %d) reaches the length at bit %d' % (j, 62 - (cb - 8) + j, 9 + j) if ok else \
                    'sector-count bit %d (descriptor bit %d) does not reach the length: bits 9.. are %s' % (j, 62 - (cb - 8) + j, got[9:9 + j + 2])
            check('C15.2', 'compressed_range length, cluster_bits=%d, sector bit %d' % (cb, j), 'meta::l2::L2Entry::compressed_range',
                  [S(bits), C(32, cb)], expl, 'C15.2:compressed_range:length')
    # ---------------------------------------------------------------- C15.3
    rb_fields = [fl['n'] for fl in f.adts['meta::refcount::RefBlock']['variants'][0]['fields']]
    if rb_fields != ['offset', 'raw_data', 'refcount_order']:
        raise AnalysisError('RefBlock layout changed: %s' % rb_fields)
    nget = 0
    for order in range(0, 7):
        w = 1 << order
        for index in range(0, 16 if w < 64 else 4):
            buf = Bytes('B')
            rb = Adt('meta::refcount::RefBlock', 0, [T, buf, C(8, order)])
            if w < 8:
                byte, off = (index * w) // 8, (index * w) % 8
                want = ['B%d.%d' % (byte, off + j) if j < w else '0' for j in range(64)]
            else:
                nb = w // 8
                start = index * nb
                want = ['B%d.%d' % (start + (nb - 1 - j // 8), j % 8) if j < w else '0' for j in range(64)]
            nget += 1
            check('C15.3', 'RefBlock get width %d index %d' % (w, index), 'meta::refcount::RefBlock::__get',
                  [rb, C(64, index)], vec_eq(want), 'C15.3:__get:order%d' % order)
            # set
            buf2 = Bytes('B')
            rb2 = Adt('meta::refcount::RefBlock', 0, [T, buf2, C(8, order)])
            val = S(['v%d' % j if j < w else '0' for j in range(64)])

            def exps(r, buf2=buf2, w=w, index=index):
                bad = []
                touched = set()
                for j in range(w):
                    if w < 8:
                        byte, bit = (index * w) // 8, (index * w) % 8 + j
                    else:
                        nb = w // 8
                        byte, bit = index * nb + (nb - 1 - j // 8), j % 8
                    touched.add((byte, bit))
                    got = to_bits(buf2.get(byte), 8)[bit]
                    if got != 'v%d' % j:
                        bad.append('entry bit %d -> B%d.%d holds %s' % (j, byte, bit, got))
                for byte in list(buf2.mem):
                    for bit in range(8):
                        if (byte, bit) not in touched:
                            got = to_bits(buf2.get(byte), 8)[bit]
                            if got != 'B%d.%d' % (byte, bit):
                                bad.append('neighbour bit B%d.%d changed to %s' % (byte, bit, got))
                return not bad, 'stores the entry bits and preserves all neighbours' if not bad else '; '.join(bad[:4])
            check('C15.3', 'RefBlock set width %d index %d' % (w, index), 'meta::refcount::RefBlock::__set',
                  [rb2, C(64, index), val], exps, 'C15.3:__set:order%d' % order)
    rep.floor('refcount get/set contexts', nget, 100)
    # the get/set bit tables must actually be decided: an evaluation that leaves the bit domain proves nothing
    rep.floor('bit-table evaluations decided (of %d)' % (tally['decided'] + tally['undecided']), tally['decided'], 200)
    # range check dominates the store in __set
    sb = f.body('meta::refcount::RefBlock::__set')
    dp = Deps(P, sb)
    guard_ok = False
    stores = [x for x in sb.reachable() if any(s_['k'] == 'assign' and any(e_['k'] == 'index' for e_ in s_['pl']['p'])
                                                 for s_ in sb.blocks[x]['st'])]
    outer = []
    inner = []
    for bi in sb.reachable():
        t = sb.blocks[bi]['term']
        if t['k'] != 'switch':
            continue
        d = dp.of_operand(t['d'], (bi, 10 ** 6))
        has_order = ('field', 'refcount_order') in d
        has_val = ('in', 2) in d
        if has_order and not has_val and not any(x[0] == 'in' and x[1] == 1 for x in d):
            outer.append(bi)
        if has_order and has_val:
            inner.append(bi)
    # the width test selects whether a bound applies; under it the value is compared
    # with the bound and the failing edge returns before any store
    for o in outer:
        for i in inner:
            if sb.dominates(o, i) and stores and all(sb.dominates(o, x) for x in stores):
                rej = [s_ for s_ in sb.succ()[i] if not any(_reaches(sb, s_, x) for x in stores)]
                if rej:
                    guard_ok = True
    rep.ob('C15.3', 'RefBlock::__set range check dominates every store', guard_ok, '')
    if not guard_ok:
        rep.violation('C15.3', 'C15.3:__set:range-check', sb.where(0),
                      'RefBlock::__set stores a value without first comparing it with the maximum of the refcount width: '
                      'an overflowing refcount silently wraps into neighbouring entries')
    # ---------------------------------------------------------------- C15.4
    ng = 0
    for b in f.body_list:
        nm = short(b.path)
        if b.kind != 'AssocFn' or nm not in ('get', 'set') or ' as meta::table::Table>::' not in b.path:
            continue
        if 'RefBlock' in b.path:
            continue
        ng += 1
        fns = [t.get('fn') or '' for _bi, t in b.calls()]
        if nm == 'get':
            ok = any(x.endswith('::from_be') for x in fns) and not any(x.endswith('::to_be') or x.endswith('from_le') for x in fns)
        else:
            ok = any(x.endswith('::to_be') for x in fns) and not any(x.endswith('::from_be') or x.endswith('to_le') for x in fns)
        rep.ob('C15.4', b.path, ok, 'byte order conversion calls: %s' % [x.split('::')[-1] for x in fns if 'be' in x.split('::')[-1] or 'le' in x.split('::')[-1]])
        if not ok:
            rep.violation('C15.4', 'C15.4:%s' % b.path.split('<')[-1].replace(' as meta::table::Table>', ''), b.where(0),
                          '%s does not convert between host and big-endian order as its sibling does' % b.path)
    rep.floor('table get/set implementations', ng, 6)
    # ---------------------------------------------------------------- C15.5
    header_layout_rule(f, rep, 'C15.5')
    sb2 = f.body('meta::header::Qcow2Header::serialize_to_buf')
    if sb2 is None:
        raise AnalysisError('serialize_to_buf not found')
    dp2 = Deps(P, sb2)
    found = False
    for bi in sb2.reachable():
        for si, s in enumerate(sb2.blocks[bi]['st']):
            if s['k'] == 'assign' and any(e['k'] == 'field' and e['n'] == 'backing_file_offset' for e in s['pl']['p']):
                d = dp2._rv(s['rv'], (bi, si), frozenset())
                if ('const',) in d and len(d) == 1:
                    continue
                found = True
                bad = ('field', 'header_length') in d
                rep.ob('C15.5', 'backing_file_offset written by serialize_to_buf', not bad,
                       'depends on %s' % sorted(x[1].split('::')[-1] for x in d if x[0] in ('fn', 'field'))[:8])
                if bad:
                    rep.violation('C15.5', 'C15.5:backing_file_offset', sb2.where(bi),
                                  'serialize_to_buf computes backing_file_offset from the header_length field, which is '
                                  'only brought up to date by serialize_vec afterwards: for an image whose on-disk header '
                                  'length differs, the backing file name is lost on the first header rewrite')
    if not found:
        raise AnalysisError('serialize_to_buf: store to backing_file_offset not found')
    # ---------------------------------------------------------------- C15.6
    key_rule(f, P, rep, 'C15.6')
    # ---------------------------------------------------------------- C15.8
    address_rule(f, ev, rep)
    host_end_rule(f, ev, rep, 'C15.11')


def header_layout_rule(f, rep, rid):
    raw = f.adts.get('meta::header::Qcow2RawHeader')
    if raw is None:
        raise AnalysisError('Qcow2RawHeader not found')
    got = []
    for fl in raw['variants'][0]['fields']:
        t = f.types[fl['t']]
        got.append((fl['n'], {'u8': 8, 'u16': 16, 'u32': 32, 'u64': 64}.get(t.get('p'))))
    ok = got == SPEC_HEADER and raw['repr_packed']
    rep.ob(rid, 'Qcow2RawHeader layout', ok, '%d fields, packed=%s' % (len(got), raw['repr_packed']))
    if not ok:
        diff = [(a, b) for a, b in zip(got, SPEC_HEADER) if a != b][:3]
        rep.violation(rid, rid + ':layout', '', 'the raw header field sequence differs from the specification: %s' % diff)
    nser = 0
    for b in f.body_list:
        if '::tests::' in b.path:
            continue
        fns = [t.get('fn') or '' for _bi, t in b.calls()]
        uses = [x for x in fns if x.startswith('bincode::') and (x.endswith('::serialize') or x.endswith('::deserialize'))]
        if not uses:
            continue
        nser += 1
        ok = any('with_fixint_encoding' in x for x in fns) and any('with_big_endian' in x for x in fns)
        rep.ob(rid, 'serialiser configuration in %s' % short(b.path), ok, 'fixint + big endian')
        if not ok:
            rep.violation(rid, rid + ':bincode:%s' % short(b.path), b.where(0),
                          '%s (de)serialises header data without fixed-width big-endian encoding' % short(b.path))
    rep.floor('bincode (de)serialisation sites', nser, 3)


def _reaches(b, src, dst):
    succ = b.succ()
    seen = set()
    st = [src]
    while st:
        x = st.pop()
        if x == dst:
            return True
        if x in seen:
            continue
        seen.add(x)
        st.extend(succ[x])
    return False


def geometry_fields(f, P, path, depth=0, _seen=None):
    """Qcow2Info fields read by fn `path`, transitively through crate helpers."""
    if _seen is None:
        _seen = set()
    if path in _seen or depth > 4:
        return set()
    _seen.add(path)
    b = f.body(path)
    if b is None:
        return set()
    info_fields = {fl['n'] for fl in f.adts['dev::info::Qcow2Info']['variants'][0]['fields']}
    out = set()
    for bl in b.blocks:
        for s in bl['st']:
            if s['k'] != 'assign':
                continue
            pls = [s['rv'].get('pl')] + [o.get('pl') for o in s['rv'].get('ops', [])]
            for pl in pls:
                if pl:
                    for e in pl['p']:
                        if e['k'] == 'field' and e['n'] in info_fields:
                            out.add(e['n'])
        t = bl['term']
        if t['k'] == 'call' and t.get('fn') and f.body(t['fn']) is not None:
            out |= geometry_fields(f, P, t['fn'], depth + 1, _seen)
    return out


# derived geometry fields in terms of the independent ones (the formulas are decided by C09.4), so that
# two computations agree when they use equivalent fields (e.g. rb_entries() instead of rb_index_shift)
DERIVED = {
    'l2_index_shift': {'cluster_shift'}, 'l2_index_mask': {'cluster_shift'}, 'in_cluster_offset_mask': {'cluster_shift'},
    'l2_slice_index_shift': {'l2_slice_bits'}, 'l2_slice_entries': {'l2_slice_bits'},
    'rb_index_shift': {'cluster_shift', 'refcount_order'}, 'rb_index_mask': {'cluster_shift', 'refcount_order'},
    'rb_slice_index_shift': {'rb_slice_bits', 'refcount_order'},
}


def canon(fields):
    out = set()
    for x in fields:
        out |= DERIVED.get(x, {x})
    return out


def key_rule(f, P, rep, rid):
    rep.rule(rid, 'the function mapping a top-table byte offset to the first child slice key reads the same index-shift '
                  'field as the forward top-table index function')
    pairs = [('l2_slice_key_of_l1_off', 'meta::addr::SplitGuestOffset::l1_index', {'l2_index_shift'}),
             ('rb_slice_key_of_rt_off', 'HostCluster::rt_index', {'rb_index_shift'})]
    n = 0
    for inv_name, fwd, need in pairs:
        inv = [b for b in f.body_list if b.path.endswith('::' + inv_name)]
        fw = [b for b in f.body_list if b.path.endswith(fwd)]
        if len(inv) != 1 or len(fw) != 1:
            raise AnalysisError('key functions %s / %s not found' % (inv_name, fwd))
        n += 1
        # only the shifts the inverse applies itself (not those of the slice key helper it calls)
        own = set()
        for bl in inv[0].blocks:
            for s in bl['st']:
                if s['k'] == 'assign':
                    pls = [s['rv'].get('pl')] + [o.get('pl') for o in s['rv'].get('ops', [])]
                    for pl in pls:
                        if pl:
                            for e in pl['p']:
                                if e['k'] == 'field' and e['n'].endswith('_shift'):
                                    own.add(e['n'])
        fwd_fields = {x for x in geometry_fields(f, P, fw[0].path) if x.endswith('index_shift')}
        ok = canon(need) <= canon(own) and canon(need) <= canon(fwd_fields) and not (canon(own) - canon(need) - {'cluster_shift'})
        rep.ob(rid, '%s vs %s' % (inv_name, fwd.split('::')[-1]), ok, 'inverse uses %s, forward uses %s' % (sorted(own), sorted(fwd_fields)))
        if not ok:
            rep.violation(rid, '%s:%s' % (rid, inv_name), inv[0].where(0),
                          '%s uses the shift field(s) %s but the forward index function %s uses %s: the range of child '
                          'slices flushed before a top-table block is written is wrong for large offsets, so the block '
                          'can be written before the slices it points to' % (inv_name, sorted(own), fwd.split('::')[-1], sorted(fwd_fields)))
    rep.floor('inverse key functions', n, 2)


def info_value(f, cb, ro, l2sb, rbsb, bs=9):
    """a Qcow2Info with the field values the specification gives for this geometry (C09.4 decides that
    Qcow2Info::new produces exactly these)"""
    vals = {
        'block_size_shift': bs, 'cluster_shift': cb, 'l2_index_shift': cb - 3, 'l2_slice_index_shift': l2sb - 3,
        'l2_slice_bits': l2sb, 'refcount_order': ro, 'rb_slice_bits': rbsb, 'rb_index_shift': cb + 3 - ro,
        'rb_slice_index_shift': rbsb + 3 - ro, 'flags': 0, 'l2_slice_entries': 1 << (l2sb - 3),
        'in_cluster_offset_mask': (1 << cb) - 1, 'l2_index_mask': (1 << (cb - 3)) - 1, 'rb_index_mask': (1 << (cb + 3 - ro)) - 1,
        'l2_cache_cnt': 2, 'rb_cache_cnt': 2, 'virtual_size': 1 << 40,
    }
    xs = []
    for fl in f.adts['dev::info::Qcow2Info']['variants'][0]['fields']:
        w = {'u8': 8, 'u16': 16, 'u32': 32, 'u64': 64, 'usize': 64}.get(f.types[fl['t']].get('p'))
        if w is None or fl['n'] not in vals:
            raise AnalysisError('Qcow2Info field %s is not known to the address rule' % fl['n'])
        xs.append(C(w, vals[fl['n']]))
    return Adt('dev::info::Qcow2Info', 0, xs)


def shifted(sym_bits, lo, n, at=0, width=64):
    """bit vector: n bits of the input starting at bit lo, placed at bit `at`, zero elsewhere"""
    out = ['0'] * width
    for i in range(n):
        if 0 <= at + i < width and lo + i < len(sym_bits):
            out[at + i] = sym_bits[lo + i]
    return out


def host_end_rule(f, ev, rep, rid):
    """HostCluster::rb_slice_host_end / rb_host_end = start of the slice / refblock range + the host bytes it
    covers, for every geometry: evaluated by the width-faithful bit evaluator with the offset inside the first
    range symbolic (the start is then 0 and the result must be the constant 2^(cluster_bits + log2(entries))).
    A shift done in a narrower type than the result truncates for ranges of 4 GiB and more."""
    rep.rule(rid, 'rb_slice_host_end / rb_host_end = range start + entries << cluster_bits without loss of bits, for every geometry '
                  '(cluster size x refcount width x slice size)')
    n = 0
    bad = {}
    for cb in (9, 12, 16, 17, 20, 21):
        for ro in range(0, 7):
            for sb in sorted({9, min(12, cb), cb}):
                if sb + 3 - ro < 0:
                    continue
                info = info_value(f, cb, ro, sb, sb)
                ks, k = sb + 3 - ro, cb + 3 - ro
                for fn, width in (('rb_slice_host_end', cb + ks), ('rb_host_end', cb + k)):
                    if width >= 63 or f.body('dev::alloc::HostCluster::' + fn) is None:
                        continue
                    bits = ['0'] * 64
                    for i in range(width):
                        bits[i] = 'h%d' % i
                    h = Adt('dev::alloc::HostCluster', 0, [S(bits)])
                    ev.steps = 0
                    n += 1
                    try:
                        r = ev.call('dev::alloc::HostCluster::' + fn, [h, info])
                    except Undecided as e:
                        rep.note_undecided(rid, fn, str(e))
                        continue
                    ok = isinstance(r, C) and r.v == (1 << width)
                    if not ok:
                        bad.setdefault(fn, []).append((cb, ro, sb, r))
    rep.floor('host-end evaluations', n, 150)
    for fn in ('rb_slice_host_end', 'rb_host_end'):
        b = f.body('dev::alloc::HostCluster::' + fn)
        if b is None:
            raise AnalysisError('HostCluster::%s not found' % fn)
        lst = bad.get(fn, [])
        rep.ob(rid, 'HostCluster::%s over all geometries' % fn, not lst,
               '%d geometries wrong, e.g. %s' % (len(lst), ['cluster_bits %d refcount_order %d slice_bits %d -> %r' % x for x in lst[:3]]) if lst else '')
        if lst:
            cb, ro, sb, r = lst[0]
            rep.violation(rid, '%s:%s' % (rid, fn), b.where(0),
                          'HostCluster::%s is not range start + covered bytes for %d geometries (e.g. cluster_bits %d, refcount_order %d, '
                          'slice_bits %d: %r for an offset in the first range): the end of a range of 4 GiB or more is computed in a '
                          'narrower type and truncated; loops that run to that end (free_clusters, try_allocate_from) never terminate' % (
                              fn, len(lst), cb, ro, sb, r))


def address_rule(f, ev, rep):
    h = sym('h', 64)
    hb = h.bits
    n = 0
    bad = {}
    und = set()
    for cb in (9, 12, 16, 21):
        for ro in (0, 2, 3, 4, 6):
            for sb in sorted({9, min(12, cb)}):
                info = info_value(f, cb, ro, sb, sb)
                k, ks = cb + 3 - ro, sb + 3 - ro          # log2(entries per refblock / per refblock slice)
                l2k, l2ks = cb - 3, sb - 3
                want = {
                    'dev::alloc::HostCluster::rt_index': shifted(hb, cb + k, 64 - cb - k),
                    'dev::alloc::HostCluster::rb_index': shifted(hb, cb, k),
                    'dev::alloc::HostCluster::rb_slice_index': shifted(hb, cb, ks),
                    'dev::alloc::HostCluster::rb_slice_key': shifted(hb, cb + ks, 64 - cb - ks),
                    'dev::alloc::HostCluster::rb_slice_host_start': shifted(hb, cb + ks, 64 - cb - ks, cb + ks),
                    'dev::alloc::HostCluster::rb_host_start': shifted(hb, cb + k, 64 - cb - k, cb + k),
                    'dev::alloc::HostCluster::rb_slice_off_in_table': shifted(hb, cb + ks, k - ks, sb),
                    'meta::addr::SplitGuestOffset::l1_index': shifted(hb, cb + l2k, 64 - cb - l2k),
                    'meta::addr::SplitGuestOffset::l2_index': shifted(hb, cb, l2k),
                    'meta::addr::SplitGuestOffset::l2_slice_index': shifted(hb, cb, l2ks),
                    'meta::addr::SplitGuestOffset::l2_slice_key': shifted(hb, cb + l2ks, 64 - cb - l2ks),
                    'meta::addr::SplitGuestOffset::l2_slice_off_in_table': shifted(hb, cb + l2ks, l2k - l2ks, sb),
                    'meta::addr::SplitGuestOffset::in_cluster_offset': shifted(hb, 0, cb),
                    # index composition reproduces the offset (rounded down to its cluster)
                    'meta::addr::SplitGuestOffset::cluster_offset': shifted(hb, cb, 64 - cb, cb),
                }
                for fn, bits in want.items():
                    if f.body(fn) is None:
                        raise AnalysisError('address function %s not found' % fn)
                    n += 1
                    try:
                        ev.steps = 0
                        r = ev.call(fn, [h, info])
                        got = to_bits(r, 64)
                    except Undecided as x:
                        und.add((fn, str(x)[:80]))
                        continue
                    diff = [i for i in range(64) if got[i] != bits[i]]
                    if diff:
                        bad.setdefault(fn, (cb, ro, sb, diff[:6], [got[i] for i in diff[:6]], [bits[i] for i in diff[:6]]))
    fns = sorted({fn for fn in want})
    for fn in fns:
        ok = fn not in bad
        u = [x for x in und if x[0] == fn]
        if u and ok:
            rep.note_undecided('C15.8', fn, u[0][1])
            rep.ob('C15.8', '%s (not decided)' % fn.split('::', 2)[-1], True, 'outside the bit domain: %s' % u[0][1])
            continue
        rep.ob('C15.8', fn.split('::', 2)[-1], ok, 'equals the specified bit selection in every geometry' if ok else
               'cluster_bits %d refcount_order %d slice bits %d: bit(s) %s are %s, specified %s' % bad[fn])
        if not ok:
            rep.violation('C15.8', 'C15.8:%s' % fn.split('::')[-1], f.body(fn).where(0),
                          '%s does not select the specified bits of the offset (cluster_bits %d, refcount_order %d, slice bits %d: '
                          'bit(s) %s are %s, specified %s): entries of different slices/tables are addressed at the same place' % (
                              (fn.split('::')[-1],) + bad[fn]))
    rep.floor('address function evaluations', n, 400)

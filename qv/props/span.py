"""Host-cluster span of a compressed extent (shared by C03, C10, C15).

For an extent [off, off+len) and a span (start, count) of host clusters of size P = 2^cluster_bits:
  start <= off < start + P            the span starts at the cluster that holds the first byte
  start + count*P >= off + len        it covers the end
  start + (count-1)*P < off + len     its last cluster holds a byte of the extent (no cluster too many)
decided by linear-inequality reasoning (qv/linear.py) over the value numbers of engine F/G, with
the floor lemmas of  >> / << / & !mask.
"""
from ..align import AlignInt, CL
from ..linear import LinProver, Lin
from ..facts import AnalysisError
from ..interp import short


def find_payload(vn, idx, fn_suffix, f):
    """unknowns of the form  <result of a call to fn_suffix>.<idx>  inside vn"""
    out = []

    def walk(x, d=0):
        if not isinstance(x, tuple) or d > 40:
            return
        if x and x[0] == 'u' and len(x) > 1 and isinstance(x[1], tuple) and x[1] and x[1][0] == 'proj' \
                and x[1][2] and x[1][2][-1] == ('f', idx):
            base = x[1][1]
            if isinstance(base, tuple) and base and base[0] == 'u' and isinstance(base[1], tuple) and base[1] and base[1][0] in ('call', 'ret'):
                k = base[1]
                b = f.body(k[2])
                if b is not None and (b.blocks[k[3]]['term'].get('fn') or '').endswith(fn_suffix):
                    out.append(x)
        for y in x:
            walk(y, d + 1)
    walk(vn)
    return out


def obligations(ai, st, off, ln, start, count):
    lp = LinProver(ai, st, CL)
    E = lp.lin(off).add(lp.lin(ln))
    S = lp.lin(start)
    MC = lp.lin(('bin', 'Shl', count, CL))
    P = Lin(0, {lp.P: 1})
    return [
        ('starts at the cluster of the first byte', lp.prove_ge0(lp.lin(off).add(S, -1)) and
         lp.prove_ge0(S.add(P).add(lp.lin(off), -1).add(Lin(-1)))),
        ('covers the end of the extent', lp.prove_ge0(S.add(MC).add(E, -1))),
        ('no cluster beyond the end', lp.prove_ge0(E.add(S, -1).add(MC, -1).add(P).add(Lin(-1)))),
    ]


def allocation_rule(f, rep, rid):
    """L2Entry::allocation(): the (first cluster, count) it reports for a compressed entry"""
    path = 'meta::l2::L2Entry::allocation'
    b = f.body(path)
    if b is None:
        raise AnalysisError('L2Entry::allocation not found')
    ai = AlignInt(f, inline=lambda p: not p.endswith('compressed_range'))
    got = []

    def setup(ai_, st, frame, b_):
        st.le.update(ai_.base_state().le)
        # the cluster_bits parameter is the device's cluster shift
        for i in range(1, b.argc + 1):
            if f.types[b.locals[i]].get('p') in ('u32', 'usize', 'u8'):
                st.env[(('L', frame, i), ())] = CL

    def on_stmt(ai_, st, frame, b_, bi, si, s, v):
        if b_.path == path and s['pl']['l'] == 0 and not s['pl']['p'] and v[0] == 'opt' and v[2][0] == 'agg' and len(v[2][3]) == 2:
            got.append((bi, st.copy(), v))
    ai.stmt_hook = on_stmt
    ai.analyze(path, setup)
    n = 0
    last = {}
    for bi, st, v in got:
        last[bi] = (st, v)
    for bi, (st, v) in sorted(last.items()):
        start, count = v[2][3]
        offs = find_payload(count, 0, 'compressed_range', f) or find_payload(start, 0, 'compressed_range', f)
        lens = find_payload(count, 1, 'compressed_range', f)
        if not offs or not lens:
            continue
        n += 1
        for what, ok in obligations(ai, st, offs[0], lens[0], start, count):
            rep.ob(rid, 'allocation() of a compressed entry: %s' % what, ok, 'proved' if ok else 'not provable')
            if not ok:
                rep.violation(rid, '%s:allocation:%s' % (rid, what.split(' ')[0] + '-' + what.split(' ')[-1]), b.where(bi),
                              'L2Entry::allocation reports a host-cluster span for a compressed entry that is not exactly the set '
                              'of clusters the extent touches (%s fails, e.g. for an extent that ends on a cluster boundary): the '
                              'refcount of a neighbour cluster is dropped, or a cluster of the extent keeps its reference' % what)
    rep.floor('compressed branch of L2Entry::allocation', n, 1)


def release_rule(f, rep, rid):
    """free_clusters(start, count) whose arguments are computed from a compressed range in place"""
    n = 0
    for b in f.body_list:
        if '::tests::' in b.path or not b.is_coroutine:
            continue
        if not any((t.get('fn') or '').endswith('::free_clusters') for _bi, t in b.calls()):
            continue
        if not any((t.get('fn') or '').endswith('compressed_range') or (t.get('fn') or '').endswith('L2Entry::allocation')
                   or (t.get('fn') or '').endswith('from_mapping') for _bi, t in b.calls()):
            continue
        ai = AlignInt(f, inline=lambda p: not p.endswith('compressed_range'))
        ai.mapping_except = ('',)         # no alignment assumption on Mapping.cluster_offset here: the source may be compressed
        ups = f.types[b.locals[1]].get('u') or []
        mfields = {'cluster_offset': [], 'compressed_length': []}
        orig_read = ai.read_place

        def read_place(st, b_, frame, pl, orig_read=orig_read, mfields=mfields):
            v = orig_read(st, b_, frame, pl)
            for idx, e in enumerate(pl['p']):
                if e['k'] == 'field' and e.get('n') in mfields:
                    ptid = ai.place_tid(b_, {'l': pl['l'], 'p': pl['p'][:idx]})
                    if ptid is not None and f.types[ptid].get('p') == 'meta::l2::Mapping':
                        pay = v[2] if v[0] == 'opt' else v
                        if pay[0] == 'u':
                            mfields[e['n']].append(pay)
            return v
        ai.read_place = read_place

        def setup(ai_, st, frame, b_):
            st.le.update(ai_.base_state().le)
            for k, tid in enumerate(ups):
                st.env[(('L', frame, 1), (('f', k),))] = ('u', ('param', b.path, k), ai_.tname(tid))
        ai.analyze(b.path, setup)
        last = {}
        for r in ai.async_calls:
            if r[2].endswith('::free_clusters'):
                last[(r[1], r[6])] = r
        for (bi, fr), (bp, _bi, fn, name, args, st, frame, t) in sorted(last.items(), key=lambda kv: kv[0][0]):
            start, count = args[1], args[2]
            offs = find_payload(count, 0, 'compressed_range', f) or find_payload(start, 0, 'compressed_range', f)
            lens = find_payload(count, 1, 'compressed_range', f)
            if not lens:
                from ..absint import mentions
                lens = [x for x in mfields['compressed_length'] if mentions(count, lambda v, x=x: v == x)]
                offs = [x for x in mfields['cluster_offset'] if mentions(count, lambda v, x=x: v == x) or mentions(start, lambda v, x=x: v == x)]
            if not offs or not lens:
                continue
            n += 1
            for what, ok in obligations(ai, st, offs[0], lens[0], start, count):
                rep.ob(rid, 'release of a compressed extent in %s at %s: %s' % (short(b.path), b.where(bi), what), ok,
                       'proved' if ok else 'not provable')
                if not ok:
                    rep.violation(rid, '%s:%s:%s' % (rid, short(b.path), what.split(' ')[0] + '-' + what.split(' ')[-1]), b.where(bi),
                                  '%s releases host clusters computed in place from a compressed range, and the span is not exactly '
                                  'the clusters the extent touches (%s fails, e.g. for an extent that ends on a cluster boundary)' % (
                                      short(b.path), what))
    rep.count('in-place span computations of compressed releases', n)

"""C13 — request validation: bad arguments are rejected without side effects.

Decided (DESIGN C13):
  C13.1  the validation checks of read_at / write_at / discard (bounds, length
         alignment, offset alignment, read-only; EOF and zero length for reads)
         exist, each has a reject edge that returns without suspending, and
         together they dominate the first suspension point (hence every effect);
         a check is recognised by the values its condition depends on
  C13.2  no overflow-checked arithmetic (in the function or in the pure helpers
         it calls) is applied to a raw argument before a check on that argument
         dominates it
Not decided: arithmetic after validation, the clamped count of reads crossing the
end, comparison strictness of the bounds test (value level).
"""
from ..interp import Program, POLL_NAMES, short
from ..guard import Deps, checks, first_effect_blocks, passes_check
from ..facts import AnalysisError
from .. import api

TARGETS = ('--lib',)


def validation_body(f, P, name):
    """The body that validates the arguments of API method `name`: follow pure
    forwarders (`self.__x(args).await`)."""
    b = api.dev_method(f, name)
    for _ in range(4):
        polls = first_effect_blocks(b)
        if len(polls) != 1:
            return b
        t = b.blocks[polls[0]]['term']
        futs = P.futs(t['a'][0], ())
        if len(futs) != 1 or futs[0].kind not in ('async_fn',):
            return b
        # forwarder: no switch before the poll
        if any(b.blocks[i]['term']['k'] == 'switch' and b.dominates(i, polls[0]) and
               i not in _await_loop_blocks(b, polls[0]) for i in b.reachable()):
            return b
        cos = f.coroutines_of(futs[0].path)
        if not cos:
            return b
        b = f.body(cos[0])
    return b


def _await_loop_blocks(b, poll):
    # the match on Poll::Ready/Pending belongs to the await itself
    return set()


def arg_roots(f, b):
    """{'offset': i, 'len': i or 'buf': i} capture indices by parameter type."""
    fnb = f.body(b.parent)
    roots = {}
    u64s = []
    for i in range(1, fnb.argc + 1):
        t = fnb.ty(i)
        if t['k'] == 'ref' and f.types[t['t']]['k'] == 'slice':
            roots['buf'] = i - 1
        elif t.get('p') == 'u64':
            u64s.append(i - 1)
    if u64s:
        roots['offset'] = u64s[0]
    if len(u64s) > 1:
        roots['len'] = u64s[1]
    return roots


def overflow_params(f, P, fn, memo, depth=0):
    """Indices of the parameters of sync fn `fn` that can reach an overflow
    assert inside it (transitively through crate helpers)."""
    if fn in memo:
        return memo[fn]
    memo[fn] = set()
    b = f.body(fn)
    if b is None or b.is_coroutine or depth > 4:
        return set()
    dp = Deps(P, b)
    out = set()
    for bi in b.reachable():
        t = b.blocks[bi]['term']
        if t['k'] == 'assert' and t['msg'].startswith('Overflow'):
            d = overflow_operand_deps(b, dp, bi)
            out |= {x[1] for x in d if x[0] == 'in'}
        elif t['k'] == 'call' and t.get('fn') and f.body(t['fn']) is not None:
            sub = overflow_params(f, P, t['fn'], memo, depth + 1)
            for i in sub:
                if i < len(t['args']):
                    d = dp.of_operand(t['args'][i], (bi, 10 ** 6))
                    out |= {x[1] for x in d if x[0] == 'in'}
    memo[fn] = out
    return out


def overflow_operand_deps(b, dp, bi):
    """Deps of the arithmetic whose overflow flag the assert in bi tests."""
    t = b.blocks[bi]['term']
    c = t['c']
    if c['k'] not in ('copy', 'move'):
        return frozenset()
    return dp.of_place(c['pl'], (bi, 10 ** 6))


def raw_overflow_rule(f, P, rep, rid, name, b, roots, cks, dp, memo, n_assert):
    """every overflow-checked operation on a value that depends on a raw argument is dominated by a check on that
    argument; for additions / multiplications / left shifts the check must bound it (an order comparison or a checked
    operation - an equality or alignment test does not)"""
    rootset = {roots[k]: k for k in roots}
    for bi in sorted(b.reachable()):
        t = b.blocks[bi]['term']
        deps = None
        what = None
        if t['k'] == 'assert' and t['msg'].startswith('Overflow'):
            deps = overflow_operand_deps(b, dp, bi)
            what = 'arithmetic (%s)' % t['msg'].split(',')[0]
        elif t['k'] == 'call' and t.get('fn') and f.body(t['fn']) is not None and not f.body(t['fn']).is_coroutine:
            sub = overflow_params(f, P, t['fn'], memo)
            ds = set()
            for i in sub:
                if i < len(t['args']):
                    ds |= dp.of_operand(t['args'][i], (bi, 10 ** 6))
            if ds:
                deps = ds
                what = 'call of %s (overflow-checked arithmetic on its argument)' % short(t['fn'])
        if not deps:
            continue
        raw = sorted({rootset[x[1]] for x in deps if x[0] == 'in' and x[1] in rootset})
        if not raw:
            continue
        n_assert[0] += 1
        missing = []
        unbounded = []
        upward = t['k'] == 'assert' and any(x in t['msg'] for x in ('Overflow(Add', 'Overflow(Mul', 'Overflow(Shl'))
        if upward and any(x[0] == 'fn' and x[1].rsplit('::', 1)[-1].startswith(('min', 'clamp', 'saturating_', 'checked_', 'wrapping_'))
                          for x in deps):
            upward = False      # an operand went through a clipping operation: bounded by that, not by a test
        for r in raw:
            idx = roots[r]
            dom = [c for c in cks if ('in', idx) in c['deps'] and b.dominates(c['bi'], bi) and bi not in c['reject']]
            if not dom:
                missing.append(r)
            elif upward and r != 'buf' and not any(c.get('order') for c in dom):
                # (the length of the caller's buffer is a slice length: bounded by isize::MAX by construction)
                # tested, but only for equality / alignment: that does not bound it
                unbounded.append(r)
        rep.ob(rid, '%s: %s at %s' % (name, what, b.where(bi)), not missing and not unbounded,
               'depends on raw %s; unvalidated: %s; tested for equality/alignment only: %s' % (raw, missing, unbounded))
        if unbounded and not missing:
            rep.violation(rid, '%s:%s:%s:unbounded' % (rid, name, '+'.join(unbounded)), b.where(bi),
                          '%s: %s at %s adds to / multiplies the raw argument(s) %s, which were tested before only for equality '
                          'or alignment: no comparison bounds them from above, so a value near the integer limit panics '
                          '(overflow check) instead of being clipped or rejected' % (name, what, b.where(bi), unbounded))
        if missing:
            rep.violation(rid, '%s:%s:%s' % (rid, name, '+'.join(missing)), b.where(bi),
                          '%s: %s at %s uses the raw argument(s) %s before any check on them: a request with an '
                          'extreme value panics (overflow check) instead of being rejected' % (
                              name, what, b.where(bi), missing))


def run(ctx, rep):
    f = ctx.lib
    P = Program(f)
    rep.explanation = (
        'C13 is decided in part: existence, reject edge and dominance of the validation checks over every suspension '
        'point (and hence every effect), and absence of overflow-checked arithmetic on raw arguments before a check on '
        'them, on every path of read_at, write_at and discard. Results of the arithmetic and the clamped read count are '
        'not decided (value level).')
    rep.rule('C13.1', 'each required validation check exists, rejects by returning without suspending, and dominates every await')
    rep.rule('C13.2', 'every overflow assert (own or in a called pure helper) on a value depending on a raw argument is '
                      'dominated by a check whose condition depends on that argument; an addition, multiplication or left shift '
                      'needs a check that bounds the argument (order comparison or checked operation)')
    need = {
        'write_at': {
            'bounds (offset, length, virtual size)': lambda d, r: ('in', r['offset']) in d and ('in', r['buf']) in d and vs(d),
            'length alignment': lambda d, r: ('in', r['buf']) in d and bs(d) and ('in', r['offset']) not in d,
            'offset alignment': lambda d, r: ('in', r['offset']) in d and bs(d) and ('in', r['buf']) not in d,
            'read-only': lambda d, r: ro(d),
            'zero length': lambda d, r: ('in', r['buf']) in d and not bs(d) and ('in', r['offset']) not in d and not vs(d),
        },
        'read_at': {
            'start beyond the end (offset, virtual size)': lambda d, r: ('in', r['offset']) in d and vs(d) and ('in', r['buf']) not in d,
            'zero length': lambda d, r: ('in', r['buf']) in d and not bs(d) and ('in', r['offset']) not in d and not vs(d),
            'length alignment': lambda d, r: ('in', r['buf']) in d and bs(d) and ('in', r['offset']) not in d,
            'offset alignment': lambda d, r: ('in', r['offset']) in d and bs(d) and ('in', r['buf']) not in d,
        },
        'discard': {
            'read-only': lambda d, r: ro(d),
        },
    }
    memo = {}
    n_assert = [0]
    for name, cats in need.items():
        b = validation_body(f, P, name)
        roots = arg_roots(f, b)
        if 'offset' not in roots:
            raise AnalysisError('%s: cannot identify the offset parameter' % name)
        cks, dp = checks(P, b)
        polls = first_effect_blocks(b)
        if not polls:
            raise AnalysisError('%s: no await found in %s' % (name, b.path))
        vname = short(b.path)
        for cat, pred in cats.items():
            hits = [c for c in cks if pred(c['deps'], roots)]
            dom = [c for c in hits if all(b.dominates(c['bi'], p) or passes_check(b, c, p) for p in polls)]
            ok = bool(dom)
            rep.ob('C13.1', '%s: %s' % (name, cat), ok,
                   '%d matching check(s) in %s, %d dominate all %d awaits' % (len(hits), vname, len(dom), len(polls)))
            if not ok:
                rep.violation('C13.1', 'C13.1:%s:%s' % (name, cat.split(' (')[0]), b.where(0),
                              '%s: the %s check %s in %s: %s' % (
                                  name, cat, 'does not dominate every await' if hits else 'is missing', vname,
                                  'a request of length 0 goes on to the mapping code, which allocates a cluster, dirties metadata '
                                  'and sends requests for it' if cat == 'zero length' else
                                  'an invalid request can reach the backend or change metadata'))
        raw_overflow_rule(f, P, rep, 'C13.2', name, b, roots, cks, dp, memo, n_assert)
    rep.floor('overflow sites on raw arguments examined', n_assert[0], 3)
    beyond_end_rule(f, P, rep, 'C13.3')
    device_kind_rule(f, rep, 'C13.4')
    flag_word_rule(f, rep, 'C13.5')
    decrement_rule(f, P, rep, 'C13.6')


def device_kind_rule(f, rep, rid):
    """The device-kind predicates of Qcow2Info the validation depends on (read-only, has a backing file, is a
    backing file) are tests of separate flag bits: a device that is only read-only is not taken for a backing
    image (reads at the end would be answered with zeros instead of an error), an overlay is not read-only, ...
    is_read_only may additionally hold for a backing image."""
    from ..bitsem import Evaluator
    from . import c09
    rep.rule(rid, 'is_back_file / has_back_file / is_read_only test separate bits of Qcow2Info.flags (each true for some '
                  'single-bit flag word; no single bit makes two of them true, except that a backing image may count as read-only)')
    ev = Evaluator(f)
    bits = {}
    for pred in ('is_read_only', 'has_back_file', 'is_back_file'):
        bits[pred] = set(c09.flag_bits(f, ev, pred)[0])
        rep.ob(rid, '%s is true for a single-bit flag word' % pred, bool(bits[pred]), 'true for no single bit')
    rep.floor('device-kind predicates evaluated', len(bits), 3)
    b = f.body('dev::info::Qcow2Info::is_back_file')
    pairs = [('is_read_only', 'is_back_file', 'a device that is only read-only is taken for a backing image: read_at at or beyond the end '
              'returns zeros and Ok instead of an error / the clamped count'),
             ('is_read_only', 'has_back_file', 'a read-only device without a backing file is taken for an overlay'),
             ('has_back_file', 'is_back_file', 'an overlay is taken for a backing image'),
             ('has_back_file', 'is_read_only', 'a writable overlay is taken for read-only'),
             ('is_back_file', 'has_back_file', 'a backing image is taken for an overlay')]
    for a, c, why in pairs:
        own = bits[a] - (bits['is_back_file'] if a == 'is_read_only' else set())
        ok = bool(own) and not (own & bits[c])
        rep.ob(rid, 'a flag bit of %s does not satisfy %s' % (a, c), ok, 'bits %s / %s' % (sorted(bits[a]), sorted(bits[c])))
        if not ok:
            rep.violation(rid, '%s:%s=>%s' % (rid, a, c), b.where(0),
                          'Qcow2Info flag predicates overlap (%s bits %s, %s bits %s): %s' % (a, sorted(bits[a]), c, sorted(bits[c]), why))


def beyond_end_rule(f, P, rep, rid):
    """The count a read reports beyond the bytes it produced from this image
    (reads crossing the end) is non-zero only for a backing device: every
    non-constant-zero definition of a value added to the produced count in the
    Ok result is dominated by the true edge of a test of is_back_file()."""
    rep.rule(rid, 'a read crossing the end credits bytes beyond the clamped length only under is_back_file(): the top '
                  'device returns the clamped count, a backing device returns zeros for the rest')
    b = validation_body(f, P, 'read_at')
    dp = Deps(P, b)
    defs = P.defs(b)
    # locals added into the returned Ok(..) value
    cands = set()
    for bi in b.reachable():
        for s in b.blocks[bi]['st']:
            if s['k'] == 'assign' and s['rv']['k'] == 'agg' and s['rv'].get('vn') == 'Ok' and s['pl']['l'] == 0:
                for o in s['rv']['ops']:
                    if o['k'] in ('copy', 'move'):
                        _collect_addends(b, defs, o['pl']['l'], cands, 0)
    # switches on is_back_file()
    gates = []
    succ = b.succ()
    for bi in b.reachable():
        t = b.blocks[bi]['term']
        if t['k'] == 'switch':
            d = dp.of_operand(t['d'], (bi, 10 ** 6))
            direct = [x for x in d if x[0] == 'fn' and x[1].endswith('is_back_file')]
            other = [x for x in d if x[0] == 'fn' and (x[1].endswith('has_back_file') or x[1].endswith('is_read_only'))]
            if direct and not other and not any(x[0] == 'in' and x[1] != 0 for x in d):
                # true edge = the 'otherwise' target of `switchInt(bool) [0 -> false]`
                gates.append((bi, t['o']))
    n = 0
    polls = first_effect_blocks(b)

    def leaf_defs(l, depth=0, seen=None, field=None):
        """(has_zero_def, [non-zero leaf definitions]) following plain moves (through the fields of tuples built
        and taken apart on the way)."""
        if seen is None:
            seen = set()
        if (l, field) in seen or depth > 10:
            return False, []
        seen.add((l, field))
        zero = False
        leaves = []
        for d in defs.get(l, []):
            if d[0] == 'st':
                rv = b.blocks[d[1]]['st'][d[2]]['rv']
                pl_ = b.blocks[d[1]]['st'][d[2]]['pl']
                if field is not None and not pl_['p'] and rv['k'] == 'agg' and rv.get('ak') == 'tuple' and field < len(rv['ops']):
                    o = rv['ops'][field]
                    if o['k'] == 'const':
                        if o.get('v') == '0':
                            zero = True
                        else:
                            leaves.append(d)
                        continue
                    if o['k'] in ('copy', 'move') and not o['pl']['p']:
                        z2, l2 = leaf_defs(o['pl']['l'], depth + 1, seen, None)
                        zero = zero or z2
                        leaves += l2
                        continue
                    leaves.append(d)
                    continue
                if field is not None and pl_['p']:
                    # a field of the tuple assigned on its own
                    fs = [e for e in pl_['p'] if e['k'] == 'field']
                    if len(fs) != 1 or fs[0].get('i', fs[0].get('n')) not in (field, str(field)):
                        continue
                if rv['k'] == 'use' and rv['ops'][0]['k'] == 'const':
                    if rv['ops'][0].get('v') == '0':
                        zero = True
                        continue
                if rv['k'] == 'use' and rv['ops'][0]['k'] in ('copy', 'move') and \
                        not [e for e in rv['ops'][0]['pl']['p'] if e['k'] != 'field']:
                    src = rv['ops'][0]['pl']['l']
                    fsel = [e for e in rv['ops'][0]['pl']['p'] if e['k'] == 'field']
                    if b.ty(src)['k'] == 'tuple' or not rv['ops'][0]['pl']['p']:
                        fi = None
                        if b.ty(src)['k'] == 'tuple' and len(fsel) == 1:
                            fi = fsel[0].get('i')
                            if fi is None and str(fsel[0].get('n', '')).isdigit():
                                fi = int(fsel[0]['n'])
                        z2, l2 = leaf_defs(src, depth + 1, seen, fi if fi is not None else field)
                        zero = zero or z2
                        leaves += l2
                        continue
            leaves.append(d)
        return zero, leaves

    for l in sorted(cands):
        zero, leaves = leaf_defs(l)
        if not zero:
            continue      # not a "zero unless ..." value
        for d in leaves:
            dbi = d[1]
            if any(b.dominates(p_, dbi) for p_ in polls):
                continue      # produced counts (results of the reads), not credit computed from the arguments
            n += 1
            ok = any(b.dominates(tgt, dbi) and tgt != bi for (bi, tgt) in gates)
            rep.ob(rid, 'read_at: extra count defined at %s' % b.where(dbi), ok,
                   'non-zero definition of a value added to the returned count')
            if not ok:
                rep.violation(rid, '%s:read_at' % rid, b.where(dbi),
                              'read_at: the bytes credited beyond the clamped length of a read crossing the end are not '
                              'guarded by is_back_file(): the top device must return the clamped count and only a '
                              'backing device reports (zero-filled) bytes beyond its end')
    rep.floor('beyond-the-end credit definitions', n, 1)


def _collect_addends(b, defs, l, out, depth):
    if depth > 6:
        return
    for d in defs.get(l, []):
        if d[0] != 'st':
            continue
        rv = b.blocks[d[1]]['st'][d[2]]['rv']
        if rv['k'] == 'bin' and rv.get('op', '').startswith('Add'):
            for o in rv['ops']:
                if o['k'] in ('copy', 'move'):
                    out.add(o['pl']['l'])
                    _collect_addends(b, defs, o['pl']['l'], out, depth + 1)
        elif rv['k'] == 'use' and rv['ops'][0]['k'] in ('copy', 'move'):
            _collect_addends(b, defs, rv['ops'][0]['pl']['l'], out, depth + 1)


def vs(d):
    return any(x == ('field', 'virtual_size') or (x[0] == 'fn' and x[1].endswith('virtual_size')) for x in d)


def bs(d):
    return ('field', 'block_size_shift') in d or any(x[0] == 'fn' and x[1].endswith(('Qcow2Info::block_size', 'get_bs_bits')) for x in d)


def ro(d):
    return any(x[0] == 'fn' and x[1].endswith('is_read_only') for x in d)


def flag_word_rule(f, rep, rid):
    """The flag word Qcow2Info::new builds makes each device-kind predicate answer what the constructor was told:
    evaluated (engine F, the three inputs forced) for every reachable combination of (read-only, header names a
    backing file, this is a backing device); the predicates are evaluated on the resulting constant by the bit
    evaluator's single-bit table.  A device opened read-only that forgets the read-only bit accepts write_at and
    discard (C13) and sends modifying requests to its file (C10)."""
    from ..absint import AbsInt
    from ..bitsem import Evaluator
    from . import c09, c14
    rep.rule(rid, 'for every combination of (read-only, backing file named, backing device) the flag word built by Qcow2Info::new '
                  'makes is_read_only / has_back_file / is_back_file answer exactly that combination')
    path = 'dev::info::Qcow2Info::new'
    b = f.body(path)
    if b is None:
        raise AnalysisError('Qcow2Info::new not found')
    ev = Evaluator(f)
    bits = {p: set(c09.flag_bits(f, ev, p)[0]) for p in ('is_read_only', 'has_back_file', 'is_back_file')}
    inf = c14.adt_fields(f, 'dev::info::Qcow2Info')
    n = 0
    for ro in (0, 1):
        for has in (0, 1):
            for isb in (0, 1):
                ai = AbsInt(f)
                got = []
                seen = set()

                def hk(val, tag):
                    def h(ai_, st, frame, b_, bi, t, args):
                        seen.add(tag)
                        return val
                    return h
                ai.hooks['Qcow2DevParams::is_read_only'] = hk(('c', ro), 'ro')
                ai.hooks['Qcow2DevParams::is_backing_dev'] = hk(('c', isb), 'isb')
                ai.hooks['Qcow2Header::backing_filename'] = hk(('opt', 'Option', ('u', ('backing name',), None), ('c', has)), 'has')

                def on_stmt(ai_, st, frame, b_, bi, si, s, v):
                    if b_.path == path and v[0] == 'agg' and v[1] == 'dev::info::Qcow2Info':
                        got.append((st.copy(), v))
                ai.stmt_hook = on_stmt
                ai.analyze(path)
                if not got and isb and not ro:
                    continue        # the constructor asserts that a backing device is read-only
                if seen != {'ro', 'isb', 'has'}:
                    raise AnalysisError('Qcow2Info::new: device-kind inputs not found (%s seen): the rule no longer sees '
                                        'how the flag word is built' % sorted(seen))
                if not got:
                    raise AnalysisError('Qcow2Info::new builds no Qcow2Info for ro=%d backing-name=%d backing-dev=%d' % (ro, has, isb))
                st, v = got[-1]
                iv = ai.itvof(st, v[3][inf['flags'][0]])
                n += 1
                site = 'ro=%d backing-name=%d backing-dev=%d' % (ro, has, isb)
                if iv is None or iv[0] != iv[1]:
                    rep.note_undecided(rid, site, 'flag word is not a constant: %r' % (iv,))
                    raise AnalysisError('Qcow2Info::new: flag word not decided for %s' % site)
                w = iv[0]
                wbits = {k for k in range(64) if (w >> k) & 1}
                want = {'is_read_only': bool(ro), 'has_back_file': bool(has), 'is_back_file': bool(isb)}
                for p, exp in want.items():
                    ans = bool(bits[p] & wbits)
                    ok = ans == exp
                    rep.ob(rid, '%s: %s' % (site, p), ok, 'flag word %#x -> %s, expected %s' % (w, ans, exp))
                    if not ok:
                        rep.violation(rid, '%s:%s:%s' % (rid, p, 'lost' if exp else 'spurious'), b.where(0),
                                      'Qcow2Info::new builds the flag word %#x for a device with %s: %s() answers %s. %s' % (
                                          w, site, p, ans,
                                          'A device opened read-only that is not recognised as such accepts write_at / discard and sends '
                                          'write, zeroing and punch requests to its file' if p == 'is_read_only' and exp else
                                          'The validation and the read / discard paths take the device for another kind'))
    rep.floor('device-kind combinations evaluated through Qcow2Info::new', n, 6)


def decrement_rule(f, P, rep, rid):
    """`x - c` with a constant c on a value that comes from the arguments (a length minus one, an end minus one) is only
    safe where x >= c is known at that point: after a clamp or a rounding the zero-length check made on the raw argument
    says nothing any more.  Decided by engine F (intervals and order facts, refinement at the validation checks) for every
    such subtraction in the bodies that validate read_at / write_at / discard."""
    from ..absint import AbsInt
    rep.rule(rid, 'every subtraction of a constant from an argument-derived value in the validating bodies of read_at / write_at / '
                  'discard is proved not to underflow at that point (interval analysis with the validation checks as refinements)')
    n = 0
    for name in ('read_at', 'write_at', 'discard'):
        b = validation_body(f, P, name)
        ai = AbsInt(f)
        ai.analyze(b.path)
        for key, o in sorted(ai.obl.items(), key=lambda kv: (kv[1].where, kv[0][1])):
            if o.fn != b.path or o.kind != 'assert:Overflow':
                continue
            t = b.blocks[o.bi]['term']
            msg = t.get('msg', '')
            if not msg.startswith('Overflow(Sub'):
                continue
            # the subtrahend is a constant
            ops = None
            for s in b.blocks[o.bi]['st']:
                if s['k'] == 'assign' and s['rv']['k'] == 'bin' and s['rv'].get('op', '').startswith('Sub'):
                    ops = s['rv']['ops']
            if not ops or ops[1]['k'] != 'const':
                continue
            n += 1
            rep.ob(rid, '%s: %s at %s' % (name, msg.split(',')[0] + ', const)', o.where), o.ok, str(o.detail)[:160])
            if not o.ok:
                rep.violation(rid, '%s:%s:%s' % (rid, name, short(b.path)), o.where,
                              '%s: the subtraction of a constant at %s is not protected: its operand can be %s there (it is computed '
                              'after the zero-length / bounds checks, e.g. clamped to the end of the image and rounded down to a block), so '
                              'a valid request panics with an arithmetic underflow instead of returning the documented count' % (
                                  name, o.where, str(o.detail).split(';')[-1].strip()[:80]))
    rep.floor('constant decrements in the validating bodies', n, 1)

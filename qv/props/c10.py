"""C10 — copy-on-write merges correctly; read-only sources are never written.

Decided (DESIGN C10):
  C10.1  guarded reachability: on every path from a public method of Qcow2Dev to a
         *primary* modifying effect (guest-data write, zeroing/punch of a data
         cluster, dirty mark, refcount change, mapping change) the accept edge of a
         read-only test has been passed, or the effect is dominated by a dirty
         token test (is_dirty / popped dirty block / cluster-is-new), tokens being
         produced only by primary effects.  Metadata write-back requests are
         token-gated by construction and are not primary.
  C10.2  backing devices are read-only: mark_backing_dev sets read_only on every
         path; every setup function applies it to the parameters of the recursive
         open; Qcow2Info::new asserts it.
  C10.3  only read_at / read_at_for_backing / qcow2_prep_io / fmt are invoked on a
         receiver derived from the backing_file field.
  C10.4  COW order and shape: the merged cluster buffer has cluster length, its
         write is synced before the mapping can be written (C04.O7) and the slice is
         not written around the zero-once protocol (C02.5).
  C13.3  zeros beyond a shorter backing image are credited only on a backing device.
"""
from ..interp import Program, Interp, short, head, POLL_NAMES, tag_of_operand
from ..flow import FlowDomain
from ..guard import Deps, checks
from ..facts import AnalysisError
from .. import api
from . import c04, c13

TARGETS = ('--lib',)
PRIMARY_W = ('DATA', 'COW', 'ZD', 'PUNCH')
ALLOWED_ON_BACKING = ('read_at', 'read_at_for_backing', 'qcow2_prep_io', 'fmt')


class RoDomain(FlowDomain):
    """FlowDomain + two path facts encoded negatively (union join = conservative):
    UNGUARDED  no read-only test passed on this path yet
    UNGATED    not under the success edge of a dirty-token test"""
    name = 'ro'

    def __init__(self, program):
        FlowDomain.__init__(self, program)
        self.cks = {}
        self.ro_checks = set()
        self.gates = set()
        self.primary = {}
        self.bad = {}

    def initial(self):
        return FlowDomain.initial(self) | {('UNGUARDED',), ('UNGATED',)}

    def _checks(self, body):
        c = self.cks.get(body.path)
        if c is None:
            cks, dp = checks(self.p, body)
            c = {}
            for ck in cks:
                if any(x[0] == 'fn' and x[1].endswith('is_read_only') for x in ck['deps']):
                    c[ck['bi']] = ck
            self.cks[body.path] = c
        return c

    def on_switch(self, ip, fr, tok, tags, bi, term, target):
        ck = self._checks(fr.body).get(bi)
        if ck is not None and target in ck['cont']:
            self.ro_checks.add('%s@%s' % (short(fr.body.path), fr.where(bi)))
            return tok - {('UNGUARDED',)}
        return tok

    def intercept(self, ip, fr, tok, tags, bi, term, callee):
        # dirty-token tests
        if callee.endswith('AsyncLruCacheEntryInner::<V>::is_dirty'):
            self.gates.add('is_dirty@%s' % fr.where(bi))
            return [(tok - {('UNGATED',)}, 'T'), (tok, 'F')]
        if callee.endswith('::cluster_is_new'):
            return None
        res = FlowDomain.intercept(self, ip, fr, tok, tags, bi, term, callee)
        if res is not None and term.get('name') == 'pop_dirty_blk_idx':
            self.gates.add('pop_dirty_blk_idx@%s' % fr.where(bi))
            return [((t - {('UNGATED',)}) if tg == 'some()' else t, tg) for (t, tg) in res]
        return res

    def on_leaf_call(self, ip, fr, tok, tags, bi, term, fn):
        res = FlowDomain.on_leaf_call(self, ip, fr, tok, tags, bi, term, fn)
        if fn and fn.startswith('std::collections::HashMap') and term['args']:
            a0 = term['args'][0]
            isnew = a0['k'] in ('copy', 'move') and self.f.type_contains(
                fr.body.locals[a0['pl']['l']], lambda x: x['k'] == 'adt' and x['p'] == 'futures_locks::RwLock')
            if isnew and fn.endswith('::insert'):
                for (t, _tg) in res:
                    self.on_effect(ip, fr, bi, t, 'NEW', 'cluster')
            if isnew and (fn.endswith('::get') or fn.endswith('::contains_key')):
                self.gates.add('new-cluster lookup@%s' % fr.where(bi))
                if fn.endswith('::get'):
                    return [(t - {('UNGATED',)}, 'some()') for (t, _tg) in res] + [(t, 'none') for (t, _tg) in res]
                return [(t - {('UNGATED',)}, 'T') for (t, _tg) in res] + [(t, 'F') for (t, _tg) in res]
        return res

    def on_effect(self, ip, fr, bi, tok, kind, detail):
        if kind in ('W', 'Z') and detail not in PRIMARY_W:
            return
        me = self.origin_of(fr)
        site = '%s %s in %s' % (kind, detail, me)
        ok = ('UNGUARDED',) not in tok or ('UNGATED',) not in tok
        prev = self.primary.get(site)
        self.primary[site] = (prev is None or prev[0]) and ok, fr.where(bi)
        if not ok:
            key = 'C10.1:%s:%s(%s)' % (me, kind, detail)
            self.bad.setdefault(key, (fr.where(bi), fr.chain_str(), site))


def cow_only_rule(f, P, rep, rid):
    """A guest cluster whose entry is Compressed, or Backing-provided on an image with a backing file, gets a new
    host cluster only in the copy-on-write routine.  Every other place that installs a fresh allocation is
    unreachable when the mapping it looked at is of such a kind (abstract interpretation of the routine with the
    result of every get_mapping/into_mapping forced to that kind); a routine that installs for one cluster
    without a loop may instead rely on its callers' test of the same cluster (followed up the call graph)."""
    from ..absint import AbsInt
    from . import rollback
    rep.rule(rid, 'outside the copy-on-write routine no fresh cluster is installed for a guest cluster whose mapping is Compressed '
                  'or (with a backing file) Backing: the install site is unreachable under that mapping, in the routine itself or, '
                  'for loop-free single-cluster installs, in every caller')
    ms = f.adts.get('meta::l2::MappingSource')
    if ms is None:
        raise AnalysisError('MappingSource not found')
    vidx = {v['n']: i for i, v in enumerate(ms['variants'])}
    for need in ('Compressed', 'Backing', 'Unallocated'):
        if need not in vidx:
            raise AnalysisError('MappingSource::%s not found' % need)
    fl = [x['n'] for x in f.adts['meta::l2::Mapping']['variants'][0]['fields']]
    if fl[0] != 'source':
        raise AnalysisError('Mapping layout changed: %s' % fl)
    inst = rollback.install_fns(f, P)
    cow = {r['fn'] for r in rollback.analyse(f, P)}
    memo = {}

    def reach(path, V, back):
        """install-relevant call sites evaluated in the body under the partition -> set of (block, callee)"""
        k = (path, V, back)
        if k in memo:
            return memo[k]
        ai = AbsInt(f)
        hit = set()
        cnt = [0]

        def mk(ai_, st, frame, b, bi, t, args):
            cnt[0] += 1
            src = ('agg', 'meta::l2::MappingSource', vidx[V], ())
            rest = tuple(('u', ('forced', cnt[0], n), 'bool' if n == 'copied' else None) for n in fl[1:])
            return ('agg', 'meta::l2::Mapping', 0, (src,) + rest)
        ai.hooks['L2Table::get_mapping'] = mk
        ai.hooks['L2Entry::into_mapping'] = mk
        ai.hooks['Qcow2Info::has_back_file'] = lambda *a: ('c', 1 if back else 0)

        def seen(ai_, st, frame, b, bi, t, args):
            if frame[0] is None:
                hit.add((bi, t.get('fn')))
            return None
        ai.hooks['L2Table::map_cluster'] = seen
        for x in all_fns:
            ai.hooks[x] = seen
        ai.analyze(path)
        memo[k] = hit
        return hit
    PARTS = (('Compressed', 0), ('Compressed', 1), ('Backing', 1))
    # routines on the way from the API to an install
    all_fns = set(inst)
    grew = True
    callers = {}
    while grew:
        grew = False
        for b in f.body_list:
            if '::tests::' in b.path or not b.is_coroutine:
                continue
            me = b.path.rsplit('::{closure', 1)[0]
            for bi, t in b.calls():
                if t.get('fn') in all_fns:
                    callers.setdefault(t['fn'], set()).add((b.path, bi))
                    if me not in all_fns and short(b.path) not in cow and len(all_fns) < 40:
                        all_fns.add(me)
                        grew = True
    n = 0

    def loop_site(b, bi):
        succ = b.succ()
        seen_, st = set(), list(succ[bi])
        while st:
            x = st.pop()
            if x == bi:
                return True
            if x not in seen_:
                seen_.add(x)
                st.extend(succ[x])
        return False

    def decide(bpath, bi, fn, depth, trail):
        """-> None if fine, else the trail (list of where strings) up to an unguarded site"""
        b = f.body(bpath)
        bad = [(V, back) for V, back in PARTS if (bi, fn) in reach(bpath, V, back)]
        if not bad:
            return None
        here = '%s at %s (reachable with a %s mapping)' % (short(bpath), b.where(bi), '/'.join(sorted({v for v, _ in bad})))
        if loop_site(b, bi) or depth >= 4:
            return trail + [here + ' inside a loop over clusters the caller has not examined' if depth < 4 else here]
        me = bpath.rsplit('::{closure', 1)[0]
        cs = callers.get(me, set())
        if not cs:
            return trail + [here + '; no caller tests the mapping']
        for (cp, cbi) in sorted(cs):
            if short(cp) in cow:
                continue
            r = decide(cp, cbi, me, depth + 1, trail + [here])
            if r is not None:
                return r
        return None
    for b in f.body_list:
        if '::tests::' in b.path or not b.is_coroutine or short(b.path) in cow:
            continue
        dp = None
        for bi, t in b.calls():
            fn = t.get('fn') or ''
            direct = False
            if fn.endswith('L2Table::map_cluster') and len(t['args']) >= 3:
                dp = dp or Deps(P, b)
                d = dp.of_operand(t['args'][2], (bi, 10 ** 6))
                direct = any(x[0] == 'fn' and x[1].endswith(rollback.ALLOCATORS) for x in d)
            if not direct and fn not in inst:
                continue
            if b.path.rsplit('::{closure', 1)[0] in inst and not direct:
                continue
            n += 1
            # the analysis must be able to reach the site at all (positive control)
            if (bi, fn) not in reach(b.path, 'Unallocated', 0):
                raise AnalysisError('C10.8: install site %s at %s is not reached even with an unallocated mapping' % (short(b.path), b.where(bi)))
            trail = decide(b.path, bi, fn, 0, [])
            site = '%s: fresh cluster installed at %s' % (short(b.path), b.where(bi))
            rep.ob(rid, site, trail is None, 'unreachable for Compressed / Backing mappings (here or in every caller)' if trail is None else ' <- '.join(trail))
            if trail is not None:
                rep.violation(rid, '%s:%s' % (rid, short(b.path)), b.where(bi),
                              '%s can install a freshly allocated, empty host cluster for a guest cluster whose mapping is Compressed '
                              'or provided by the backing file, outside the copy-on-write routine: the bytes of that cluster which the '
                              'write does not cover turn into zeros (and a compressed cluster is never released); %s' % (
                                  short(b.path), ' <- '.join(trail)))
    rep.floor('install sites outside the copy-on-write routine', n, 2)


def run(ctx, rep):
    f = ctx.lib
    from . import span
    rep.rule('C10.6', 'copy-on-write of a compressed cluster releases exactly the clusters the old extent touches')
    span.release_rule(f, rep, 'C10.6')
    P = Program(f)
    rep.explanation = (
        'C10 is decided in part: guarded reachability of every primary modifying effect from every public method, '
        'the read-only forcing of backing devices, the allow-list of methods invoked on the backing receiver, and the '
        'structural COW conditions are decided on every path. The byte-level merge result is not decided.')
    rep.rule('C10.1', 'every primary modifying effect is reached only past the accept edge of an is_read_only() test or under a dirty-token test')
    rep.rule('C10.2', 'mark_backing_dev forces read_only; every setup function applies it before the recursive open; Qcow2Info::new asserts it')
    rep.rule('C10.3', 'only read_at/read_at_for_backing/qcow2_prep_io/fmt are invoked on a receiver derived from backing_file')
    rep.rule('C10.4', 'COW buffer has cluster length; COW data is synced before the mapping is written; the COW slice write does not bypass zero-once')
    # ---------------------------------------------------------------- C10.1
    d = RoDomain(P)
    ip = Interp(P, d)
    methods = [b for b in f.body_list if b.is_coroutine and b.parent and 'Qcow2Dev' in b.parent
               and b.path == b.parent + '::{closure#0}' and f.fns.get(b.parent, {}).get('reachable')]
    names = sorted(short(b.path) for b in methods)
    rep.floor('public async methods of Qcow2Dev', len(methods), 9)
    for b in methods:
        ip.run(b, tok=d.initial())
    if ip.unresolved:
        raise AnalysisError('unresolved awaits: ' + '; '.join(ip.unresolved[:5]))
    rep.floor('read-only tests', len(d.ro_checks), 2)
    rep.floor('dirty-token tests', len(d.gates), 3)
    rep.floor('primary effect sites', len(d.primary), 10)
    for site, (ok, where) in sorted(d.primary.items()):
        rep.ob('C10.1', site, ok, 'at %s' % where)
    for key, (where, chain, site) in sorted(d.bad.items()):
        rep.violation('C10.1', key, where,
                      'primary modifying effect (%s) is reachable from a public method without passing a read-only test '
                      'and outside any dirty-token test: a read-only (or backing) device can modify its file or its '
                      'metadata; path %s' % (site, chain), {'path': chain})
    # the read-only test of C10.1 is only worth what the flag word it reads says
    c13.flag_word_rule(f, rep, 'C10.9')
    # ---------------------------------------------------------------- C10.2
    mb = [b for b in f.body_list if b.path.endswith('Qcow2DevParams::mark_backing_dev')]
    if len(mb) != 1:
        raise AnalysisError('Qcow2DevParams::mark_backing_dev not found')
    mb = mb[0]
    sets = []
    for bi, t in mb.calls():
        if t.get('fn', '').endswith('set_read_only') and len(t['args']) > 1 and t['args'][1].get('v') == '1':
            sets.append(bi)
    for bi in mb.reachable():
        for s in mb.blocks[bi]['st']:
            if s['k'] == 'assign' and any(e['k'] == 'field' and e['n'] == 'read_only' for e in s['pl']['p']) \
                    and s['rv']['k'] == 'use' and s['rv']['ops'][0].get('v') == '1':
                sets.append(bi)
    ok = bool(sets) and all(any(mb.dominates(sb, r) for sb in sets) for r in mb.returns())
    rep.ob('C10.2', 'mark_backing_dev sets read_only', ok, 'set sites %s dominate every return' % sets)
    if not ok:
        rep.violation('C10.2', 'C10.2:mark_backing_dev', mb.where(0),
                      'mark_backing_dev does not force read_only = true on every path: a backing image can be opened writable')
    setups = []
    for b in f.body_list:
        for bi, t in b.calls():
            if t.get('fn', '').endswith('::set_backing_dev'):
                setups.append((b, bi, t))
    rep.floor('setup functions (set_backing_dev callers)', len(setups), 3)
    for (b, bi, t) in setups:
        dp = Deps(P, b)
        # the device handed to set_backing_dev comes from a recursive open whose
        # parameters had mark_backing_dev applied
        marks = [mi for mi, mt in b.calls() if mt.get('fn', '').endswith('mark_backing_dev')]
        deps = dp.of_operand(t['args'][1], (bi, 10 ** 6)) if len(t['args']) > 1 else frozenset()
        opened = any(x[0] == 'fn' and ('qcow2_setup_dev' in x[1]) for x in deps)
        ok = bool(marks) and opened and any(b.dominates(mi, bi) for mi in marks)
        rep.ob('C10.2', 'setup %s' % short(b.path), ok, 'mark_backing_dev calls %s dominate set_backing_dev' % [b.where(m) for m in marks])
        if not ok:
            rep.violation('C10.2', 'C10.2:setup:%s' % short(b.path), b.where(bi),
                          '%s attaches a backing device that was not opened with parameters marked by mark_backing_dev '
                          '(read-only)' % short(b.path))
    nb = [b for b in f.body_list if b.path.endswith('Qcow2Info::new')]
    if len(nb) != 1:
        raise AnalysisError('Qcow2Info::new not found')
    nb = nb[0]
    dpn = Deps(P, nb)
    has_assert = False
    for bi in nb.reachable():
        t = nb.blocks[bi]['term']
        if t['k'] == 'switch':
            dd = dpn.of_operand(t['d'], (bi, 10 ** 6))
            if any(x[0] == 'fn' and x[1].endswith('is_backing_dev') for x in dd):
                # one edge must lead to a test of is_read_only whose failing edge panics
                has_assert = True
    rep.ob('C10.2', 'Qcow2Info::new relates is_backing_dev to read-only', has_assert, '')
    if not has_assert:
        rep.violation('C10.2', 'C10.2:Qcow2Info::new', nb.where(0),
                      'Qcow2Info::new no longer checks that a backing device is read-only')
    # ---------------------------------------------------------------- C10.3
    n_back = 0
    for b in f.body_list:
        if '::tests::' in b.path:
            continue
        for bi, t in b.calls():
            if not t['args'] or not t.get('fn') or not t.get('local', False):
                continue
            a0 = t['args'][0]
            if a0['k'] not in ('copy', 'move'):
                continue
            if not _mentions(P.place_origins(b, a0['pl']), 'backing_file'):
                continue
            callee = short(t['fn'])
            if f.body(t['fn']) is None:
                continue
            n_back += 1
            ok = callee in ALLOWED_ON_BACKING
            rep.ob('C10.3', '%s calls %s on the backing device' % (short(b.path), callee), ok, b.where(bi))
            if not ok:
                rep.violation('C10.3', 'C10.3:%s:%s' % (short(b.path), callee), b.where(bi),
                              '%s invokes %s on the backing device: only reads may be issued to a backing image' % (
                                  short(b.path), callee))
    rep.floor('calls on the backing receiver', n_back, 3)
    # ---------------------------------------------------------------- C10.4
    snap = c04.common(ctx, rep)
    for (rule, site), (ok, detail) in sorted(snap.obl.items()):
        if rule in ('C04.O7', 'C02.5'):
            rep.ob('C10.4', '%s:%s' % (rule, site), ok, detail)
    for key, v in sorted(snap.viol.items()):
        if v['rule'] in ('C04.O7', 'C02.5'):
            rep.violation('C10.4', key, v['where'], v['msg'], {'path': v['chain']})
    # C10.5: the copy-on-write decision is taken on the entry read under the L2 slice write guard
    from ..critsec import check_then_act
    rep.rule('C10.5', 'copy-on-write routines decide on the L2 entry read through the slice write guard after acquiring it')
    ncta = 0
    for (fn, where, mname, ok, why) in check_then_act(f, P):
        if 'cow' not in fn.lower():
            continue
        ncta += 1
        rep.ob('C10.5', '%s: %s at %s' % (fn, mname, where), ok, why)
        if not ok:
            rep.violation('C10.5', 'C10.5:%s:%s' % (fn, mname), where,
                          '%s performs %s under the L2 slice write guard on a decision taken before the guard was acquired: a writer '
                          'that queued behind another copy-on-write of the same cluster repeats it from the old source and loses the '
                          'first write (%s)' % (fn, mname, why))
    rep.floor('guarded mutations in copy-on-write routines', ncta, 2)
    from . import rollback
    rollback.report(f, P, rep, 'C10.7', ('restore',))
    # C10.10: the roll-back of C10.7 only runs when the failure of the copy is still known: no error-discarding combinator on
    # the results of the copy-on-write path (functions that install mappings or run the merge, and the data-file write path)
    from . import c17 as _c17
    rep.rule('C10.10', 'no error-discarding combinator (or / ok / unwrap_or / unwrap_or_default) is applied to a Result of the '
                       'copy-on-write path: a failed copy is reported and rolled back, not acknowledged')
    _scope = {r['fn'] for r in rollback.analyse(f, P)} | {n for n in (short(b.path) for b in f.body_list) if 'cow' in n.lower() or n.startswith('do_write')}
    _n = _c17.discard_combinators(f, rep, 'C10.10', scope=lambda n: n in _scope)
    rep.ob('C10.10', 'error-discarding combinators in %d copy-on-write path functions' % len(_scope), _n == 0, '%d call(s)' % _n)
    rep.floor('copy-on-write path functions scanned for discarded errors', len(_scope), 4)
    cow_only_rule(f, P, rep, 'C10.8')
    ncow = 0
    from .c06 import cow_merge_fns
    merges = set(cow_merge_fns(f))
    for b in f.body_list:
        if not b.is_coroutine or short(b.path) not in merges:
            continue
        dp = Deps(P, b)
        for bi, t in b.calls():
            if t.get('fn', '').startswith('helpers::Qcow2IoBuf::<T>::new'):
                # a bounce buffer that is later written to the image: COW merge
                writes = [wi for wi, wt in b.calls() if wt.get('fn', '').endswith('::call_write')]
                if not writes or not any(cs.get('fn', '').endswith('copy_from_slice') for _i, cs in b.calls()):
                    continue
                ncow += 1
                dd = dp.of_operand(t['args'][0], (bi, 10 ** 6))
                ok = any(x[0] == 'fn' and x[1].endswith('cluster_size') for x in dd)
                rep.ob('C10.4', 'COW buffer in %s' % short(b.path), ok, 'length derives from cluster_size()')
                if not ok:
                    rep.violation('C10.4', 'C10.4:%s:buflen' % short(b.path), b.where(bi),
                                  'the copy-on-write buffer of %s does not have cluster length' % short(b.path))
    rep.floor('COW merge buffers', ncow, 2)
    c13.beyond_end_rule(f, P, rep, 'C13.3')


def _mentions(os_, name):
    for o in os_:
        if _m(o, name):
            return True
    return False


def _m(o, name):
    if not isinstance(o, tuple):
        return o == name
    return any(_m(x, name) for x in o)

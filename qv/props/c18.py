"""C18 — need_flush_meta() == false implies file and memory agree.

Decided (DESIGN C18): C18.1 every dirtying event (cache-entry dirty mark, top-table
dirty mark) is followed by need_flush := true before the task can suspend or the
operation returns; C18.2 need_flush := false is stored only at a point where both
top-table queues are drained and both caches were swept (no RAM-dirty kind can
remain), so it is never cleared on an early or failing path.
Not decided: the interleaving of a concurrent dirtier with the final pass of a flush
(the flag is cleared after awaits of that pass; see DESIGN).
"""
from . import c04

TARGETS = ('--lib',)


def run(ctx, rep):
    rep.explanation = (
        'C18 is decided in part: the two structural halves of the flag protocol (set adjacent to every dirtying event; '
        'cleared only where the engine can show nothing is RAM-dirty) are decided on every path. Agreement of file and '
        'memory, and the race of a concurrent dirtier with the last pass of an overlapping flush, are not decided.')
    rep.rule('C18.1', 'no suspension point and no return between a dirtying event and the store need_flush := true')
    rep.rule('C18.2', 'need_flush := false only where no metadata kind can be dirty in RAM on any path reaching the store')
    d = c04.common(ctx, rep)
    sites = {}
    for (kind, where), info in d.sites.items():
        sites.setdefault(kind, {})[where] = info
    flags = sites.get('flag', {})
    rep.floor('need_flush stores', len(flags), 10)
    rep.floor('need_flush := false stores', len([1 for i in flags.values() if i['extra'] == 'F']), 1)
    rep.floor('dirtying events', len(sites.get('dirtyflag', {})) + len(sites.get('topdirty', {})), 11)
    bad_fns = {k.split(':', 1)[1] for k, v in d.viol.items() if v['rule'] == 'C18.1'}
    for kind in ('dirtyflag', 'topdirty'):
        for where, info in sorted(sites.get(kind, {}).items()):
            if kind == 'dirtyflag' and not info['extra'].endswith(' T'):
                continue
            rep.ob('C18.1', '%s@%s' % (info['fn'], where), info['fn'] not in bad_fns, 'dirtying event (%s)' % kind)
    for (rule, site), (ok, detail) in sorted(d.obl.items()):
        if rule == 'C18.2':
            rep.ob(rule, site, ok, detail)
    c04.phase(d, rep, 'C18.3')
    for key, v in sorted(d.viol.items()):
        if v['rule'] in ('C18.1', 'C18.2'):
            rep.violation(v['rule'], key, v['where'], v['msg'], {'path': v['chain']})

"""C18 — need_flush_meta() == false implies file and memory agree.

Decided (DESIGN C18): C18.1 every dirtying event (cache-entry dirty mark, top-table
dirty mark) is followed by need_flush := true before the task can suspend or the
operation returns; C18.2 a function that stores need_flush := false starts, on every
path to an Ok return, a complete sweep of every metadata kind after the store, and
raises the flag again (a store whose value is true on that path) before every error
return - with and without backend faults.
Not decided: agreement of file and memory as such (value level).
"""
from . import c04

TARGETS = ('--lib',)


def run(ctx, rep):
    rep.explanation = (
        'C18 is decided in part: the two structural halves of the flag protocol (raised adjacent to every dirtying event; '
        'lowered only before complete sweeps and raised again on every failing path) are decided on every path, with and '
        'without backend faults. Agreement of file and memory as such is not decided (value level).')
    rep.rule('C18.1', 'no suspension point and no return between a dirtying event and the store need_flush := true')
    rep.rule('C18.2', 'a function that stores need_flush := false starts a complete sweep of every metadata kind after the store on '
                      'every path to an Ok return, and stores true again before every error return (fault-free and fault-injected paths)')
    d = c04.common(ctx, rep)
    sites = {}
    for (kind, where), info in d.sites.items():
        sites.setdefault(kind, {})[where] = info
    flags = sites.get('flag', {})
    rep.floor('need_flush stores', len(flags), 10)
    rep.floor('need_flush := false stores', len([1 for i in flags.values() if i['extra'] == 'F']), 1)
    rep.floor('dirtying events', len(sites.get('dirtyflag', {})) + len(sites.get('topdirty', {})), 11)
    bad_fns = {k.split(':', 1)[1] for k, v in d.viol.items() if v['rule'] == 'C18.1'}
    for kind in ('dirtyflag', 'topdirty'):
        for where, info in sorted(sites.get(kind, {}).items()):
            if kind == 'dirtyflag' and not info['extra'].endswith(' T'):
                continue
            rep.ob('C18.1', '%s@%s' % (info['fn'], where), info['fn'] not in bad_fns, 'dirtying event (%s)' % kind)
    for (rule, site), (ok, detail) in sorted(d.obl.items()):
        if rule == 'C18.2':
            rep.ob(rule, site, ok, detail)
    c04.phase(d, rep, 'C18.3')
    from . import c02
    c02.drop_rule(ctx.lib, rep, 'C18.4', 'unused')
    # a dirty entry dropped silently: the next flush finds nothing, lowers the flag and the file never receives the update
    c02.drop_rule(ctx.lib, rep, 'C18.5')
    # error returns are only reachable with backend faults: the same rule on the fault-injected closure
    fd = c04.closure_cached(ctx.lib, faults=True)
    for (rule, site), (ok, detail) in sorted(fd.obl.items()):
        if rule == 'C18.2' and (rule, site) not in d.obl:
            rep.ob(rule, site + ' [faults]', ok, detail)
    seen = set()
    for src in (d, fd):
        for key, v in sorted(src.viol.items()):
            if v['rule'] in ('C18.1', 'C18.2') and key not in seen:
                seen.add(key)
                rep.violation(v['rule'], key, v['where'], v['msg'], {'path': v['chain']})

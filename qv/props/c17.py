"""C17 — backend errors are reported and recoverable by retrying the flush.

Decided (DESIGN C17), in the *fault model* (every backend request may fail):
C17.1 no Result<_, Qcow2Error> produced by a call or an await is dropped unseen;
C17.2 restore on error: a dirty flag cleared / a dirty block index popped before
the write it describes is set / queued again on every path that returns an error,
and evicted dirty slices are not dropped on a failing write-back;
C17.3 a failed header write runs the rollback before the error is returned, and a
failed zero/punch request is replaced by a zero write of the same range before
the wrapper returns Ok; C02.4 (no flag cleared without a write) on error paths.
"""
from ..errs import dropped_results
from ..interp import short
from ..interp import Program as _Prog7
from . import c04

TARGETS = ('--lib',)


def run(ctx, rep):
    f = ctx.lib
    rep.explanation = (
        'C17 is decided in part: error-value discipline and the restore/undo obligations on error edges are decided '
        'on every path with every backend request allowed to fail. The state reached after retries is not decided.')
    rep.rule('C17.1', 'every Result<_, Qcow2Error> (or Vec/tuple of them) coming out of a call or an await reaches ?, a '
                      'match, is_err/is_ok, the return value or another call')
    rep.rule('C17.2', 'dirty flag cleared / dirty block popped before the write => set / queued again on every error exit; '
                      'evicted dirty slices are written back or kept on every exit')
    rep.rule('C17.3', 'failed header write => rollback closure runs; failed zero/punch => zero write before Ok')
    rep.rule('C02.4', 'no dirty flag is cleared on a path on which the slice is not written')
    rep.rule('C17.6', 'a cache is shrunk only behind the Ok outcome of flush_meta() (a slice whose write failed is clean in RAM and must stay cached for the retry)')
    rep.assume('fault model: every backend request (read, write, zero/punch, fsync) may return an error')
    # C17.1
    n_calls = 0
    from .. import errs as _e
    _e.EXAMINED[0] = 0
    for b in f.body_list:
        if '::tests::' in b.path:
            continue
        n_calls += len(b.calls())
        for bi, what in dropped_results(f, b):
            fn = short(b.path)
            rep.ob('C17.1', '%s@%s' % (fn, b.where(bi)), False, what)
            rep.violation('C17.1', 'C17.1:%s:%s' % (fn, 'JoinAll' if 'JoinAll' in what else what.split('<')[0][-40:]),
                          b.where(bi), 'the result of `%s` in %s is dropped without being looked at: a backend error '
                          'is lost and the operation continues as if the request had succeeded' % (what[:140], fn))
    nd = discard_combinators(f, rep, 'C17.1')
    swallowed_arm_rule(f, rep, 'C17.8')
    rep.ob('C17.1', 'error-discarding combinators (or / ok / unwrap_or / unwrap_or_default) on Qcow2 results', nd == 0, '%d call(s)' % nd)
    rep.floor('call sites scanned for dropped results', n_calls, 3000)
    from .. import errs
    rep.floor('result-producing calls/awaits whose def-use closure was followed', errs.EXAMINED[0], 150)
    rep.ob('C17.1', 'all other result-producing calls (%d)' % errs.EXAMINED[0], True, 'def-use closure reaches a consuming use')
    # fault-model flow
    d = c04.closure_cached(f, faults=True)
    rep.count('units analysed (fault model)', d.units)
    mine = ('C17.2', 'C17.3', 'C17.6', 'C02.4')
    for (rule, site), (ok, detail) in sorted(d.obl.items()):
        if rule in mine:
            if rule == 'C17.6' and not ok and not any(v['rule'] == 'C17.2' and k.endswith(':slice') for k, v in d.viol.items()):
                ok, detail = True, detail + ' (no slice is left clean and unwritten by a failed flush, so the position of the shrink is immaterial)'
            rep.ob(rule, site, ok, detail)
    sites = {}
    for (kind, where), info in d.sites.items():
        sites.setdefault(kind, {})[where] = info
    cleared = [w for w, i in sites.get('dirtyflag', {}).items() if i['extra'].endswith(' F')]
    rep.floor('dirty flag clears', len(cleared), 2)
    rep.floor('cache shrink sites', len([1 for (r, _s) in d.obl if r == 'C17.6']), 1)
    bad = {k for k, v in d.viol.items() if v['rule'] in mine}
    for w in sorted(cleared):
        fn = sites['dirtyflag'][w]['fn']
        rep.ob('C17.2', 'clear@%s@%s' % (fn, w), not any(fn in k for k in bad), 'dirty flag cleared')
    # C17.6 matters only while a failed slice write leaves the slice clean in RAM (the C17.2 ':slice' finding): were the flag
    # raised again on the error path, shrink() could not drop an unwritten slice and its position would not matter
    stale_clean = any(v['rule'] == 'C17.2' and k.endswith(':slice') for k, v in d.viol.items())
    for key, v in sorted(d.viol.items()):
        if v['rule'] == 'C17.6' and not stale_clean:
            continue
        if v['rule'] in mine:
            rep.violation(v['rule'], key, v['where'], v['msg'], {'path': v['chain']})
    # C17.7: table writes whose dirty flags are already cleared are driven to completion
    rep.rule('C17.7', 'no combinator that drops its unfinished members on the first error (try_join_all, try_join, select, '
                      'abortable) is applied to futures that write cached tables: their flags are cleared before the write, so '
                      'a cancelled member is clean in RAM and never written')
    from ..interp import SHORT_CIRCUIT_FUTS, POLL_NAMES
    P7 = _Prog7(f)
    from ..flow import FlowDomain as _FD7
    fd7 = _FD7(P7)
    npoll = 0
    for b in f.body_list:
        if '::tests::' in b.path or not b.is_coroutine:
            continue
        for bi, t in b.calls():
            if t.get('fn') not in POLL_NAMES or not t.get('a'):
                continue
            npoll += 1
            for _tid, ty in f.walk_type(t['a'][0]):
                if ty['k'] == 'adt' and ty['p'] in SHORT_CIRCUIT_FUTS:
                    members = []
                    for a_ in ty.get('a', []):
                        members += [fu.path for fu in P7.futs(a_, ()) if fu.kind == 'async_fn']
                    hit = sorted({short(m) for m in members if fd7._table_writer_future(m)})
                    me = short(b.path)
                    rep.ob('C17.7', '%s@%s %s' % (me, b.where(bi), ty['p'].split('::')[-1]), not (hit and stale_clean),
                           'members: %s' % sorted({short(m) for m in members}))
                    if hit and stale_clean:
                        rep.violation('C17.7', 'C17.7:%s:%s' % (me, ty['p'].split('::')[-1]), b.where(bi),
                                      '%s awaits %s over futures of %s: when one member fails the unfinished ones are dropped, '
                                      'i.e. their table writes are never issued, while the dirty flags of those tables were '
                                      'cleared before the writes were created - the tables are clean in RAM, unwritten, and a '
                                      'retried flush_meta() skips them' % (me, ty['p'].split('::')[-1], hit))
    rep.floor('awaits examined for short-circuiting combinators', npoll, 150)
    rep.ob('C17.7', 'all awaits (%d)' % npoll, True, 'examined for short-circuiting combinators over table writes')
    # C17.4: no step that can fail lies between the release of a cluster and the removal of the mapping it was taken from
    rep.rule('C17.4', 'a cluster taken from a live mapping is released only after the mapping was changed (an error in between leaves a mapped cluster without refcount)')
    live = [(k, v) for k, v in d.viol.items() if v['rule'] == 'C04.O4' and ':LIVE(' in k]
    rep.ob('C17.4', 'releases of clusters taken from live mappings', not live, '%d release(s) precede the unmapping' % len(live) if live else 'every such release follows the unmapping')
    for k, v in sorted(live):
        rep.violation('C17.4', k.replace('C04.O4', 'C17.4'), v['where'], v['msg'], {'path': v['chain']})
    from . import rollback
    from ..interp import Program as _Prog
    rollback.report(ctx.lib, _Prog(ctx.lib), rep, 'C17.5', ('restore', 'release'))


def discard_combinators(f, rep, rid, scope=None):
    """combinators that throw the error of a Result<_, Qcow2Error> away (`or`, `ok`, `unwrap_or`, `unwrap_or_default`) in
    asynchronous code; scope: optional predicate on the short function name"""
    from ..errs import is_result_ty
    DISCARD = {'Result::<T, E>::or': 1, 'Result::<T, E>::ok': 0, 'Result::<T, E>::unwrap_or': 0,
               'Result::<T, E>::unwrap_or_default': 0}
    nd = 0
    for b in f.body_list:
        if '::tests::' in b.path:
            continue
        # backend errors only travel through asynchronous code (and closures defined inside it): a synchronous parser
        # that skips an unrecognised item with `.ok()` discards no storage error
        root = f.body(b.root) if getattr(b, 'root', None) else None
        asyncish = b.is_coroutine or '::{closure#0}::' in b.path or (root is not None and (root.is_coroutine or root.is_async_fn))
        if not asyncish:
            continue
        if scope is not None and not scope(short(b.path)):
            continue
        for bi, t in b.calls():
            fn = t.get('fn') or ''
            for suf, ai in DISCARD.items():
                if fn.endswith(suf) and ai < len(t['args']) and t['args'][ai]['k'] in ('copy', 'move'):
                    tid = b.locals[t['args'][ai]['pl']['l']]
                    if t['args'][ai]['pl']['p']:
                        continue
                    if is_result_ty(f, tid):
                        nd += 1
                        me = short(b.path)
                        rep.ob(rid, '%s@%s %s' % (me, b.where(bi), suf.split('::')[-1]), False, 'error-discarding combinator')
                        rep.violation(rid, '%s:%s:%s' % (rid, me, suf.split('::')[-1]), b.where(bi),
                                      '%s applies `%s` to a Result<_, Qcow2Error>: %s - a backend error is lost and the operation '
                                      'reports success' % (me, suf.split('::')[-1],
                                                           'when the receiver is Ok the argument is dropped with its error' if ai == 1 else 'the error is thrown away'))
    return nd


def swallowed_arm_rule(f, rep, rid):
    """A `match` on a Result<_, Qcow2Error> counts as "looked at" for C17.1.  This rule looks at what the Err arm does: an
    arm that never reads the error value and contains no call into the crate (no fallback, no roll-back, no replacement
    error built) only falls through to what follows - the failure is swallowed and the operation goes on to its Ok
    result.  Decided on the region of the control-flow graph the arm's entry block dominates."""
    rep.rule(rid, 'the Err arm of a decision on a Result<_, Qcow2Error> in asynchronous library code reads the error, or calls '
                  'something (fallback / roll-back / building another error): an arm that does neither swallows a backend failure')

    def direct_result(tid):
        t = f.types[tid]
        if t['k'] == 'adt' and t['p'] == 'std::result::Result' and len(t['a']) == 2:
            e = f.types[t['a'][1]] if t['a'][1] >= 0 else None
            return e is not None and e.get('p', '').endswith('Qcow2Error')
        return False
    n = 0
    for b in f.body_list:
        if '::tests::' in b.path or not b.is_coroutine or not b.path.startswith('dev::'):
            continue
        for bi in sorted(b.reachable()):
            t = b.blocks[bi]['term']
            if t['k'] != 'switch' or t['d']['k'] not in ('copy', 'move'):
                continue
            dl = t['d']['pl']['l']
            src = None
            for s in b.blocks[bi]['st']:
                if s['k'] == 'assign' and s['pl']['l'] == dl and not s['pl']['p'] and s['rv']['k'] == 'discr':
                    src = s['rv']['pl']
            if src is None or src['p'] or not direct_result(b.locals[src['l']]):
                continue
            ts = {int(x['v']): x['t'] for x in t['ts']}
            ok_bb, err_bb = ts.get(0, t.get('o')), ts.get(1, t.get('o'))
            if ok_bb is None or err_bb is None or ok_bb == err_bb:
                continue
            n += 1
            region = {x for x in b.reachable() if b.dominates(err_bb, x)}
            used = False
            acts = []
            for x in region:
                bl = b.blocks[x]
                for s in bl['st']:
                    if s['k'] != 'assign':
                        continue
                    pls = [o['pl'] for o in s['rv'].get('ops', []) if o['k'] in ('copy', 'move')]
                    if s['rv']['k'] in ('ref', 'rawptr', 'discr'):
                        pls.append(s['rv']['pl'])
                    if any(pl['l'] == src['l'] and pl['p'] for pl in pls):
                        used = True
                tt = bl['term']
                if tt['k'] == 'call':
                    fn = tt.get('fn') or ''
                    if any(a['k'] in ('copy', 'move') and a['pl']['l'] == src['l'] for a in tt['args']):
                        used = True
                    if f.body(fn) is not None or fn.endswith(('::into', '::from')) or tt.get('t', 0) < 0:
                        acts.append(fn)
            ok = used or bool(acts)
            me = short(b.path)
            rep.ob(rid, '%s: Err arm of the decision at %s' % (me, b.where(bi)), ok,
                   'reads the error' if used else ('calls %s' % short(acts[0]) if acts else 'neither reads the error nor calls anything'))
            if not ok:
                rep.violation(rid, '%s:%s' % (rid, me), b.where(bi),
                              '%s: the Err arm of the decision at %s neither reads the error nor does anything about it (no fallback, no '
                              'roll-back, no error returned): a failed backend request is swallowed and the call goes on to return Ok - e.g. '
                              'a read of several clusters whose first cluster fails returns Ok(0) with the buffer untouched' % (me, b.where(bi)))
    rep.floor('Err arms of Result decisions examined', n, 6)

"""C02 — flush_meta + reopen preserves every byte.

Decided (DESIGN C02): C02.1 a successful mutation of a cached slice is followed by
marking the entry dirty before the operation returns Ok; C02.2 dirty victims of
a cache eviction reach the slice flusher; C02.3 flush_meta returns Ok only after
complete sweeps; C02.4 a dirty flag is cleared only for a slice that is written on
that path; C02.5 a cached slice is written only after the new-cluster state of its
host cluster was resolved; plus the whole-slice write rule (shared with C05.4).
"""
from ..facts import AnalysisError
from . import c04

TARGETS = ('--lib',)
MINE = ('C02.1', 'C02.2', 'C02.3', 'C02.4', 'C02.5', 'C02.7', 'C02.8', 'C05.4')


def drop_rule(f, rep, rid, what='dirty'):
    """An entry leaves the slice cache only (a) handed to the caller, who decides about the write-back, or
    (b) on a decision that looked at its dirty flag.  A dirty entry that is dropped silently is never written:
    every later flush_meta() returns Ok without it."""
    from ..interp import Program, short
    from ..guard import Deps
    TESTFN = {'dirty': ('::is_dirty',), 'unused': ('::strong_count',)}[what]
    if what == 'dirty':
        rep.rule(rid, 'AsyncLruCache removes an entry from the map only when the removed value is handed to the caller or the '
                      'removal is decided by a test of the entry\'s dirty flag (remove / retain / clear / drain on the entry map)')
    else:
        rep.rule(rid, 'AsyncLruCache removes an entry from the map without handing it to the caller only on a test of its reference '
                      'count (an entry another operation holds is not dropped: its holder would update an orphan that no flush finds)')
    P = Program(f)
    REMOVERS = ('HashMap::<K, V, S, A>::remove', 'HashMap::<K, V, S, A>::retain', 'HashMap::<K, V, S, A>::clear',
                'HashMap::<K, V, S, A>::drain', 'HashMap::<K, V, S, A>::remove_entry', 'HashMap::<K, V, S, A>::extract_if')
    n = 0
    for b in f.body_list:
        if not b.path.startswith('cache::AsyncLruCache') or '::tests::' in b.path or '{closure' in b.path:
            continue
        dp = None
        for bi, t in b.calls():
            fn = t.get('fn') or ''
            if not fn.endswith(REMOVERS):
                continue
            dp = dp or Deps(P, b)
            # only the entry map (rmap): the receiver derives from the field / the guard parameter, not from the miss map
            rd = dp.of_operand(t['args'][0], (bi, 10 ** 6))
            if any(x[0] == 'field' and x[1] == 'wmap' for x in rd):
                continue
            n += 1
            site = '%s: %s at %s' % (short(b.path), fn.split('::')[-1], b.where(bi))
            # (a) the removed value reaches the return value
            ret = set()
            for rbi in b.reachable():
                if b.blocks[rbi]['term']['k'] == 'return':
                    ret |= dp.of_place({'l': 0, 'p': []}, (rbi, 10 ** 6))
            handed = fn.endswith(('::remove', '::remove_entry', '::drain', '::extract_if')) and any(x[0] == 'fn' and x[1] == fn for x in ret)
            # (b) a test of is_dirty decides: dominates the removal itself, or every push that feeds the removed keys
            def dirty_switches():
                out = []
                for sbi in b.reachable():
                    st = b.blocks[sbi]['term']
                    if st['k'] == 'switch':
                        d = dp.of_operand(st['d'], (sbi, 10 ** 6))
                        if any(x[0] == 'fn' and x[1].endswith(TESTFN) for x in d):
                            out.append(sbi)
                return out
            sw = dirty_switches()
            decided = any(b.dominates(x, bi) and x != bi for x in sw)
            if not decided and fn.endswith('::remove'):
                pushes = [pbi for pbi, pt in b.calls() if (pt.get('fn') or '').endswith('Vec::<T, A>::push')]
                kd = dp.of_operand(t['args'][1], (bi, 10 ** 6)) if len(t['args']) > 1 else frozenset()
                if pushes and any(x[0] == 'fn' and x[1].endswith('Vec::<T, A>::push') or x[0] == 'fn' and x[1].endswith('Iterator::next') for x in kd):
                    decided = all(any(b.dominates(x, pbi) and x != pbi for x in sw) for pbi in pushes)
            if not decided and fn.endswith('::retain') and len(t['args']) > 1:
                # the predicate closure looks at the flag
                cty = f.types[b.locals[t['args'][1]['pl']['l']]] if t['args'][1]['k'] in ('copy', 'move') else None
                cp = cty.get('p') if cty else None
                cb = f.body(cp) if cp else None
                decided = cb is not None and any((ct.get('fn') or '').endswith(TESTFN) for _x, ct in cb.calls())
            ok = handed or decided
            rep.ob(rid, site, ok, 'removed value handed to the caller' if handed else ('decided by a %s test' % what if decided else 'neither handed back nor decided by such a test'))
            if not ok and what == 'unused':
                rep.violation(rid, '%s:%s' % (rid, short(b.path)), b.where(bi),
                              '%s removes entries from the slice cache without looking at their reference count and without handing '
                              'them to the caller: a slice another operation is holding is dropped, that operation then changes an '
                              'orphaned slice which no flush_meta() can find - the flag is cleared with the change only in RAM' % short(b.path))
            elif not ok:
                rep.violation(rid, '%s:%s' % (rid, short(b.path)), b.where(bi),
                              '%s removes entries from the slice cache without looking at their dirty flag and without handing them '
                              'to the caller: a slice changed in RAM (e.g. by a write that completed while a flush was waiting for '
                              'I/O) is dropped, no later flush_meta() writes it and reopen loses the mapping' % short(b.path))
    rep.floor('removals from the cache entry map', n, 2)


def run(ctx, rep):
    rep.explanation = (
        'C02 is decided in part: the dirty-tracking typestate (mutation => dirty mark, eviction victims => flusher, '
        'flag cleared => slice written, complete sweeps before flush_meta returns Ok, zero-once not bypassed, whole '
        'slice written) is decided on every path of every public operation. Byte equality after reopen and the '
        'inverse key arithmetic of the range flush are not decided (value level).')
    rep.rule('C02.1', 'no public operation returns Ok with a changed cached slice whose entry was not marked dirty afterwards')
    rep.rule('C02.2', 'no public operation returns Ok with dirty slices evicted from the cache and not handed to the slice flusher')
    rep.rule('C02.3', 'flush_meta/shrink_caches return Ok only with both top-table dirty queues drained and both caches swept over (0, usize::MAX)')
    rep.rule('C02.4', 'a function that clears the dirty flag of a slice writes that slice on every path')
    rep.rule('C02.5', 'a cached slice is written only by a function that consulted the new-cluster map in the same activation')
    rep.rule('C05.4', 'a slice write covers the whole slice (start 0, length byte_size)')
    rep.rule('C02.8', 'a dirty block index taken off a top-table queue is written on every path that returns Ok')
    rep.rule('C02.7', 'the dirty flag of a slice is cleared before its write is issued, or afterwards only before the guard held across the write is released')
    drop_rule(ctx.lib, rep, 'C02.6')
    # a slice evicted while an operation holds it is updated as an orphan: the update is never flushed
    from . import evict
    from ..interp import Program as _PE
    _pops = evict.find_pops(ctx.lib, _PE(ctx.lib))
    evict.presence(ctx.lib, rep, 'C02.9', _pops)
    evict.report(ctx.lib, rep, 'C02.10', _pops)
    # a block of a top table written to another place of the file: the reopened device reads stale entries there
    from . import c05 as _c05
    _c05.partial_write_rule(ctx.lib, _PE(ctx.lib), rep, 'C02.11')
    d = c04.common(ctx, rep)
    if getattr(d, 'flag_invariant_used', False):
        rep.assume('need_flush read as false while the flush mutex is held means that no metadata is dirty only in RAM '
                   '(the flag protocol decided by C18.1/C18.2)')
        # the invariant is only as good as the protocol: its sweep half (C18.2, fault-free closure) is decided here as well,
        # so that a flusher which reads its own cleared flag as "nothing dirty" is reported by this check too
        rep.rule('C18.2', 'a function that stores need_flush := false starts a complete sweep of every metadata kind after the store '
                          'on every path to an Ok return (the invariant the flag read under the flush mutex relies on)')
        for (rule, site), (ok, detail) in sorted(d.obl.items()):
            if rule == 'C18.2':
                rep.ob(rule, site, ok, detail)
        for key, v in sorted(d.viol.items()):
            if v['rule'] == 'C18.2':
                rep.violation(v['rule'], key, v['where'], v['msg'], {'path': v['chain']})
    sites = {}
    for (kind, where), info in d.sites.items():
        sites.setdefault(kind, set()).add(where)
    rep.floor('cache-entry dirty flag stores', len(sites.get('dirtyflag', ())), 9)
    rep.floor('top-table dirty marks', len(sites.get('topdirty', ())), 2)
    rep.floor('mapping install/remove sites', len(sites.get('map', ())) + len(sites.get('unmap', ())), 4)
    rep.floor('slice sweeps', len(sites.get('sweep', ())), 1)
    n = 0
    for op, ex in sorted(d.exits.items()):
        for tag, toks in ex.items():
            if tag is not None and tag.startswith('err'):
                continue
            for t in toks:
                n += 1
                rep.ob('C02.1', '%s exit %s' % (op, tag), not [x for x in t if x[0] == 'MUT'], 'changed-but-not-dirty kinds: %s' % sorted(x[1] for x in t if x[0] == 'MUT'))
                rep.ob('C02.2', '%s exit %s' % (op, tag), not [x for x in t if x[0] == 'VICTIMS'], 'unflushed victims: %s' % sorted(str(x[1]) for x in t if x[0] == 'VICTIMS'))
                if op in ('flush_meta', 'shrink_caches'):
                    rep.ob('C02.3', '%s exit %s' % (op, tag), not [x for x in t if x[0] == 'RAM'], 'RAM-dirty kinds: %s' % sorted(x[1] for x in t if x[0] == 'RAM'))
    rep.floor('Ok exits of public operations examined', n, 6)
    for (rule, site), (ok, detail) in sorted(d.obl.items()):
        if rule in MINE:
            rep.ob(rule, site, ok, detail)
    for key, v in sorted(d.viol.items()):
        if v['rule'] in MINE:
            rep.violation(v['rule'], key, v['where'], v['msg'], {'path': v['chain']})

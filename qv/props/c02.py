"""C02 — flush_meta + reopen preserves every byte.

Decided (DESIGN C02): C02.1 a successful mutation of a cached slice is followed by
marking the entry dirty before the operation returns Ok; C02.2 dirty victims of
a cache eviction reach the slice flusher; C02.3 flush_meta returns Ok only after
complete sweeps; C02.4 a dirty flag is cleared only for a slice that is written on
that path; C02.5 a cached slice is written only after the new-cluster state of its
host cluster was resolved; plus the whole-slice write rule (shared with C05.4).
"""
from ..facts import AnalysisError
from . import c04

TARGETS = ('--lib',)
MINE = ('C02.1', 'C02.2', 'C02.3', 'C02.4', 'C02.5', 'C05.4')


def run(ctx, rep):
    rep.explanation = (
        'C02 is decided in part: the dirty-tracking typestate (mutation => dirty mark, eviction victims => flusher, '
        'flag cleared => slice written, complete sweeps before flush_meta returns Ok, zero-once not bypassed, whole '
        'slice written) is decided on every path of every public operation. Byte equality after reopen and the '
        'inverse key arithmetic of the range flush are not decided (value level).')
    rep.rule('C02.1', 'no public operation returns Ok with a changed cached slice whose entry was not marked dirty afterwards')
    rep.rule('C02.2', 'no public operation returns Ok with dirty slices evicted from the cache and not handed to the slice flusher')
    rep.rule('C02.3', 'flush_meta/shrink_caches return Ok only with both top-table dirty queues drained and both caches swept over (0, usize::MAX)')
    rep.rule('C02.4', 'a function that clears the dirty flag of a slice writes that slice on every path')
    rep.rule('C02.5', 'a cached slice is written only by a function that consulted the new-cluster map in the same activation')
    rep.rule('C05.4', 'a slice write covers the whole slice (start 0, length byte_size)')
    d = c04.common(ctx, rep)
    if getattr(d, 'flag_invariant_used', False):
        rep.assume('need_flush read as false while the flush mutex is held means that no metadata is dirty only in RAM '
                   '(the flag protocol decided by C18.1/C18.2)')
    sites = {}
    for (kind, where), info in d.sites.items():
        sites.setdefault(kind, set()).add(where)
    rep.floor('cache-entry dirty flag stores', len(sites.get('dirtyflag', ())), 9)
    rep.floor('top-table dirty marks', len(sites.get('topdirty', ())), 2)
    rep.floor('mapping install/remove sites', len(sites.get('map', ())) + len(sites.get('unmap', ())), 4)
    rep.floor('slice sweeps', len(sites.get('sweep', ())), 1)
    n = 0
    for op, ex in sorted(d.exits.items()):
        for tag, toks in ex.items():
            if tag is not None and tag.startswith('err'):
                continue
            for t in toks:
                n += 1
                rep.ob('C02.1', '%s exit %s' % (op, tag), not [x for x in t if x[0] == 'MUT'], 'changed-but-not-dirty kinds: %s' % sorted(x[1] for x in t if x[0] == 'MUT'))
                rep.ob('C02.2', '%s exit %s' % (op, tag), not [x for x in t if x[0] == 'VICTIMS'], 'unflushed victims: %s' % sorted(str(x[1]) for x in t if x[0] == 'VICTIMS'))
                if op in ('flush_meta', 'shrink_caches'):
                    rep.ob('C02.3', '%s exit %s' % (op, tag), not [x for x in t if x[0] == 'RAM'], 'RAM-dirty kinds: %s' % sorted(x[1] for x in t if x[0] == 'RAM'))
    rep.floor('Ok exits of public operations examined', n, 6)
    for (rule, site), (ok, detail) in sorted(d.obl.items()):
        if rule in MINE:
            rep.ob(rule, site, ok, detail)
    for key, v in sorted(d.viol.items()):
        if v['rule'] in MINE:
            rep.violation(v['rule'], key, v['where'], v['msg'], {'path': v['chain']})

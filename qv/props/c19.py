"""C19 — I/O backends are interchangeable and match the host-file model.

Decided (sibling cross-check of the Qcow2IoOps implementations, DESIGN C19):
  C19.R  read_to returns the count of its read primitive (data dependence), and the
         primitive is not re-issued in a loop unless the returned count is a sum
  C19.W  write_from compares the written count with the request and the mismatch
         edge does not reach Ok; a buffered writer (tokio File) is flushed before Ok
  C19.O  the offset parameter reaches the read/write primitive
  C19.F  fallocate goes through the shared punch-hole helper with PUNCH_HOLE|KEEP_SIZE
         and passes offset and length through; a failed zero/punch request is replaced
         by a zero write in the library wrapper (shared with C17.3)
  C19.S  fsync reaches a real sync primitive on every Ok path (shared with C05.2)
Not decided: equality with the host-file model (kernel semantics), byte-identical
guest content across backends.
"""
from ..interp import Program, Interp, short, head, POLL_NAMES
from ..guard import Deps
from ..facts import AnalysisError
from . import c04, c05

from ..absint import short_vn

TARGETS = ('--lib',)
READ_PRIMS = ('AsyncReadExt::read', 'libc::pread', 'fs::File::read_at')
# primitives that turn a short read (end of file) into an error instead of returning the count
EXACT_READ_PRIMS = ('AsyncReadExt::read_exact', 'fs::File::read_exact_at', 'FileExt::read_exact_at', 'Read::read_exact')
WRITE_PRIMS = ('AsyncWriteExt::write', 'libc::pwrite', 'fs::File::write_at')
FLUSH_PRIMS = ('AsyncWriteExt::flush',)


def reach_bodies(f, P, body, depth=3):
    out = [body]
    seen = {body.path}
    work = [(body, 0)]
    while work:
        b, d = work.pop()
        if d >= depth:
            continue
        for bi, t in b.calls():
            fn = t.get('fn') or ''
            nxt = []
            if fn in POLL_NAMES:
                for fu in P.futs(t['a'][0], ()):
                    if fu.kind == 'async_fn':
                        nxt += f.coroutines_of(fu.path)
            elif f.body(fn) is not None and not f.body(fn).is_async_fn:
                nxt.append(fn)
            for n in nxt:
                nb = f.body(n)
                if nb is not None and nb.path not in seen:
                    seen.add(nb.path)
                    out.append(nb)
                    work.append((nb, d + 1))
    return out


def prim_calls(f, P, b, prims):
    """(block, name) of primitive invocations: direct calls, or awaits of an
    external future built by a call to the primitive."""
    out = []
    for bi, t in b.calls():
        fn = t.get('fn') or ''
        if any(fn.endswith(p) for p in prims):
            out.append((bi, fn))
    return out


def in_loop(b, bi):
    succ = b.succ()
    seen = set()
    st = list(succ[bi])
    while st:
        x = st.pop()
        if x == bi:
            return True
        if x in seen:
            continue
        seen.add(x)
        st.extend(succ[x])
    return False


def punch_range_rule(f, rep, ph):
    """linux_punch_hole hands the kernel exactly the requested range: the offset and length operands of the
    fallocate call are its own parameters (through casts only), and no Ok return bypasses the call.  (The kernel
    zeroes partial blocks of an unaligned punch; a helper that shrinks the range and reports success leaves old
    bytes where the model and the other platforms read zeros.)"""
    from ..absint import AbsInt
    ai = AbsInt(f)
    seen = []

    def hook(ai_, st, frame, b, bi, t, args):
        seen.append((b, bi, list(args)))
        return None
    ai.hooks['nix::fcntl::fallocate'] = hook
    ai.analyze(ph.path)

    def peel(v):
        n = 0
        while isinstance(v, tuple) and v and v[0] in ('wrap', 'cast') and n < 8:
            v = v[1]
            n += 1
        return v
    rep.floor('fallocate calls in linux_punch_hole', len(seen), 1)
    for b, bi, args in seen:
        if b.path != ph.path or len(args) < 4:
            continue
        for idx, pi, what in ((2, 1, 'offset'), (3, 2, 'length')):
            v = peel(args[idx])
            ok = v[0] == 'u' and v[1] == ('param', ph.path, pi)
            rep.ob('C19.F', 'linux_punch_hole passes its %s to fallocate unchanged' % what, ok, short_vn(v)[:120])
            if not ok:
                rep.violation('C19.F', 'C19.F:linux_punch_hole:%s' % what, b.where(bi),
                              'linux_punch_hole calls fallocate with a %s that is not the requested one (%s): bytes of the request '
                              'outside the punched range keep their old content while the caller is told the range reads as zeros'
                              % (what, short_vn(v)[:120]))
    callbs = [bi for b, bi, _a in seen if b.path == ph.path]
    for bi in sorted(ph.reachable()):
        for s_ in ph.blocks[bi]['st']:
            if s_['k'] == 'assign' and s_['pl']['l'] == 0 and not s_['pl']['p'] and s_['rv']['k'] == 'agg' and s_['rv'].get('vn') == 'Ok':
                ok = any(ph.dominates(c, bi) for c in callbs)
                rep.ob('C19.F', 'Ok of linux_punch_hole at %s follows the fallocate call' % ph.where(bi), ok, '')
                if not ok:
                    rep.violation('C19.F', 'C19.F:linux_punch_hole:bypass', ph.where(bi),
                                  'linux_punch_hole returns Ok on a path that does not call fallocate: the range is reported as '
                                  'zeroed/released although nothing was done (the zero-write fallback only runs on Err)')


def run(ctx, rep):
    f = ctx.lib
    P = Program(f)
    rep.explanation = (
        'C19 is decided in part: pairwise structural agreement of the three Qcow2IoOps implementations on five facets '
        '(read count, short-write handling, offset pass-through, punch-hole helper and fallback, sync primitive). '
        'Equality with the host-file model and identical guest content across backends are not decided.')
    rep.rule('C19.R', 'read_to: Ok(count) derives from the read primitive; no loop around the primitive unless the count is accumulated')
    rep.rule('C19.W', 'write_from: written count compared with the request, mismatch does not return Ok; buffered writers are flushed before Ok')
    rep.rule('C19.O', 'offset parameter reaches the primitive')
    rep.rule('C19.F', 'fallocate uses the shared punch-hole helper (PUNCH_HOLE|KEEP_SIZE, offset/len passed through); library wrapper falls back to a zero write')
    rep.rule('C19.S', 'fsync reaches a sync primitive on every Ok path')
    rep.assume('only the Linux cfg arms of the backends are analysed')
    impls = [im for im in f.impls if im.get('trait') == 'ops::Qcow2IoOps']
    rep.floor('Qcow2IoOps implementations', len(impls), 3)
    for im in impls:
        name = f.tstr(im['self']).split('::')[-1]
        meths = {m['n']: m['p'] for m in im['methods']}
        for need in ('read_to', 'write_from', 'fallocate', 'fsync'):
            if need not in meths:
                raise AnalysisError('%s lacks %s' % (name, need))
        # ---------------- read_to
        rb = f.body(f.coroutines_of(meths['read_to'])[0])
        bodies = reach_bodies(f, P, rb)
        found = False
        for b in bodies:
            ex = prim_calls(f, P, b, EXACT_READ_PRIMS)
            rep.ob('C19.R', '%s::read_to read primitive reports short reads (%s)' % (name, short(b.path)), not ex,
                   'uses %s' % [x[1].split('::')[-1] for x in ex])
            if ex:
                found = True
                rep.violation('C19.R', 'C19.R:%s:exact' % name, b.where(ex[0][0]),
                              '%s::read_to reads with %s, which fails with UnexpectedEof when the file ends inside the '
                              'request: a read that touches the end of the host file is an error on this backend and a short '
                              'count on the others' % (name, ex[0][1].split('::')[-1]))
            pcs = prim_calls(f, P, b, READ_PRIMS)
            if not pcs:
                continue
            found = True
            dp = Deps(P, b)
            # the Ok(count) value(s) of this body
            okdeps = set()
            for bi in b.reachable():
                for s in b.blocks[bi]['st']:
                    if s['k'] == 'assign' and s['rv']['k'] == 'agg' and s['rv'].get('vn') == 'Ok' and s['rv']['ops']:
                        okdeps |= dp.of_operand(s['rv']['ops'][0], (bi, 10 ** 6))
            if not okdeps:
                # the Result of the primitive is returned as a whole (map_err, `?`-less tail expression)
                for rbi in b.reachable():
                    if b.blocks[rbi]['term']['k'] == 'return':
                        okdeps |= dp.of_place({'l': 0, 'p': []}, (rbi, 10 ** 6))
            derives = any(x[0] == 'fn' and any(x[1].endswith(p) for p in READ_PRIMS) for x in okdeps)
            rep.ob('C19.R', '%s::read_to count provenance' % name, derives, 'Ok value depends on %s' % sorted(
                x[1].split('::')[-1] for x in okdeps if x[0] == 'fn')[:6])
            if not derives:
                rep.violation('C19.R', 'C19.R:%s:count' % name, b.where(pcs[0][0]),
                              '%s::read_to returns a count that does not derive from its read primitive: a short read at '
                              'end of file is reported as a full read' % name)
            for (bi, fn) in pcs:
                loop = in_loop(b, bi)
                summed = _ok_value_is_sum(P, b)
                ok = (not loop) or summed
                rep.ob('C19.R', '%s::read_to primitive %s' % (name, fn.split('::')[-1]), ok,
                       'inside a loop: %s; count accumulated: %s' % (loop, summed))
                if not ok:
                    rep.violation('C19.R', 'C19.R:%s:loop' % name, b.where(bi),
                                  '%s::read_to re-issues its read primitive in a loop but returns the result of a single '
                                  'call, not the accumulated count: a read across end of file reports 0 bytes' % name)
            for (bi, fn) in pcs:
                t = b.blocks[bi]['term']
                od = set()
                for a in t['args']:
                    od |= dp.of_operand(a, (bi, 10 ** 6))
                for sbi, st in b.calls():
                    if (st.get('fn') or '').endswith('AsyncSeekExt::seek') and b.dominates(sbi, bi):
                        for a in st['args']:
                            od |= dp.of_operand(a, (sbi, 10 ** 6))
                okf = ('in', 1) in od
                rep.ob('C19.O', '%s::read_to offset' % name, okf, 'offset parameter reaches %s' % fn.split('::')[-1])
                if not okf:
                    rep.violation('C19.O', 'C19.O:%s:read' % name, b.where(bi), '%s::read_to does not pass its offset to the primitive' % name)
        if not found:
            raise AnalysisError('%s::read_to: no read primitive found' % name)
        # ---------------- write_from
        wb = f.body(f.coroutines_of(meths['write_from'])[0])
        bodies = reach_bodies(f, P, wb)
        found = False
        for b in bodies:
            pcs = prim_calls(f, P, b, WRITE_PRIMS)
            if not pcs:
                continue
            found = True
            dp = Deps(P, b)
            cmp_ok = False
            detail = 'no comparison of the written count with the request'
            defs = P.defs(b)
            for bi in b.reachable():
                t = b.blocks[bi]['term']
                if t['k'] != 'switch' or t['d']['k'] not in ('copy', 'move'):
                    continue
                # the discriminant must be a comparison whose one side is the written
                # count and whose other side is the requested length
                sides = None
                for dd in defs.get(t['d']['pl']['l'], []):
                    if dd[0] == 'st':
                        rv = b.blocks[dd[1]]['st'][dd[2]]['rv']
                        if rv['k'] == 'bin' and rv.get('op') in ('Eq', 'Ne', 'Lt', 'Le', 'Gt', 'Ge'):
                            sides = [dp.of_operand(o, (dd[1], dd[2])) for o in rv['ops']]
                    elif dd[0] == 'call':
                        ct = b.blocks[dd[1]]['term']
                        if (ct.get('fn') or '').startswith('std::cmp::Partial') and len(ct['args']) == 2:
                            sides = [dp.of_operand(o, (dd[1], 10 ** 6)) for o in ct['args']]
                if not sides:
                    continue

                def is_prim(d):
                    return any(x[0] == 'fn' and any(x[1].endswith(p) for p in WRITE_PRIMS) for x in d)

                def is_len(d):
                    return any(x[0] == 'fn' and x[1].endswith('::len') for x in d) and not is_prim(d)
                if not ((is_prim(sides[0]) and is_len(sides[1])) or (is_prim(sides[1]) and is_len(sides[0]))):
                    continue
                succ = b.succ()[bi]
                if not all(_reaches_ok(b, s_) for s_ in succ):
                    cmp_ok = True
                    detail = 'compared at %s; the mismatch edge does not return Ok' % b.where(bi)
                else:
                    detail = 'compared at %s but both edges return Ok (a short write is reported as success)' % b.where(bi)
            rep.ob('C19.W', '%s::write_from short-write handling' % name, cmp_ok, detail)
            if not cmp_ok:
                rep.violation('C19.W', 'C19.W:%s:short-write' % name, b.where(pcs[0][0]),
                              '%s::write_from: %s: a partial write is acknowledged as complete, the other backends treat '
                              'it differently' % (name, detail))
            for (bi, fn) in pcs:
                t = b.blocks[bi]['term']
                od = set()
                for a in t['args']:
                    od |= dp.of_operand(a, (bi, 10 ** 6))
                # tokio: the offset goes into the preceding seek
                for sbi, st in b.calls():
                    if (st.get('fn') or '').endswith('AsyncSeekExt::seek'):
                        for a in st['args']:
                            od |= dp.of_operand(a, (sbi, 10 ** 6))
                okf = ('in', 1) in od
                rep.ob('C19.O', '%s::write_from offset' % name, okf, 'offset parameter reaches %s' % fn.split('::')[-1])
                if not okf:
                    rep.violation('C19.O', 'C19.O:%s:write' % name, b.where(bi), '%s::write_from does not pass its offset to the primitive' % name)
                if fn.endswith('AsyncWriteExt::write'):
                    fl = [fb for fb, ft in b.calls() if any((ft.get('fn') or '').endswith(p) for p in FLUSH_PRIMS)]
                    okfl = bool(fl) and all(any(_on_all_paths(b, bi, fbi, r) for fbi in fl) for r in _ok_returns(b))
                    rep.ob('C19.W', '%s::write_from buffered writer flushed' % name, okfl, 'flush calls at %s' % [b.where(x) for x in fl])
                    if not okfl:
                        rep.violation('C19.W', 'C19.W:%s:flush' % name, b.where(bi),
                                      '%s::write_from returns Ok without flushing the buffered tokio File: the write is '
                                      'acknowledged before it is in the file and a punch on the raw fd can overtake it' % name)
        if not found:
            raise AnalysisError('%s::write_from: no write primitive found' % name)
        # ---------------- fallocate
        fb_ = f.body(f.coroutines_of(meths['fallocate'])[0])
        calls = [(bi, t) for bi, t in fb_.calls() if (t.get('fn') or '').endswith('ops::linux_punch_hole')]
        ok = len(calls) >= 1
        if ok:
            dp = Deps(P, fb_)
            bi, t = calls[0]
            d1 = dp.of_operand(t['args'][1], (bi, 10 ** 6))
            d2 = dp.of_operand(t['args'][2], (bi, 10 ** 6))
            ok = ('in', 1) in d1 and ('in', 2) in d2
        rep.ob('C19.F', '%s::fallocate uses the shared punch helper' % name, ok, '')
        if not ok:
            rep.violation('C19.F', 'C19.F:%s' % name, fb_.where(0),
                          '%s::fallocate does not go through linux_punch_hole(fd, offset, len, ..) with its own offset/len' % name)
    # the helper itself
    ph = f.body('ops::linux_punch_hole')
    if ph is None:
        raise AnalysisError('ops::linux_punch_hole not found')
    consts = set()
    for bl in ph.blocks:
        t = bl['term']
        if t['k'] == 'call':
            for a in t['args']:
                if a['k'] == 'const' and 'u' in a:
                    consts.add(a['u'].split('::')[-1])
    okh = {'FALLOC_FL_PUNCH_HOLE', 'FALLOC_FL_KEEP_SIZE'} <= consts and \
        any((t.get('fn') or '').endswith('nix::fcntl::fallocate') for _b, t in ph.calls())
    rep.ob('C19.F', 'linux_punch_hole flags', okh, 'constants used: %s' % sorted(consts))
    if not okh:
        rep.violation('C19.F', 'C19.F:linux_punch_hole', ph.where(0),
                      'linux_punch_hole does not call fallocate with PUNCH_HOLE|KEEP_SIZE: punching changes the file length or does not deallocate')
    punch_range_rule(f, rep, ph)
    # library wrapper fallback (fault model) and fsync (shared rules)
    snap = c04.closure_cached(f, faults=True)
    fb_viol = [k for k, v in snap.viol.items() if v['rule'] == 'C17.3' and k.endswith(':fallback')]
    rep.ob('C19.F', 'zero-write fallback when the punch fails', not fb_viol, 'fault-model typestate (C17.3)')
    for k in fb_viol:
        v = snap.viol[k]
        rep.violation('C19.F', k, v['where'], v['msg'], {'path': v['chain']})
    sub = type(rep)(rep.pid, rep.tier)
    c05_fsync(ctx, sub)
    for o in sub.obs:
        rep.ob('C19.S', o['site'], o['verdict'] == 'holds', o['detail'])
    for v in sub.viol:
        rep.violation('C19.S', v['key'].replace('C05.2', 'C19.S'), v['where'], v['msg'])


def c05_fsync(ctx, rep):
    """C05.2 alone (sync primitive reachability of every fsync implementation)."""
    f = ctx.lib
    P = Program(f)
    for im in [im for im in f.impls if im.get('trait') == 'ops::Qcow2IoOps']:
        path = [m['p'] for m in im['methods'] if m['n'] == 'fsync'][0]
        cos = f.coroutines_of(path)
        body = f.body(cos[0]) if cos else f.body(path)
        dom = c05.SyncReach()
        ip = Interp(P, dom)
        res = ip.run(body)
        bad = [tag for tag, toks in res.items() if not (tag is not None and head(tag) == 'err') for t in toks if 'NOSYNC' in t]
        name = f.tstr(im['self'])
        rep.ob('C05.2', 'fsync of %s' % name, not bad, 'exits without a sync primitive: %s' % bad)
        if bad:
            rep.violation('C05.2', 'C05.2:%s' % name, body.where(0),
                          'the fsync implementation of %s can return Ok without calling a sync primitive' % name)


def _ok_value_is_sum(P, b):
    """The value wrapped in Ok(..) is (a cast/copy of) a local that is assigned
    from an addition somewhere: an accumulated count."""
    defs = P.defs(b)
    work = []
    for bi in b.reachable():
        for s in b.blocks[bi]['st']:
            if s['k'] == 'assign' and s['rv']['k'] == 'agg' and s['rv'].get('vn') == 'Ok':
                for o in s['rv']['ops']:
                    if o['k'] in ('copy', 'move'):
                        work.append(o['pl']['l'])
    seen = set()
    while work:
        l = work.pop()
        if l in seen:
            continue
        seen.add(l)
        for d in defs.get(l, []):
            if d[0] != 'st':
                continue
            rv = b.blocks[d[1]]['st'][d[2]]['rv']
            if rv['k'] == 'bin' and rv.get('op', '').startswith('Add'):
                return True
            if rv['k'] in ('use', 'cast'):
                o = rv['ops'][0]
                if o['k'] in ('copy', 'move'):
                    work.append(o['pl']['l'])
    return False


def _ok_returns(b):
    out = []
    for bi in b.reachable():
        for s in b.blocks[bi]['st']:
            if s['k'] == 'assign' and s['pl']['l'] == 0 and s['rv']['k'] == 'agg' and s['rv'].get('vn') == 'Ok':
                out.append(bi)
    return out


def _reaches_ok(b, start):
    oks = set(_ok_returns(b))
    succ = b.succ()
    seen = set()
    st = [start]
    while st:
        x = st.pop()
        if x in seen:
            continue
        seen.add(x)
        if x in oks:
            return True
        st.extend(succ[x])
    return False


def _on_all_paths(b, src, mid, dst):
    """every path src -> dst passes mid"""
    succ = b.succ()
    seen = set()
    st = [src]
    while st:
        x = st.pop()
        if x in seen or x == mid:
            continue
        seen.add(x)
        if x == dst and x != src:
            return False
        st.extend(succ[x])
    return True

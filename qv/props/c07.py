"""C07 — progress: no deadlock, livelock or spurious failure.

Decided here (DESIGN §3 C07):
  C07.1  mode-aware lock-order cycles and self re-acquisition (engine C)
  C07.2  no std::sync guard / RefCell borrow live across a suspension point
  C07.3  no suspension point between the commit of a cache insertion and the
         re-lookup whose miss is turned into Err
Not decided: termination of the allocator retry loops, livelock.
"""
from ..interp import Program, Interp, Domain, short, head
from ..locks import LockDomain, find_cycles, conflict, base_class, RANK
from ..facts import AnalysisError
from .. import api

TARGETS = ('--lib',)

SYNC_GUARDS = ('std::sync::MutexGuard', 'std::sync::RwLockReadGuard', 'std::sync::RwLockWriteGuard',
               'std::cell::Ref', 'std::cell::RefMut')


def lock_analysis(f, entries):
    P = Program(f)
    d = LockDomain(P)
    ip = Interp(P, d)
    for e in entries:
        ip.run(api.dev_method(f, e))
    if ip.unresolved:
        raise AnalysisError('unresolved awaits: ' + '; '.join(ip.unresolved[:5]))
    return d, ip


def inverted(e):
    hc, hm, c, m = e
    if base_class(hc) == base_class(c):
        return True
    return RANK.get(base_class(hc), 9) > RANK.get(base_class(c), 9)


def run(ctx, rep):
    f = ctx.lib
    rep.explanation = (
        'C07 is decided in part: necessary structural conditions of deadlock freedom are decided on every path '
        'of the current source (held-lock dataflow over the resolved async call graph, lock-order relation with '
        'mode-aware cycle search, self re-acquisition, guard-across-await scan, insert-then-lookup typestate); '
        'termination of retry loops and livelock are not decided.')
    rep.rule('C07.1', 'no mode-aware cycle in the relation "may hold X(m) while requesting Y(m\')" over the '
                      'concurrent operations; no conflicting re-acquisition of a single-instance lock')
    rep.rule('C07.2', 'no std::sync guard or RefCell borrow is live at an await')
    rep.rule('C07.3', 'no suspension point between commit of a cache insertion and the lookup whose miss returns Err')
    rep.rule('C07.4', 'a loop without a suspension point that retries an Option-returning step leaves the loop when the step '
                      'yields None (no busy loop on a step that made no progress)')
    sync_loop_rule(f, rep)
    # C07.5: an entry whose loader (or user) is suspended is in use; a selection that does not look at the reference count
    # evicts it while unused entries exist, and the loader's re-lookup misses: Err only because others were in flight
    from . import evict
    from ..interp import Program as _PE
    evict.presence(f, rep, 'C07.5', evict.find_pops(f, _PE(f)))
    rep.assume('all tasks of one device run on one thread (futures are !Send): interleaving only at awaits')
    rep.assume('futures_locks::RwLock admits readers unless a writer holds: R-R never conflicts')
    rep.assume('a host cluster is a data, L2-table or refblock cluster: per-cluster locks of different kinds are distinct')
    rep.assume('concurrent operations are those the property names: ' + ', '.join(api.CONCURRENT_OPS) +
               '; check/qcow2_cluster_usage/qcow2_prep_io are analysed for self re-acquisition only')

    # ---------------------------------------------------------------- C07.1
    d, ip = lock_analysis(f, api.CONCURRENT_OPS)
    d2, ip2 = lock_analysis(f, api.OTHER_OPS)
    sites = set(d.acq_sites) | set(d2.acq_sites)
    rep.floor('lock acquisition sites', len(sites), 40)
    rep.floor('lock classes', len({k[1] for k in sites}), 8)
    rep.count('lock-order edges', len(d.edges))
    rep.count('units analysed', len(ip.units_seen) + len(ip2.units_seen))

    cycles = find_cycles(d.edges)
    in_cycle = set()
    for cyc in cycles:
        if not any(d.edges[e]['gap'] for e in cyc):
            # nobody can be suspended between taking the held lock and
            # requesting the next one: the interleaving does not exist
            continue
        for e in cyc:
            in_cycle.add(e)
        inv = [e for e in cyc if inverted(e)] or list(cyc)
        # the lock lowest in the documented hierarchy must never be held while
        # waiting: attribute the cycle to the deepest inverted hold
        top = max(RANK.get(base_class(e[0]), 9) for e in inv)
        inv = [e for e in inv if RANK.get(base_class(e[0]), 9) == top]
        key = 'C07.1:cycle:' + ','.join(sorted({
            '%s(%s)@%s' % (base_class(e[0]), e[1], '+'.join(sorted(d.edges[e]['holders']))) for e in inv}))
        where = d.edges[inv[0]]['sites'][0]
        msg = 'lock-order cycle: ' + ' ; '.join(
            'a task holding %s(%s) [taken in %s] requests %s(%s) at %s' % (
                e[0], e[1], '/'.join(sorted(d.edges[e]['holders'])), e[2], e[3], d.edges[e]['sites'][0][0])
            for e in cyc)
        rep.violation('C07.1', key, where[0], msg, {
            'cycle': ['%s(%s)->%s(%s)' % e for e in cyc],
            'paths': {'%s(%s)->%s(%s)' % e: d.edges[e]['sites'][0][2] for e in cyc}})
    for e, info in sorted(d.edges.items()):
        rep.ob('C07.1', '%s(%s)->%s(%s)' % e, e not in in_cycle,
               'requested at %s under a guard taken in %s' % (info['sites'][0][0], '/'.join(sorted(info['holders']))))
    for dom in (d, d2):
        for (cls, hm, m), ss in sorted(dom.selfacq.items()):
            holders = set()
            for e, info in dom.edges.items():
                if e == (cls, hm, cls, m):
                    holders |= info['holders']
            # one finding per route (the first function the holder calls on the way to the second request): a new route to
            # the same hang is a new finding
            by_req = {}
            for s_ in ss:
                by_req.setdefault(s_[1], []).append(s_)
            for req, sl in sorted(by_req.items()):
                key = 'C07.1:self:%s(%s)@%s->%s@%s' % (cls, hm, '+'.join(sorted(holders)), m, req)
                rep.ob('C07.1', 'self:%s(%s)->%s@%s' % (cls, hm, m, req), False, sl[0][2])
                rep.violation('C07.1', key, sl[0][0],
                              'a task holding %s(%s) requests %s(%s) on the same device by way of %s: certain hang; path %s' % (
                                  cls, hm, cls, m, req, sl[0][2]), {'path': sl[0][2]})

    # ---------------------------------------------------------------- C07.2
    n_polls = 0
    for b in f.body_list:
        if not b.is_coroutine:
            continue
        live = storage_live_at(b)
        for bi, t in b.calls():
            if not t.get('fn', '').endswith('Future::poll'):
                continue
            n_polls += 1
            bad = []
            for l in live[bi]:
                if f.type_contains(b.locals[l], lambda x: x['k'] == 'adt' and x['p'] in SYNC_GUARDS):
                    bad.append(l)
            rep.ob('C07.2', '%s#await@%s' % (short(b.path), b.where(bi)), not bad,
                   'live sync guards: %s' % [b.tystr(l) for l in bad] if bad else '')
            for l in bad:
                rep.violation('C07.2', 'C07.2:%s:%s' % (short(b.path), b.tystr(l)[:60]), b.where(bi),
                              'blocking guard %s is live across an await in %s' % (b.tystr(l), b.path))
    rep.floor('awaits scanned', n_polls, 200)

    # ---------------------------------------------------------------- C07.3
    c073(f, rep)


def storage_live_at(b):
    """block -> set of locals whose storage may be live at the block's terminator."""
    succ = b.succ()
    n = len(b.blocks)
    inn = [set() for _ in range(n)]
    out = [None] * n
    work = [0]
    seen = set()
    while work:
        bi = work.pop()
        cur = set(inn[bi])
        for s in b.blocks[bi]['st']:
            if s['k'] == 'live':
                cur.add(s['l'])
            elif s['k'] == 'dead':
                cur.discard(s['l'])
            elif s['k'] == 'assign' and not s['pl']['p']:
                cur.add(s['pl']['l'])
        t = b.blocks[bi]['term']
        at_term = set(cur)
        if t['k'] == 'drop' and not t['pl']['p']:
            cur.discard(t['pl']['l'])
        if t['k'] == 'call':
            for a in t['args']:
                if a['k'] == 'move' and not a['pl']['p']:
                    at_term.discard(a['pl']['l'])
                    cur.discard(a['pl']['l'])
        if out[bi] is not None and at_term <= out[bi] and bi in seen:
            continue
        seen.add(bi)
        out[bi] = (out[bi] or set()) | at_term
        for s2 in succ[bi]:
            if not cur <= inn[s2] or s2 not in seen:
                inn[s2] |= cur
                work.append(s2)
    return [o or set() for o in out]


class RelookupDomain(Domain):
    """token = (state, site): 0 idle; 1 an insertion was committed; 2 committed and
    the task has suspended since; 3 a lookup missed in state 2."""
    name = 'relookup'

    def __init__(self, rep):
        self.rep = rep
        self.commits = set()
        self.lookups = set()
        self.bad = {}

    def initial(self):
        return (0, None)

    def join(self, a, b):
        return a if a[0] >= b[0] else b

    def intercept(self, ip, fr, tok, tags, bi, term, callee):
        if callee.endswith('::commit_wmap') and 'AsyncLruCache' in callee:
            self.commits.add(fr.where(bi))
            return [((1, None), None)]
        if callee.endswith('::get') and 'AsyncLruCache' in callee:
            site = '%s@%s' % (short(fr.body.path), fr.where(bi))
            self.lookups.add(site)
            if tok[0] == 2:
                return [(tok, 'some()'), ((3, (short(fr.body.path), fr.where(bi), fr.chain_str())), 'none')]
            return [(tok, 'some()'), (tok, 'none')]
        return None

    def on_leaf_await(self, ip, fr, tok, tags, bi, term, fut):
        if tok[0] in (1, 3) and fut.kind in ('trait_fn', 'lock', 'ext'):
            return [((2, None), None)]
        return [(tok, None)]

    def on_enter(self, ip, fr, tok, cfr, bi, term):
        # the miss is only "turned into Err" if nothing else happens before
        # the function returns Err
        if tok[0] == 3:
            return (2, None)
        return tok

    def on_return(self, ip, fr, tok, tags, bi):
        if tok[0] == 3 and head(tags.get(0)) == 'err' and short(fr.body.path) == tok[1][0]:
            self.bad.setdefault(tok[1][0], tok[1])
            return (0, None)
        return tok


def c073(f, rep):
    P = Program(f)
    d = RelookupDomain(rep)
    ip = Interp(P, d)
    for e in api.CONCURRENT_OPS:
        ip.run(api.dev_method(f, e))
    rep.floor('cache insert commits', len(d.commits), 1)
    rep.floor('cache lookups', len(d.lookups), 5)
    for site in sorted(d.lookups):
        fn = site.split('@')[0]
        rep.ob('C07.3', site, fn not in d.bad or d.bad[fn][1] != site.split('@')[1],
               'lookup after a committed insertion')
    for fn, (fn_, where, chain) in sorted(d.bad.items()):
        rep.violation('C07.3', 'C07.3:%s' % fn, where,
                      'in %s the lookup after the insertion can miss (a suspension point lies between the commit '
                      'of the insertion and the lookup, so a concurrent insertion can evict the new entry) and the '
                      'miss is returned as Err; path %s' % (fn, chain), {'path': chain})


def sync_loop_rule(f, rep):
    """C07.4.  In synchronous code (no await inside the loop: nothing else can run, std locks stay held) a
    loop that calls a step returning Option and does not leave on None spins forever once the step cannot
    make progress (e.g. eviction from an empty or fully pinned cache)."""
    from ..interp import POLL_NAMES
    from ..guard import Deps
    from ..interp import Program
    P = Program(f)
    n = 0
    for b in f.body_list:
        if '::tests::' in b.path or b.is_coroutine or not b.path.startswith('cache::'):
            continue
        succ = b.succ()
        reach = {}
        for bi, t in b.calls():
            fn = t.get('fn') or ''
            cb = f.body(fn)
            if cb is None or not fn.startswith('cache::'):
                continue          # a step implemented in this module
            dt = b.locals[t['dst']['l']] if not t['dst']['p'] else None
            if dt is None or f.types[dt].get('p') != 'std::option::Option':
                continue
            loop = {x for x in b.reachable(bi) if bi in b.reachable(x)}
            if not loop:
                continue
            if any(b.blocks[x]['term'].get('fn') in POLL_NAMES for x in loop if b.blocks[x]['term']['k'] == 'call'):
                continue
            n += 1
            # the decision on the Option
            dst = t['dst']['l']
            ok = True
            why = 'the None result leaves the loop'
            found = False
            for x in sorted(loop):
                tt = b.blocks[x]['term']
                if tt['k'] != 'switch':
                    continue
                isd = False
                for st in b.blocks[x]['st']:
                    if st['k'] == 'assign' and st['rv']['k'] == 'discr' and st['rv']['pl']['l'] == dst:
                        isd = True
                if not isd:
                    continue
                found = True
                none_t = [y['t'] for y in tt['ts'] if y['v'] == '0']
                none_t = none_t[0] if none_t else tt['o']
                # does the None edge come back to the step without leaving the loop?
                back = bi in b.reachable(none_t, avoid=set(range(len(b.blocks))) - loop)
                if back:
                    # unless the loop condition reads something the None path changes: look for stores on that path
                    path = b.reachable(none_t, avoid=(set(range(len(b.blocks))) - loop) | {bi})
                    changes = any(s_['k'] == 'assign' and not s_['pl']['p'] and b.names.get(s_['pl']['l']) and s_['rv']['k'] == 'bin'
                                  for y in path for s_ in b.blocks[y]['st'])
                    if not changes:
                        ok = False
                        why = 'after a None result the loop runs again with nothing changed'
            if not found:
                continue
            rep.ob('C07.4', 'loop around %s in %s at %s' % (short(fn), short(b.path), b.where(bi)), ok, why)
            if not ok:
                rep.violation('C07.4', 'C07.4:%s:%s' % (short(b.path), short(fn)), b.where(bi),
                              '%s retries %s in a loop that has no suspension point and does not leave the loop when the step returns '
                              'None: once the step cannot make progress (nothing to evict, or every entry pinned) the thread spins '
                              'forever with the cache locks held' % (short(b.path), short(fn)))
    rep.floor('synchronous retry loops in the cache', n, 1)

"""Precedence of the in-use test in the eviction victim selection (C06.8 = C08.10 = C02.9).

The cache evicts the least recently used entry *among the entries nobody holds*; an entry in use is evicted only when
every entry is in use.  C06.5 decides that the selection looks at the reference count at all.  This rule decides the one
form in which the count is looked at and still does not take precedence: the result of the in-use test is a component
of a lexicographic ordering key (a tuple returned by the key closure of `min_by_key` / `max_by_key` / `sort_by_key` ..)
behind another, non-constant component - then it only breaks ties of that other component.

Accepted without report: the test as a branch condition, as the result of a filtering closure, as the first component
of a key tuple, or in any shape the rule does not recognise (not decided, stated in the obligation text).
"""
import re
from ..interp import short

BY_KEY = re.compile(r'::(min|max|sort|sort_unstable|sort_by_cached|binary_search)_by_key$|::sort_by_cached_key$')
IN_USE_FNS = ('::strong_count', '::weak_count', 'Arc::<T, A>::get_mut', 'Arc::<T, A>::try_unwrap', 'Arc::<T, A>::is_unique')
CMP = ('Gt', 'Ge', 'Lt', 'Le', 'Eq', 'Ne')


def find_pops(f, P):
    """the eviction routines: AsyncLruCache functions that remove an entry from the map and hand it to their caller"""
    from ..guard import Deps
    pops = []
    for b in f.body_list:
        if 'AsyncLruCache' not in b.path or b.kind == 'Closure' or b.is_coroutine or '::tests::' in b.path:
            continue
        rem = [(bi, t) for bi, t in b.calls() if (t.get('fn') or '').endswith('::remove') and 'HashMap' in (t.get('fn') or '')]
        if not rem:
            continue
        dp = Deps(P, b)
        ret = set()
        for rbi in b.reachable():
            if b.blocks[rbi]['term']['k'] == 'return':
                ret |= dp.of_place({'l': 0, 'p': []}, (rbi, 10 ** 6))
        if any(x[0] == 'fn' and x[1].endswith('::remove') and 'HashMap' in x[1] for x in ret):
            pops.append(b)
    return pops


def _derived(body, seeds):
    """locals whose value is computed from the seed locals by moves, casts, comparisons and negation"""
    der = set(seeds)
    changed = True
    while changed:
        changed = False
        for bl in body.blocks:
            for s in bl['st']:
                if s.get('k') != 'assign' or s['pl']['p']:
                    continue
                rv = s['rv']
                if rv['k'] in ('use', 'cast', 'bin', 'un', 'unary', 'not'):
                    if any(o['k'] in ('copy', 'move') and o['pl']['l'] in der and not o['pl']['p'] for o in rv.get('ops', [])):
                        if s['pl']['l'] not in der:
                            der.add(s['pl']['l'])
                            changed = True
    return der


def key_closures(f, bodies):
    """closure paths handed to a *_by_key adaptor in one of `bodies`"""
    out = {}
    for b in bodies:
        for bi, t in b.calls():
            fn = t.get('fn') or ''
            if not BY_KEY.search(fn):
                continue
            for a in t['args']:
                if a['k'] not in ('copy', 'move'):
                    continue
                ty = f.types[b.locals[a['pl']['l']]]
                if ty['k'] == 'closure':
                    out[ty['p']] = (fn.split('::')[-1], b.where(bi))
    return out


def precedence(f, pop_body, closures):
    """-> list of (closure, where, adaptor, index, arity) for key tuples in which the in-use test is not the first component"""
    bad = []
    seen = 0
    keyc = key_closures(f, [pop_body] + list(closures))
    for c in closures:
        if c.path not in keyc:
            continue
        seeds = {t['dst']['l'] for _bi, t in c.calls() if any((t.get('fn') or '').endswith(x) for x in IN_USE_FNS)
                 and t.get('dst') and not t['dst']['p']}
        if not seeds:
            continue
        der = _derived(c, seeds)
        for bi, bl in enumerate(c.blocks):
            for s in bl['st']:
                if s.get('k') != 'assign' or s['rv']['k'] != 'agg' or s['rv'].get('ak') != 'tuple':
                    continue
                ops = s['rv']['ops']
                idx = [i for i, o in enumerate(ops) if o['k'] in ('copy', 'move') and not o['pl']['p'] and o['pl']['l'] in der]
                if not idx:
                    continue
                seen += 1
                first = idx[0]
                if first >= 1 and any(o['k'] != 'const' for o in ops[:first]):
                    bad.append((c, c.where(bi), keyc[c.path][0], first, len(ops)))
    return bad, seen, len(keyc)


def report(f, rep, rid, pops):
    rep.floor('eviction candidate selection functions', len(pops), 1)
    rep.rule(rid, 'in the eviction victim selection the in-use test takes precedence over recency: it is not a later component '
                  'of a lexicographic ordering key')
    for b in pops:
        pres = tuple([b.path + '::'] + [h + '::' for (c, h) in getattr(f, 'folded', []) if c == b.path])
        closures = [c for c in f.body_list if c.kind == 'Closure' and c.path.startswith(pres)]
        bad, seen, nkey = precedence(f, b, closures)
        rep.ob(rid, 'precedence in %s' % short(b.path), not bad,
               '%d ordering-key closure(s), %d key tuple(s) carrying the in-use test; %s' % (
                   nkey, seen, 'none subordinates it' if not bad else 'subordinate at component %d of %d' % (bad[0][3], bad[0][4])))
        for (c, where, adaptor, i, n) in bad:
            rep.violation(rid, '%s:%s' % (rid, short(b.path)), where,
                          '%s orders the eviction candidates with `%s` on a %d-tuple whose component %d is the in-use test: tuples '
                          'compare lexicographically, so the earlier component decides and "in use" only breaks ties - the least '
                          'recently used slice is evicted while an operation still holds it and unused slices exist; that operation '
                          'then updates an entry that is no longer in the cache, its changes are never flushed and the next user '
                          're-reads a stale copy' % (short(b.path), adaptor, n, i))


def presence(f, rep, rid, pops):
    """the selection looks at the reference count of the entries at all (C06.5, shared)"""
    rep.rule(rid, 'eviction candidate selection depends on Arc::strong_count of the entry')
    for b in pops:
        pres = tuple([b.path + '::'] + [h + '::' for (c, h) in getattr(f, 'folded', []) if c == b.path])
        closures = [c for c in f.body_list if c.kind == 'Closure' and c.path.startswith(pres)]

        def counts(x):
            return any(any((t.get('fn') or '').endswith(n) for n in IN_USE_FNS) for _bi, t in x.calls())
        uses = [c for c in closures if counts(c)] + ([b] if counts(b) else [])
        ok = bool(uses)
        rep.ob(rid, 'selection in %s' % short(b.path), ok, '%d of %d selection closures test the reference count' % (len(uses), len(closures)))
        if not ok:
            rep.violation(rid, '%s:%s' % (rid, short(b.path)), b.where(0),
                          '%s selects the eviction victim without looking at the reference count of the entries: a slice '
                          'in use by another operation is evicted while unused slices exist, the user updates an orphaned '
                          'entry that is never flushed' % short(b.path))

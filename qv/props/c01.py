"""C01 — sequential reads equal a flat reference disk (read-your-writes, frame).

Decided (necessary structural conditions, engines F/G + dependence rules):
  C01.1  read-fill: in every read handler (a Qcow2Dev method taking the caller's
         `&mut [u8]` and returning a byte count) every Ok(n) with n != 0 is preceded on
         all paths by a fill of that buffer (backend read into it, zero fill, copy into
         it, inflate into it, or a nested handler given the buffer)
  C01.2  short-count discipline: the count of a backend read issued by a handler is
         compared with the requested length before the handler returns Ok
  C01.3  zero-once covers the whole cluster: the zeroing request issued before the first
         partial write of a new data cluster starts at the cluster and is exactly one
         cluster long
  C01.4  install => mark-new pairing: a freshly allocated cluster that is installed in a
         mapping table is registered as new in the same routine
  C01.5  dispatch totality: do_read hands the buffer to a handler for every mapping kind
Not decided: index arithmetic of the L1/L2 lookup and of the per-cluster split, overlay
order, equality with the reference disk.
"""
from ..absint import fmt_itv, short_vn, mentions
from ..align import AlignInt, BS, CL, shl1
from ..facts import AnalysisError
from ..guard import Deps
from ..interp import Program, short, POLL_NAMES

TARGETS = ('--lib',)

FILLERS = ('::call_read', 'Qcow2IoOps::read_to', '::read_at_for_backing', '::read_at', '::__read_at',
           'copy_from_slice', 'ptr::write_bytes', 'inflate::core::decompress', 'slice::<impl [T]>::fill')
BACKEND_READS = ('::call_read', 'Qcow2IoOps::read_to')
GHOST_FILLED = ('ghost', 'filled')


class FillInt(AlignInt):
    """ghost facts: ('al', ('ghost','filled'), 0) the caller's buffer received bytes;
    ('al', ('ghost','cmp', fut), 0) the count of backend read `fut` was compared"""

    def __init__(self, facts, handler_fns, bufvn_of, **kw):
        AlignInt.__init__(self, facts, **kw)
        self.handler_fns = handler_fns
        self.bufvn_of = bufvn_of
        self.reads = []
        self.oks = []
        self.maybuf = set()

    def derives_from_buf(self, st, v, d=0):
        bufs = self.bufvn_of()
        mb = self.maybuf
        return mentions(v, lambda x: x in bufs or x in mb)

    def join_phi(self, res, old, new, P, a, c, widen):
        AlignInt.join_phi(self, res, old, new, P, a, c, widen)
        # a value that is the caller's buffer on one side may be the buffer afterwards
        if self.derives_from_buf(old, a) or self.derives_from_buf(new, c):
            self.maybuf.add(P)

    def join(self, old, new, key, widen):
        res = AlignInt.join(self, old, new, key, widen)
        # filled on one side, and on the other side some count is known to be zero:
        # "filled, or that count is zero"
        for A, B in ((old, new), (new, old)):
            if self.has(A, GHOST_FILLED) and not self.has(B, GHOST_FILLED):
                for v, i in B.itv.items():
                    if i == (0, 0) and v[0] == 'u' and self.vn_ty(v) in ('usize', 'u64'):
                        res.le.add(('al', ('ghost', 'foz', v), ('c', 0)))
                for fct in B.le:
                    if fct[0] == 'al' and isinstance(fct[1], tuple) and fct[1][:2] == ('ghost', 'foz'):
                        res.le.add(fct)
        return res

    def ghost(self, st, g):
        st.le.add(('al', g, ('c', 0)))

    def has(self, st, g):
        return ('al', g, ('c', 0)) in st.le

    def do_call(self, b, frame, bi, t, st, depth):
        fn = t.get('fn') or ''
        hit = any(fn.endswith(x) for x in FILLERS) or fn in self.handler_fns
        if hit:
            args = [self.operand(st, b, frame, a) for a in t['args']]
            # destination operand: first slice/pointer argument that derives from the caller's buffer
            if any(self.derives_from_buf(st, a) for a in args):
                if fn.endswith('copy_from_slice'):
                    if self.derives_from_buf(st, args[0]):
                        self.ghost(st, GHOST_FILLED)
                elif fn.endswith('decompress'):
                    if len(args) > 2 and self.derives_from_buf(st, args[2]):
                        self.ghost(st, GHOST_FILLED)
                else:
                    self.ghost(st, GHOST_FILLED)
            if any(fn.endswith(x) for x in BACKEND_READS):
                self.reads.append((b.path, bi, frame))
        return AlignInt.do_call(self, b, frame, bi, t, st, depth)

    def model(self, st, b, frame, bi, t, fn, args):
        if fn.endswith('slice::<impl [T]>::as_mut_ptr') or fn.endswith('slice::<impl [T]>::as_ptr'):
            return ('u', ('ptrof', args[0]), None)
        return AlignInt.model(self, st, b, frame, bi, t, fn, args)

    def assume(self, st, vn, truth, d=0):
        AlignInt.assume(self, st, vn, truth, d)
        if vn[0] == 'cmp':
            for side in (vn[2], vn[3]):
                fut = self.read_future_of(side)
                if fut is not None:
                    self.ghost(st, ('ghost', 'cmp', fut))

    def read_future_of(self, v):
        """v is the count delivered by awaiting a backend read -> the future's creation key"""
        x = v
        while x[0] in ('wrap', 'cast'):
            x = x[1]
        if x[0] == 'u' and isinstance(x[1], tuple) and x[1] and x[1][0] == 'await':
            fut = x[1][1]
            if fut[0] == 'u' and isinstance(fut[1], tuple) and fut[1] and fut[1][0] == 'call':
                k = fut[1]
                bb = self.f.body(k[2])
                fn = (bb.blocks[k[3]]['term'].get('fn') or '') if bb is not None else ''
                if any(fn.endswith(s) for s in BACKEND_READS):
                    return (k[2], k[3])
        return None


def run(ctx, rep):
    f = ctx.lib
    P = Program(f)
    rep.explanation = (
        'C01 is decided in part: that every byte count a read handler reports was filled, that backend read counts are '
        'compared with the requested length, that the zero-once of a new cluster covers exactly the cluster, that installed '
        'fresh clusters are registered as new and that every mapping kind is dispatched to a handler are decided on every '
        'path; equality of the bytes with a reference disk is not.')
    for rid, txt in (('C01.1', 'every Ok(n != 0) of a read handler is preceded by a fill of the caller\'s buffer'),
                     ('C01.2', 'the count of a backend read is compared with the requested length before Ok'),
                     ('C01.3', 'zero-once request = [cluster start, cluster start + cluster size)'),
                     ('C01.4', 'install of a fresh cluster is paired with mark_new_cluster'),
                     ('C01.5', 'do_read dispatches every MappingSource to a handler that receives the buffer'),
                     ('C01.6', 'an index inside an L2 slice is only combined with the slice entry count, an index inside an L2 table only with the table entry count')):
        rep.rule(rid, txt)
    handlers = read_handlers(f)
    rep.floor('read handlers', len(handlers), 7)
    fill_rules(f, rep, handlers)
    zero_once_rule(f, rep)
    pairing_rule(f, P, rep)
    dispatch_rule(f, P, rep, handlers)
    unit_rule(f, P, rep)
    from . import c09
    c09.classification_rule(f, rep, 'C01.7')
    c09.read_predicate_rule(f, rep, 'C01.10')
    # C01.11: the reference disk survives flush_meta + reopen (the quantifier of C01 names reopen): necessary for that is that an
    # Ok flush_meta / shrink_caches has swept every metadata kind - the sweep-completeness obligations of the flow engine
    # (C02.3 = C05.3), taken from the cached closure
    from . import c04
    rep.rule('C01.11', 'every Ok exit of flush_meta / shrink_caches has drained both top-table queues and swept both caches (what '
                       'a reopened device reads is what was written before)')
    d = c04.closure_cached(f)
    n11 = 0
    for op in ('flush_meta', 'shrink_caches'):
        for tag, toks in d.exits.get(op, {}).items():
            if tag is not None and tag.startswith('err'):
                continue
            for t in toks:
                n11 += 1
                ram = sorted(x[1] for x in t if x[0] == 'RAM')
                rep.ob('C01.11', '%s exit %s' % (op, tag), not ram, 'RAM-dirty kinds at exit: %s' % ram)
    rep.floor('flush_meta Ok exits', n11, 2)
    for key, v in sorted(d.viol.items()):
        if v['rule'] == 'C02.3':
            rep.violation('C01.11', key.replace('C02.3', 'C01.11'), v['where'], v['msg'])
    from . import c08
    c08.grant_rule(f, P, rep, 'C01.8')
    # frame condition: a write that replaces a compressed cluster releases exactly the host clusters that extent touches - one
    # cluster too many is a neighbour's cluster, which the allocator then hands out, zeroes and overwrites
    from . import span
    rep.rule('C01.9', 'the host-cluster span released for a replaced compressed extent is exactly the clusters it touches (no neighbouring cluster is released)')
    span.allocation_rule(f, rep, 'C01.9')
    span.release_rule(f, rep, 'C01.9')


def read_handlers(f):
    """coroutine bodies of Qcow2Dev methods with a `&mut [u8]` capture and a Result<usize> output"""
    out = []
    for b in f.body_list:
        if not b.is_coroutine or 'Qcow2Dev' not in b.path or '::tests::' in b.path or not b.parent:
            continue
        ups = f.types[b.locals[1]].get('u') or []
        bufs = [k for k, u in enumerate(ups) if f.types[u]['k'] == 'ref' and f.types[u].get('m') and f.types[f.types[u]['t']]['k'] == 'slice']
        info = f.fns.get(b.parent)
        if not bufs or info is None:
            continue
        o = f.types[info['output']]
        if 'Result<usize' not in o.get('s', ''):
            continue
        out.append((b, bufs))
    return out


def fill_rules(f, rep, handlers):
    hfns = {b.parent for b, _k in handlers}
    nok = 0
    nreads = 0
    for b, bufidx in handlers:
        ups = f.types[b.locals[1]].get('u') or []
        bufs = set()
        ai = FillInt(f, hfns, lambda: bufs)
        oks = {}

        def setup(ai_, st, frame, b_):
            st.le.update(ai_.base_state().le)
            for k, tid in enumerate(ups):
                v = ('u', ('param', b.path, k), ai_.tname(tid))
                st.env[(('L', frame, 1), (('f', k),))] = v
                if k in bufidx:
                    bufs.add(v)

        def on_stmt(ai_, st, frame, b_, bi, si, s, v):
            if b_.path != b.path or frame[0] is not None:
                return
            pl = s['pl']
            if pl['l'] == 0 and not pl['p'] and v[0] == 'opt' and v[1] == 'Result':
                oks[(bi, si)] = (st.copy(), v)
        ai.stmt_hook = on_stmt
        ai.analyze(b.path, setup)
        for (bi, si), (st, v) in sorted(oks.items()):
            c = ai.itvof(st, v[3])
            if c == (0, 0):
                continue          # an Err
            pay = v[2]
            nok += 1
            i = ai.itvof(st, pay)
            zero = i == (0, 0)
            filled = ai.has(st, GHOST_FILLED)
            # a value forwarded from a nested handler (tail await) is covered by the nested handler
            fwd = mentions(pay, lambda x: x[0] == 'u' and isinstance(x[1], tuple) and x[1] and x[1][0] == 'await')
            foz = any(fct[0] == 'al' and isinstance(fct[1], tuple) and fct[1][:2] == ('ghost', 'foz') and
                      (fct[1][2] == pay or ai.itvof(st, pay) is not None and ai.prove_le(st, pay, fct[1][2])) for fct in st.le)
            ok = zero or filled or foz
            rep.ob('C01.1', 'Ok at %s of %s' % (b.where(bi), short(b.path)), ok,
                   'count is 0' if zero else ('buffer filled on every path' if filled else 'no fill of the buffer on some path'))
            if not ok:
                rep.violation('C01.1', 'C01.1:%s' % short(b.path), b.where(bi),
                              '%s returns Ok(%s) on a path on which nothing was put into the caller\'s buffer: the caller sees '
                              'stale bytes reported as read' % (short(b.path), short_vn(pay)[:80]))
            # C01.2
            for (bp, rbi, rframe) in ai.reads:
                if bp != b.path or any(b.parent.endswith(x) for x in BACKEND_READS):
                    continue          # the wrapper forwards the count; its callers are the ones that have to compare
                nreads += 1
                g = ('ghost', 'cmp', (bp, rbi))
                # the read has to be on the path: its future was awaited iff its payload is known in the state
                created = any(r[1] == rbi for r in ai.async_calls + ai.trait_calls)
                ok2 = ai.has(st, g) or not reaches(b, rbi, bi)
                rep.ob('C01.2', 'count of the backend read at %s before Ok at %s' % (b.where(rbi), b.where(bi)), ok2,
                       'compared with the requested length' if ok2 else 'never compared')
                if not ok2:
                    rep.violation('C01.2', 'C01.2:%s' % short(b.path), b.where(rbi),
                                  '%s returns Ok without comparing the count of its backend read with the requested length: a '
                                  'short read leaves the rest of the caller\'s buffer unfilled (or reports a short count)' % short(b.path))
    rep.floor('Ok returns of read handlers', nok, 8)
    rep.floor('backend reads in read handlers', nreads, 1)


def reaches(b, src, dst):
    return dst in b.reachable(src)


def zero_once_rule(f, rep):
    bodies = [b for b in f.body_list if b.is_coroutine and b.path.endswith('do_write_data_file::{closure#0}')]
    if len(bodies) != 1:
        raise AnalysisError('do_write_data_file not found')
    b = bodies[0]
    ai = AlignInt(f)
    ups = f.types[b.locals[1]].get('u') or []

    def setup(ai_, st, frame, b_):
        st.le.update(ai_.base_state().le)
        for k, tid in enumerate(ups):
            st.env[(('L', frame, 1), (('f', k),))] = ('u', ('param', b.path, k), ai_.tname(tid))
    ai.mapping_except = ()
    ai.analyze(b.path, setup)
    zs = {}
    for r in ai.async_calls:
        if r[2].endswith('::call_fallocate'):
            zs[(r[1], r[6])] = r
    rep.floor('zero-once requests in do_write_data_file', len(zs), 1)
    cs = shl1(CL)
    for (bi, fr), (bp, _bi, fn, name, args, st, frame, t) in sorted(zs.items(), key=lambda kv: kv[0][0]):
        off, ln = args[1], args[2]
        ok_off = ai.is_mult(st, off, CL)
        ok_len = ai.prove_le(st, ln, cs) and ai.prove_le(st, cs, ln)
        rep.ob('C01.3', 'zero-once offset at %s' % b.where(bi), ok_off, ai.show(st, off)[:120])
        rep.ob('C01.3', 'zero-once length at %s' % b.where(bi), ok_len, ai.show(st, ln)[:120])
        if not ok_off:
            rep.violation('C01.3', 'C01.3:do_write_data_file:offset', b.where(bi),
                          'the zeroing of a new data cluster does not start at the cluster: %s' % ai.show(st, off)[:160])
        if not ok_len:
            rep.violation('C01.3', 'C01.3:do_write_data_file:length', b.where(bi),
                          'the zeroing of a new data cluster is not exactly one cluster long (%s): the unwritten rest of the '
                          'cluster keeps stale host bytes, which later reads return' % ai.show(st, ln)[:160])


INSTALLS = ('L2Table::map_cluster', 'L1Table::map_l2_offset', 'RefTable::set_refblock_offset')
PAIRING_EXCEPTIONS = {'grow_reftable': 'writes the new refblock at once and zeroes the rest of its slice range itself (C12.3)'}


def pairing_rule(f, P, rep):
    n = 0
    for b in f.body_list:
        if '::tests::' in b.path or not b.is_coroutine:
            continue
        inst = [(bi, t) for bi, t in b.calls() if any((t.get('fn') or '').endswith(x) for x in INSTALLS)]
        if not inst:
            continue
        dp = Deps(P, b)
        marks = [(bi, t) for bi, t in b.calls() if (t.get('fn') or '').endswith('::mark_new_cluster')]
        for bi, t in inst:
            n += 1
            nm = short(b.path)
            if nm in PAIRING_EXCEPTIONS:
                rep.assume('%s: %s' % (nm, PAIRING_EXCEPTIONS[nm]))
                continue
            d = roots(dp.of_operand(t['args'][2], (bi, 10 ** 6)))
            ok = False
            for mbi, mt in marks:
                md = roots(dp.of_operand(mt['args'][1], (mbi, 10 ** 6)))
                if d & md:
                    ok = True
            rep.ob('C01.4', '%s in %s at %s' % (short(t['fn']), nm, b.where(bi)), ok,
                   'the installed cluster is registered as new' if ok else 'no mark_new_cluster on the installed value')
            if not ok:
                rep.violation('C01.4', 'C01.4:%s:%s' % (nm, short(t['fn'])), b.where(bi),
                              '%s installs a freshly allocated cluster without registering it as new: it is neither zeroed '
                              'before its first partial write nor built from in-flight state when loaded' % nm)
    rep.floor('install sites', n, 5)


def roots(deps):
    return {x for x in deps if x[0] in ('fn', 'in') and not (x[0] == 'fn' and (x[1].endswith('cluster_bits') or x[1].endswith('l2_slice_index')
                                                                            or 'fmt' in x[1] or x[1].endswith('::into') or 'Try::branch' in x[1]))}


def dispatch_rule(f, P, rep, handlers):
    b = [x for x, _k in handlers if x.path.endswith('::do_read::{closure#0}')]
    if len(b) != 1:
        raise AnalysisError('do_read not found')
    b = b[0]
    src_adt = f.adts.get('meta::l2::MappingSource')
    names = [v['n'] for v in src_adt['variants']]
    hfns = {x.parent for x, _k in handlers}
    found = False
    for bi in sorted(b.reachable()):
        t = b.blocks[bi]['term']
        if t['k'] != 'switch':
            continue
        isdisc = False
        for st in b.blocks[bi]['st']:
            if st['k'] == 'assign' and st['rv']['k'] == 'discr':
                from .c20 import place_tid
                tid = place_tid(f, b, st['rv']['pl'])
                if tid is not None and f.types[tid].get('p') == 'meta::l2::MappingSource':
                    isdisc = True
        if not isdisc:
            continue
        found = True
        targets = {int(x['v']): x['t'] for x in t['ts']}
        for vi, name in enumerate(names):
            tgt = targets.get(vi)
            explicit = tgt is not None
            if tgt is None:
                tgt = t['o']
            calls = [ci for ci, ct in b.calls() if ct.get('fn') in hfns and ci in b.reachable(tgt) and b.dominates(tgt, ci)]
            if not calls:
                # the arm fills the buffer itself (a handler inlined into the dispatcher); that every Ok(n != 0) is preceded
                # by a fill is decided by C01.1 on the dispatcher as well
                calls = [ci for ci, ct in b.calls() if any((ct.get('fn') or '').endswith(x) for x in FILLERS)
                         and ci in b.reachable(tgt) and b.dominates(tgt, ci)]
            ok = explicit and bool(calls)
            rep.ob('C01.5', 'do_read arm %s' % name, ok, 'handled by %s' % short(b.blocks[calls[0]]['term']['fn']) if ok else 'no handler')
            if not ok:
                rep.violation('C01.5', 'C01.5:do_read:%s' % name, b.where(bi), 'do_read has no handler for %s mappings' % name)
    if not found:
        raise AnalysisError('do_read: match on MappingSource not found')


# counts and the indexes that range over them
UNITS = {
    'slice': {'count': ('l2_slice_entries',), 'index': ('SplitGuestOffset::l2_slice_index',)},
    'table': {'count': ('Qcow2Info::l2_entries',), 'index': ('SplitGuestOffset::l2_index',)},
}


def unit_rule(f, P, rep):
    """count - index (the number of entries left in a slice / a table): both have to be of the same table unit"""
    n = 0
    for b in f.body_list:
        if '::tests::' in b.path:
            continue
        dp = None
        for bi in sorted(b.reachable()):
            for si, s in enumerate(b.blocks[bi]['st']):
                if s['k'] == 'assign' and s['rv']['k'] == 'bin' and s['rv']['op'].startswith('Add'):
                    # offset + (slice entry count << cluster_bits): a whole-slice span added to an offset that need not
                    # be at the start of a slice
                    if dp is None:
                        dp = Deps(P, b)
                    for x_, y_ in ((0, 1), (1, 0)):
                        dy = dp.of_operand(s['rv']['ops'][y_], (bi, si))
                        if any(z[0] == 'field' and z[1] == 'l2_slice_entries' for z in dy) and \
                                any(z[0] == 'fn' and z[1].endswith('cluster_bits') for z in dy) and \
                                not any(z[0] == 'fn' and z[1].endswith('l2_slice_index') for z in dy):
                            rep.ob('C01.6', 'slice span added to an offset in %s at %s' % (short(b.path), b.where(bi)), False,
                                   'the span is a whole slice, the slice index of the offset is not subtracted')
                            rep.violation('C01.6', 'C01.6:%s:span' % short(b.path), b.where(bi),
                                          '%s advances an offset by the span of a whole L2 slice without subtracting the position '
                                          'of the offset inside its slice: when the offset is in the middle of a slice the round runs '
                                          'past the end of the slice' % short(b.path))
                    continue
                if s['k'] != 'assign' or s['rv']['k'] != 'bin' or not s['rv']['op'].startswith('Sub'):
                    continue
                if dp is None:
                    dp = Deps(P, b)
                da = dp.of_operand(s['rv']['ops'][0], (bi, si))
                db = dp.of_operand(s['rv']['ops'][1], (bi, si))

                def unit_of(d, what):
                    us = set()
                    for u, tab in UNITS.items():
                        for nm in tab[what]:
                            if any((x[0] == 'fn' and x[1].endswith(nm)) or (x[0] == 'field' and x[1] == nm) for x in d):
                                us.add(u)
                    return us
                ca, ib = unit_of(da, 'count'), unit_of(db, 'index')
                if not ca or not ib:
                    continue
                n += 1
                ok = ca == ib or (len(ca) > 1 or len(ib) > 1)
                rep.ob('C01.6', 'entries left: count - index in %s at %s' % (short(b.path), b.where(bi)), ok,
                       'count of %s, index of %s' % (sorted(ca), sorted(ib)))
                if not ok:
                    rep.violation('C01.6', 'C01.6:%s' % short(b.path), b.where(bi),
                                  '%s subtracts an index inside an L2 %s from the entry count of an L2 %s: the number of entries left '
                                  'is wrong whenever a slice is smaller than a table, so look-ups run across the boundary' % (
                                      short(b.path), sorted(ib)[0], sorted(ca)[0]))
    rep.floor('count - index computations', n, 2)

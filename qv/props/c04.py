"""C04 — every crash state is a safe qcow2 image (ordered metadata flush).

Engine A (qv/flow.py): obligations O1..O7 evaluated at every backend write on
every path of every public operation, with the history closure U* (requests
left unsynced by *any* sequence of earlier API calls).
"""
from ..interp import Program, Interp, short
from ..flow import FlowDomain, persistent, phase_rule
from ..facts import AnalysisError
from .. import api

TARGETS = ('--lib',)
OPS = ('read_at', 'write_at', 'discard', 'flush_meta', 'shrink_caches', 'fsync_range')

RULES = {
    'C04.O1': 'at W(reftable block): no refblock slice write / refblock-cluster zeroing is unsynced',
    'C04.O2': 'at W(L1 block): no L2 slice write / L2-cluster zeroing is unsynced',
    'C04.O3': 'at W(L2 slice) and W(L1 block): no refblock or reftable write is unsynced',
    'C04.O3r': 'at W(L2 slice) and W(L1 block): no refcount increment exists only in RAM (refcount sweep precedes)',
    'C04.O4': 'a refcount release is requested only after the removal of the reference is written and synced '
              '(exempt: clusters allocated in the same critical section)',
    'C04.O5': 'at W(header) switching a table: the new table and everything it points to is synced',
    'C04.O6': 'a cached slice write is polled only after the zeroing of its new cluster completed',
    'C04.O7': 'at W(L2)/W(L1): no copy-on-write data write is unsynced',
    'C04.O8': 'a cluster leaves the new-cluster map only after the zeroing request created for it has completed',
    'C02.5': 'a cached slice is written only by a function that resolved the new-cluster state of its host cluster',
    'C04.L': 'refcount phase precedes the mapping phase in every pass of a flush loop',
}


class Snapshot:
    """Picklable result of the flow analysis (derived from one facts file)."""
    pass


def closure_cached(f, faults=False):
    """The flow analysis is a deterministic function of the facts and of the
    engine code; its result is cached under the hash of both.  The facts are
    re-extracted from /repo's working tree on every run."""
    import hashlib, pickle, os, glob
    h = hashlib.sha256()
    h.update(f.digest.encode())
    here = os.path.dirname(os.path.dirname(os.path.abspath(__file__)))
    for src in sorted(glob.glob(os.path.join(here, '*.py')) + glob.glob(os.path.join(here, 'props', 'c04.py'))):
        with open(src, 'rb') as fh:
            h.update(fh.read())
    h.update(b'faults' if faults else b'crash')
    cdir = os.path.join(os.path.dirname(here), '.cache', 'flow')
    os.makedirs(cdir, exist_ok=True)
    cp = os.path.join(cdir, h.hexdigest()[:32] + '.pkl')
    if os.path.exists(cp) and not os.environ.get('QV_NOCACHE'):
        try:
            with open(cp, 'rb') as fh:
                return pickle.load(fh)
        except Exception:
            pass
    d, ip, ustar, exits, api_viol = closure(f, faults)
    snap = Snapshot()
    d.viol.update(api_viol)
    snap.viol = d.viol
    snap.viol_sites = d.viol_sites
    snap.obl = d.obl
    snap.sites = d.sites
    snap.undecided = d.undecided
    snap.cut_hangs = sorted(d.cut_hangs)
    snap.hang_frames = sorted(d.hang_frames)
    snap.assumed_dead = getattr(d, 'assumed_dead', False)
    snap.extra = getattr(d, 'extra', {})
    snap.flag_invariant_used = getattr(d, 'flag_invariant_used', False)
    snap.classes_seen = set(d.classes_seen)
    snap.phase = phase_rule(f) if not faults else []
    snap.ustar = ustar
    snap.exits = exits
    snap.units = len(ip.units_seen)
    snap.stats = ip.stats
    snap.unresolved = ip.unresolved
    tmp = cp + '.%d' % os.getpid()
    with open(tmp, 'wb') as fh:
        pickle.dump(snap, fh)
    os.replace(tmp, cp)
    # keep the cache small
    olds = sorted(glob.glob(os.path.join(cdir, '*.pkl')), key=os.path.getmtime)
    for o in olds[:-6]:
        try:
            os.remove(o)
        except OSError:
            pass
    return snap


def closure(f, faults=False):
    """History closure: analyse every operation with the union of what any
    operation can leave behind, to a fixpoint."""
    P = Program(f)
    # pass 1: learn which functions end in a certain self-deadlock (C07.1)
    d0 = FlowDomain(P, faults=faults)
    ip0 = Interp(P, d0)
    for op in OPS:
        ip0.run(api.dev_method(f, op), tok=d0.initial())
    d = FlowDomain(P, faults=faults, known_hang=d0.hang_by_class)
    d.hang_frames = set(d0.hang_frames)
    ip = Interp(P, d)
    ustar = frozenset()
    exits = {}
    exits_full = {}
    for _round in range(10):
        new = set(ustar)
        for op in OPS:
            b = api.dev_method(f, op)
            res = ip.run(b, tok=ustar)
            ex = set()
            for tag, toks in res.items():
                for t in toks:
                    exits_full.setdefault(op, {}).setdefault(tag, set()).add(t)
                if tag is not None and tag.startswith('err'):
                    continue     # crash model: operations complete (fault sequences are C17)
                for t in toks:
                    # requests issued by a function that can only end in a certain
                    # self-deadlock (C07 finding) never leave the operation
                    pt = frozenset(x for x in persistent(t) if not (x[0] == 'U' and x[2] in d.hang_frames))
                    ex |= pt
                    exits.setdefault(op, {}).setdefault(tag, set()).add(pt)
            new |= ex
        new = frozenset(new)
        if new == ustar:
            break
        ustar = new
    else:
        raise AnalysisError('history closure did not converge')
    if ip.unresolved:
        raise AnalysisError('unresolved awaits: ' + '; '.join(ip.unresolved[:5]))
    # obligations on what an API call may leave behind when it returns Ok
    api_viol = {}
    for op, ex in exits_full.items():
        for tag, toks in ex.items():
            if tag is not None and tag.startswith('err'):
                if faults:
                    for t in toks:
                        for x in t:
                            if x[0] == 'VICTIMS':
                                api_viol['C17.2:victims'] = {
                                    'rule': 'C17.2', 'where': api.dev_method(f, op).where(0), 'chain': op,
                                    'msg': 'dirty %s slices evicted from the cache are dropped unwritten when their '
                                           'write-back (or the refcount flush before it) fails in %s: the evicted '
                                           'entries are no longer in the cache, so no later flush_meta() can write '
                                           'them' % (x[1], op)}
                continue
            for t in toks:
                for x in t:
                    if x[0] == 'MUT':
                        api_viol['C02.1:%s:%s' % (op, x[1])] = {
                            'rule': 'C02.1', 'where': api.dev_method(f, op).where(0), 'chain': op,
                            'msg': '%s can return Ok after changing a cached %s slice without marking the cache '
                                   'entry dirty: the change is never flushed' % (op, x[1])}
                    if x[0] == 'VICTIMS':
                        api_viol['C02.2:%s:%s' % (op, x[1])] = {
                            'rule': 'C02.2', 'where': api.dev_method(f, op).where(0), 'chain': op,
                            'msg': '%s can return Ok with dirty %s slices evicted from the cache but not written '
                                   'back' % (op, x[1])}
                    if x[0] == 'NEEDFLAG':
                        api_viol['C18.1:%s' % x[1]] = {
                            'rule': 'C18.1', 'where': api.dev_method(f, op).where(0), 'chain': op,
                            'msg': 'metadata dirtied in %s is not followed by setting need_flush before %s returns'
                                   % (x[1], op)}
                    if x[0] == 'RAM' and op in ('flush_meta', 'shrink_caches'):
                        api_viol['C02.3:%s:%s' % (op, x[1])] = {
                            'rule': 'C02.3', 'where': api.dev_method(f, op).where(0), 'chain': op,
                            'msg': '%s can return Ok while metadata of kind %s may still be dirty only in RAM '
                                   '(the flush is not complete on every Ok path)' % (op, x[1])}
                    if x[0] == 'U' and op == 'fsync_range':
                        api_viol['C05.1:%s' % x[1]] = {
                            'rule': 'C05.1', 'where': api.dev_method(f, op).where(0), 'chain': op,
                            'msg': 'fsync_range can return Ok without a completed backend fsync (requests of class '
                                   '%s stay unsynced)' % x[1]}
    return d, ip, ustar, exits, api_viol


def report(d, rep, rules):
    for (rule, site), (ok, detail) in sorted(d.obl.items()):
        if rule in rules:
            rep.ob(rule, site, ok, detail)
    for key, v in sorted(d.viol.items()):
        if v['rule'] in rules:
            sites = sorted(d.viol_sites.get(key, ()))
            msg = v['msg']
            if sites:
                msg += ' [dependent writes affected: %s]' % ', '.join(sites)
            rep.violation(v['rule'], key, v['where'], msg, {'path': v['chain'], 'events': sites})


def phase(d, rep, rid):
    rep.rule(rid, 'in every loop of a function that performs the complete refcount sweep and writes mapping tables, '
                  'the sweep is inside the loop and dominates the mapping writes (refcount phase precedes the mapping '
                  'phase in every pass)')
    n = 0
    for (fn, where, ok, detail) in d.phase:
        n += 1
        rep.ob(rid, 'loop@%s in %s' % (where, fn), ok, detail)
        if not ok:
            rep.violation(rid, '%s:%s' % (rid, fn), where,
                          'in %s a pass of the flush loop writes mapping tables without performing the complete '
                          'refcount sweep in the same pass: refcount changes made by another task while an earlier '
                          'pass waited for I/O are not flushed before the mappings that depend on them (%s)' % (fn, detail))
    rep.floor('loops with mapping writes examined', n, 1)


def floors(d, rep):
    kinds = {}
    for (kind, where), info in d.sites.items():
        kinds.setdefault(kind, set()).add(where)
    rep.floor('backend write sites (trait call)', len(kinds.get('write', ())), 1)
    rep.floor('backend fallocate sites', len(kinds.get('fallocate', ())), 1)
    rep.floor('backend fsync sites', len(kinds.get('fsync', ())), 1)
    rep.floor('slice sweeps', len(kinds.get('sweep', ())), 1)
    rep.floor('map/unmap sites', len(kinds.get('map', ())) + len(kinds.get('unmap', ())), 4)


def common(ctx, rep):
    f = ctx.lib
    d = closure_cached(f)
    if d.unresolved:
        raise AnalysisError('unresolved awaits: ' + '; '.join(d.unresolved[:5]))
    seen_cls = set(d.classes_seen)
    rep.count('units analysed', d.units)
    rep.count('history closure facts', len(d.ustar))
    rep.count('request classes observed', len(seen_cls))
    need = {'RB', 'L2', 'RT', 'L1', 'HDR', 'DATA', 'COW', 'ZM:RB', 'ZM:L2', 'ZD', 'PUNCH', 'RB:P', 'RT:P'}
    missing = sorted(need - seen_cls)
    if missing:
        raise AnalysisError('request classes never observed: %s (buffer/offset provenance lost)' % missing)
    if 'Z?' in seen_cls:
        raise AnalysisError('a zero/punch request could not be classified: ' + '; '.join(d.undecided[:3]))
    floors(d, rep)
    if d.assumed_dead:
        rep.assume('ASSUMED DEAD (one named symbol): paths through L1Table::clone_and_grow (relocation of the L1 '
                   'table) are not explored: Qcow2Dev::new sizes the in-RAM L1 table for the whole virtual disk and '
                   'write_at rejects offsets beyond it, so the branch is never taken (numeric invariant, not decided)')
    if d.cut_hangs:
        rep.assume('paths behind a certain self-deadlock are not explored (reported by C07.1): ' +
                   '; '.join(d.cut_hangs))
    return d


def run(ctx, rep):
    rep.explanation = (
        'C04 is decided in part: the ordering obligations O1-O8 (a pointer is written only after its target is '
        'synced; refcounts before mappings; releases after unreferencing; zero-once before slice writes; header '
        'switch after the new table is synced) are evaluated at every backend write on every path of every public '
        'operation, with the unsynced-request set closed over all histories of API calls. Torn writes inside one '
        'request and the validity of each crash image are not decided (value level).')
    for k, v in RULES.items():
        if k.startswith('C04'):
            rep.rule(k, v)
    rep.assume('request classes are per table kind, not per cluster (an implementation tracking per-slice '
               'dependencies would be reported although safe; the code has none)')
    rep.assume('the backend fsync is a whole-file barrier (C05.2 checks the three implementations)')
    rep.assume('crash model: backend requests complete successfully (fault sequences are C17)')
    d = common(ctx, rep)
    n_ob = len([1 for (r, s) in d.obl if r.startswith('C04')])
    rep.floor('ordering obligations evaluated', n_ob, 10)
    rep.floor('removals from the new-cluster map', len({w for (k, w) in d.sites if k == 'newmap-remove'}), 2)
    report(d, rep, {k for k in RULES if k.startswith('C04')})
    phase(d, rep, 'C04.L')
    from .c15 import key_rule
    from ..interp import Program as _P
    key_rule(ctx.lib, _P(ctx.lib), rep, 'C04.K')
    rep.count('leaks (request classes some API call can leave unsynced)', len([x for x in d.ustar if x[0] == 'U']))
    flusher_serialisation(ctx.lib, rep, 'C04.S')


def flusher_serialisation(f, rep, rid):
    """the function that takes the flush mutex runs every flushing phase under it: two flushers must not
    interleave (the second one sees dirty flags already cleared by the first and writes dependent tables
    before the first one's writes are on disk)"""
    from ..interp import Program, Interp, short
    from ..locks import LockDomain
    from .. import api
    rep.rule(rid, 'every asynchronous phase of the routine that owns the flush mutex is entered with the mutex held')
    P = Program(f)
    d = LockDomain(P)
    ip = Interp(P, d)
    for e in api.CONCURRENT_OPS:
        ip.run(api.dev_method(f, e))
    owners = set(d.acq_by.get('flush', ()))
    rep.floor('routines running phases under the flush mutex', len(owners), 1)
    n = 0
    for (caller, callee), hs in sorted(d.enter_by.items()):
        if caller not in owners:
            continue
        cb = [b for b in f.body_list if short(b.path) == callee and b.is_coroutine]
        if not cb:
            continue        # synchronous helpers do not suspend
        n += 1
        ok = all(('flush', 'mutex') in h for h in hs)
        rep.ob(rid, '%s -> %s' % (caller, callee), ok, 'entered with the flush mutex held in %d context(s)' % len(hs) if ok else
               'entered without the flush mutex in some context')
        if not ok:
            rep.violation(rid, '%s:%s->%s' % (rid, caller, callee), '',
                          '%s runs %s without holding the flush mutex it takes elsewhere: a second flusher can run in between, '
                          'find the dirty flags already cleared and write dependent tables before the first flusher\'s writes '
                          'are on disk' % (caller, callee))
    rep.floor('flush phases checked', n, 2)

"""C08 — host clusters have exactly one owner; the allocator never double-allocates.

Decided (DESIGN C08):
  C08.1  scan and increment are atomic: the free-range scan and alloc_range use the
         same refblock write guard with no suspension point in between
  C08.2  the range handed to alloc_range derives from the free-range scan
  C08.3  the free hint moves down on free and up on single allocation: the function
         that decrements refcounts lowers the hint under an is_zero test of the
         decremented entry, the allocator raises it only under its count == 1 test
  C08.4  a cluster re-enters the free pool once: the release is decided under the
         slice write guard that removes the mapping (check-then-act, shared with C06.1)
Not decided: numeric ownership, run length, bounded file growth (value level).
"""
from ..interp import Program, short, POLL_NAMES
from ..critsec import check_then_act, scan_increment, run_pairs, run_contiguity
from ..guard import Deps
from ..facts import AnalysisError

TARGETS = ('--lib',)


ALLOCATORS = ('::allocate_cluster', '::allocate_clusters')


def grant_rule(f, P, rep, rid):
    """Every host cluster installed as the mapping of a guest cluster (L2Table::map_cluster) out of an
    allocation lies inside the run the allocator granted: the installed offset is  start + (k << cluster_bits)
    with (start, count) the allocator's result and k < count proved on every path reaching the install (k = 0:
    the first cluster of the grant).  A cluster beyond the grant has refcount 0 or another owner."""
    from ..align import AlignInt, CL
    from ..absint import short_vn
    rep.rule(rid, 'a host cluster installed by map_cluster out of an allocation is start + (k << cluster_bits) of the granted run '
                  '(start, count) with k < count on every path (k = 0 for the first cluster)')
    rep.assume('the allocator returns non-empty runs: the first cluster of a grant is always owned by the requester (C08.1/C08.5 decide the run itself)')
    ai = AlignInt(f)
    last = {}

    def hook(ai_, st, frame, b, bi, t, args):
        if frame[0] is None:
            last[(b.path, bi)] = (st, list(args))
        return None
    ai.hooks['L2Table::map_cluster'] = hook
    bodies = [b for b in f.body_list if '::tests::' not in b.path and
              any((t.get('fn') or '').endswith('L2Table::map_cluster') for _bi, t in b.calls())]
    for b in bodies:
        ai.analyze(b.path)

    def peel(v):
        n = 0
        while isinstance(v, tuple) and v and v[0] in ('wrap', 'cast') and n < 8:
            v = v[1]
            n += 1
        return v

    def pair_first(v):
        return v[0] == 'u' and isinstance(v[1], tuple) and v[1] and v[1][0] == 'proj' and tuple(v[1][2]) == (('f', 0),)
    n = 0
    for b in bodies:
        dp = Deps(P, b)
        for bi, t in b.calls():
            if not (t.get('fn') or '').endswith('L2Table::map_cluster') or len(t['args']) < 3:
                continue
            d = dp.of_operand(t['args'][2], (bi, 10 ** 6))
            if not any(x[0] == 'fn' and x[1].endswith(ALLOCATORS) for x in d):
                continue            # not a fresh allocation (e.g. an old mapping put back)
            site = '%s at %s' % (short(b.path), b.where(bi))
            rec = last.get((b.path, bi))
            if rec is None:
                raise AnalysisError('grant rule: map_cluster in %s is not reached by the value analysis' % site)
            st, args = rec
            v = peel(ai.strip(st, args[2]))
            base, off = v, None
            if v[0] == 'bin' and v[1] == 'Add':
                x, y = peel(v[2]), peel(v[3])
                if pair_first(x):
                    base, off = x, y
                elif pair_first(y):
                    base, off = y, x
            n += 1
            if not pair_first(base):
                ok, why = False, 'the installed offset %s is not start (+ index << cluster_bits) of an allocator result' % short_vn(v)[:140]
            elif off is None or off == ('c', 0):
                ok, why = True, 'first cluster of the grant'
            else:
                cnt = ('u', ('proj', base[1][1], (('f', 1),)), 'usize')
                k = None
                def is_cl(sh):
                    return sh is not None and peel(ai.strip(st, sh)) == CL
                if off[0] == 'bin' and off[1] == 'Shl' and is_cl(off[3]):
                    k = off[2]
                elif off[0] == 'bin' and off[1] == 'Mul':
                    for x, y in ((off[2], off[3]), (off[3], off[2])):
                        if is_cl(ai.pow2_shift(st, y)) or is_cl(ai.pow2_shift(st, peel(y))):
                            k = x
                if k is not None and peel(k)[0] != 'bin':
                    k = peel(k)
                if k is None:
                    ok, why = False, 'the offset into the run, %s, is not an index shifted by cluster_bits' % short_vn(off)[:120]
                else:
                    try:
                        ok = ai.prove_le(st, k, cnt, True)
                    except RecursionError:
                        ok = False
                    why = 'index %s %s the granted count' % (short_vn(k)[:80], 'is proved below' if ok else 'is NOT proved below')
            rep.ob(rid, site, ok, why)
            if not ok:
                rep.violation(rid, '%s:%s' % (rid, short(b.path)), b.where(bi),
                              '%s maps a guest cluster to a host cluster that is not provably inside the run the allocator '
                              'granted (%s): the cluster beyond the grant is free or owned by something else, two owners share it '
                              'after the next allocation' % (short(b.path), why))
    rep.floor('installs of freshly allocated clusters', n, 2)


def run(ctx, rep):
    f = ctx.lib
    P = Program(f)
    rep.explanation = (
        'C08 is decided in part: atomicity and provenance of scan+increment, control/data dependence of the free-hint '
        'updates, and decide-under-the-guard for releases are decided on every path. Numeric ownership is not decided.')
    rep.rule('C08.1', 'free-range scan and alloc_range: one write guard, no await in between')
    rep.rule('C08.2', 'alloc_range arguments derive from get_free_range / get_tail_free_range')
    rep.rule('C08.3', 'fetch_min(hint) is control-dependent on is_zero of the decremented entry and its argument derives from the freed cluster; fetch_max(hint) is control-dependent on the requested count')
    rep.rule('C08.4', 'removal of a mapping and release of its cluster are decided by a read under the same slice write guard')
    res = scan_increment(f, P)
    rep.floor('alloc_range call sites', len(res), 1)
    for (fn, where, ok, detail) in res:
        rep.ob('C08.1', '%s at %s' % (fn, where), ok, detail)
        if not ok:
            rep.violation('C08.1', 'C08.1:%s' % fn, where,
                          '%s: the free-range scan and the refcount increment are not one atomic step (%s): two concurrent '
                          'allocations can be handed the same cluster' % (fn, detail))
    # C08.5
    rep.rule('C08.5', 'when the allocator restarts a run (count := 0) the start of the returned run is re-established before the count grows again')
    rp = run_pairs(f, P)
    rep.rule('C08.8', 'a run returned as (start, count) grows by a further piece only after that piece was compared with the end of the run (pieces of one run are adjacent)')
    rc = run_contiguity(f, P)
    rep.floor('increments of a returned run count inside a loop', len(rc), 1)
    for (fn, where, ok, detail) in rc:
        rep.ob('C08.8', '%s increment at %s' % (fn, where), ok, detail)
        if not ok:
            rep.violation('C08.8', 'C08.8:%s' % fn, where,
                          '%s: %s: pieces that are not adjacent are returned as one contiguous run, the clusters between them belong '
                          'to other owners and are mapped, zeroed and overwritten' % (fn, detail))
    if not rc or all(ok for _f, _w, ok, _d in rc):
        rep.floor('run restarts in the allocator', len(rp), 1)
    for (fn, where, ok, detail) in rp:
        rep.ob('C08.5', '%s restart at %s' % (fn, where), ok, detail)
        if not ok:
            rep.violation('C08.5', 'C08.5:%s' % fn, where,
                          '%s: %s: the returned run starts at clusters that were already given back, and extends into '
                          'clusters owned by something else' % (fn, detail))
    grant_rule(f, P, rep, 'C08.6')
    # an evicted slice that an allocator still holds is updated as an orphan: its increments are lost and the clusters are
    # handed out again
    from . import evict
    evict.report(f, rep, 'C08.10', evict.find_pops(f, P))
    from . import rollback
    rollback.report(f, P, rep, 'C08.7', ('restore',))
    # C08.3
    n = 0
    for b in f.body_list:
        if '::tests::' in b.path:
            continue
        dp = None
        for bi, t in b.calls():
            fn = t.get('fn') or ''
            if not (fn.endswith('::fetch_min') or fn.endswith('::fetch_max')):
                continue
            if 'Atomic' not in fn:
                continue
            if dp is None:
                dp = Deps(P, b)
            n += 1
            kind = 'fetch_min' if fn.endswith('fetch_min') else 'fetch_max'
            gate = 'is_zero' if kind == 'fetch_min' else None
            ok = False
            why = ''
            for sbi in b.reachable():
                st = b.blocks[sbi]['term']
                if st['k'] != 'switch' or not b.dominates(sbi, bi) or sbi == bi:
                    continue
                d = dp.of_operand(st['d'], (sbi, 10 ** 6))
                if kind == 'fetch_min' and any(x[0] == 'fn' and x[1].endswith('is_zero') for x in d) and \
                        any(x[0] == 'fn' and x[1].endswith('RefBlock::decrement') or x[0] == 'fn' and x[1].endswith('::get') for x in d):
                    ok = True
                    why = 'under the is_zero test at %s' % b.where(sbi)
                if kind == 'fetch_max' and any(x[0] == 'in' for x in d) and not any(x[0] == 'fn' and 'poll' in x[1] for x in d):
                    ok = True
                    why = 'under a test of the requested count at %s' % b.where(sbi)
            ad = dp.of_operand(t['args'][1], (bi, 10 ** 6)) if len(t['args']) > 1 else frozenset()
            if kind == 'fetch_min':
                okd = any(x[0] == 'in' for x in ad)
            else:
                okd = any(x[0] == 'fn' for x in ad) or any(x[0] == 'in' for x in ad)
            rep.ob('C08.3', '%s in %s at %s' % (kind, short(b.path), b.where(bi)), ok and okd, why or 'no dominating test')
            if not (ok and okd):
                rep.violation('C08.3', 'C08.3:%s:%s' % (short(b.path), kind), b.where(bi),
                              'the free-cluster hint update %s in %s is not guarded as required (%s): freed clusters '
                              'are not found again or the hint skips free clusters' % (kind, short(b.path), why or 'no dominating test'))
    rep.floor('free hint updates', n, 2)
    frees = [b for b in f.body_list if any((t.get('fn') or '').endswith('RefBlock::decrement') for _bi, t in b.calls())
             and '::tests::' not in b.path and 'RefBlock' not in b.path]
    rep.floor('functions that decrement refcounts', len(frees), 1)
    for b in frees:
        has = any((t.get('fn') or '').endswith('::fetch_min') for _bi, t in b.calls())
        rep.ob('C08.3', 'hint lowered in %s' % short(b.path), has, '')
        if not has:
            rep.violation('C08.3', 'C08.3:%s:no-fetch_min' % short(b.path), b.where(0),
                          '%s releases clusters without lowering the free-cluster hint: freed clusters are never reused and '
                          'the host file grows without bound' % short(b.path))
    # C08.4
    res = check_then_act(f, P)
    rep.floor('mutations through slice write guards', len(res), 6)
    for (fn, where, mname, ok, why) in res:
        rep.ob('C08.4', '%s: %s at %s' % (fn, mname, where), ok, why)
        if not ok:
            rep.violation('C08.4', 'C08.4:%s:%s' % (fn, mname), where,
                          '%s applies %s through a slice write guard without deciding it on a value read through that '
                          'guard: two racing operations can both release the same cluster (%s)' % (fn, mname, why))

"""C06 — concurrent operations are linearizable per block.

Linearizability itself quantifies over schedules and is NOT decided.  Decided are
critical-section rules that are necessary for it (DESIGN C06):
  C06.1  check-then-act under one acquisition: a mapping install/removal or an
         allocation applied through a slice write guard is decided by a value read
         through that same guard after it was acquired
  C06.2  a backend request created under a per-cluster write guard (the zeroing of
         a new data cluster) completes under it; the COW merge (read source, write
         merged cluster) runs with the per-cluster write guard held
  C06.3  the COW data write runs with the L2 slice write guard held (the new mapping
         is invisible until the data is in place)
  C06.5  in-use cache entries are not evicted while unused ones exist: the eviction
         candidate selection tests the reference count of the entry
"""
from ..interp import Program, Interp, short
from ..locks import LockDomain
from ..critsec import check_then_act
from ..facts import AnalysisError
from .. import api

TARGETS = ('--lib',)


def cow_merge_fns(f):
    """Functions that read a source cluster into a bounce buffer, merge the
    caller's bytes and write the whole cluster."""
    out = []
    for b in f.body_list:
        if not b.is_coroutine:
            continue
        fns = [t.get('fn') or '' for _bi, t in b.calls()]
        ups = f.types[b.locals[1]].get('u') or []
        has_caller_bytes = any(f.types[u]['k'] == 'ref' and f.types[f.types[u]['t']]['k'] == 'slice' for u in ups)
        if not has_caller_bytes:
            continue            # e.g. the header writer: bounce buffer, but nothing of the caller is merged
        if any(x.startswith('helpers::Qcow2IoBuf::<T>::new') for x in fns) and \
                any(x.endswith('copy_from_slice') for x in fns) and any(x.endswith('::call_write') for x in fns):
            out.append(short(b.path))
    return out


def reload_rule(f, P, rep, rid):
    """A slice that is (or may already be) shared through the cache is loaded from the file only when it is
    not up to date: the backend read into the buffer of a table taken out of the cache (put_into_wmap_with may
    return an entry another task added, loaded and changed) is dominated by a test of Table::is_update().
    Reloading an up-to-date slice overwrites acknowledged changes with the stale bytes of the file."""
    from ..guard import Deps
    rep.rule(rid, 'a backend read into the buffer of a table obtained from the slice cache is dominated by a test of is_update() of that table')
    n = 0
    for b in f.body_list:
        if '::tests::' in b.path or not b.is_coroutine:
            continue
        dp = None
        for bi, t in b.calls():
            if not (t.get('fn') or '').endswith('::call_read'):
                continue
            dp = dp or Deps(P, b)
            d = set()
            for a in t['args']:
                d |= dp.of_operand(a, (bi, 10 ** 6))
            fns = {x[1] for x in d if x[0] == 'fn'}
            if not (any(x.endswith('as_mut_ptr') for x in fns) and any('AsyncLruCache' in x for x in fns)):
                continue            # not the buffer of a cached table
            n += 1
            ok = False
            for sbi in b.reachable():
                st = b.blocks[sbi]['term']
                if st['k'] == 'switch' and sbi != bi and b.dominates(sbi, bi):
                    sd = dp.of_operand(st['d'], (sbi, 10 ** 6))
                    if any(x[0] == 'fn' and x[1].endswith('is_update') for x in sd):
                        ok = True
            rep.ob(rid, '%s: read into a cached table at %s' % (short(b.path), b.where(bi)), ok,
                   'dominated by an is_update() test' if ok else 'no is_update() test dominates the read')
            if not ok:
                rep.violation(rid, '%s:%s' % (rid, short(b.path)), b.where(bi),
                              '%s reads from the file into a table taken out of the slice cache without testing is_update(): when '
                              'another task has added, loaded and changed that slice in the meantime, its acknowledged changes are '
                              'overwritten with the stale on-disk bytes' % short(b.path))
    rep.floor('backend reads into cached tables', n, 1)


def run(ctx, rep):
    f = ctx.lib
    P = Program(f)
    rep.explanation = (
        'C06 (linearizability over all schedules) is not decided as a whole. Decided: four critical-section rules that '
        'are necessary conditions of it, on every path of the current source (held-lock dataflow over the async call '
        'graph, guard provenance of decisions and mutations).')
    rep.rule('C06.1', 'mutation through a slice write guard is decided by a read through the same guard after its acquisition')
    rep.rule('C06.2', 'request created under a per-cluster write guard is polled under it; COW merge runs under the per-cluster write guard')
    rep.rule('C06.3', 'COW merge runs with the L2 slice write guard held')
    rep.rule('C06.5', 'eviction candidate selection depends on Arc::strong_count of the entry')
    rep.assume('schedules are not explored')
    # C06.1
    res = check_then_act(f, P)
    rep.floor('mutations through slice write guards', len(res), 6)
    for (fn, where, mname, ok, why) in res:
        rep.ob('C06.1', '%s: %s at %s' % (fn, mname, where), ok, why)
        if not ok:
            rep.violation('C06.1', 'C06.1:%s:%s' % (fn, mname), where,
                          '%s applies %s through a slice write guard without deciding it on a value read through that '
                          'guard after acquiring it: a concurrent update made between the earlier look-up and the '
                          'acquisition is overwritten or acted upon twice (%s)' % (fn, mname, why))
    reload_rule(f, P, rep, 'C06.6')
    from . import c02
    c02.drop_rule(f, rep, 'C06.7', 'unused')
    # C06.2 / C06.3
    d = LockDomain(P)
    ip = Interp(P, d)
    for e in api.CONCURRENT_OPS:
        ip.run(api.dev_method(f, e))
    if ip.unresolved:
        raise AnalysisError('unresolved awaits: ' + '; '.join(ip.unresolved[:5]))
    n = 0
    for (fn, where, by), e in sorted(d.poll_held.items()):
        n += 1
        rep.ob('C06.2', '%s created in %s at %s' % (fn, by, where), e['ok'],
               'created after a per-cluster write lock acquisition of %s; awaited in %d context(s)' % (by, e['n']))
        if not e['ok']:
            rep.violation('C06.2', 'C06.2:%s:%s' % (by, fn), where,
                          'the request %s is created in %s under the per-cluster write guard but awaited after the guard '
                          'was released: another writer of the same new cluster can submit its data before the zeroing '
                          '(or the copy-on-write merge) completes and lose it' % (fn, by))
    rep.floor('requests created under a per-cluster write guard', n, 1)
    merges = cow_merge_fns(f)
    rep.floor('COW merge functions', len(merges), 2)
    for m in merges:
        helds = d.enter_held.get(m, set())
        if not helds:
            raise AnalysisError('COW merge function %s is never entered from a public operation' % m)
        ok2 = all(any(c[0].startswith('cluster') and c[1] == 'write' for c in h) for h in helds)
        ok3 = all(('l2slice', 'write') in h for h in helds)
        rep.ob('C06.2', 'COW merge %s under the per-cluster write guard' % m, ok2, '%d entry contexts' % len(helds))
        rep.ob('C06.3', 'COW merge %s under the L2 slice write guard' % m, ok3, '%d entry contexts' % len(helds))
        if not ok2:
            rep.violation('C06.2', 'C06.2:%s:cluster' % m, '', 'the COW merge %s can run without the per-cluster write guard' % m)
        if not ok3:
            rep.violation('C06.3', 'C06.3:%s:l2slice' % m, '',
                          'the COW merge %s can run without the L2 slice write guard: the new mapping can be flushed or '
                          'used by another task before the merged data is in place' % m)
    from . import evict
    evict.report(f, rep, 'C06.8', evict.find_pops(f, P))
    # C06.5
    # the eviction routine: removes an entry from the map and hands it to its caller
    from ..guard import Deps
    pops = []
    for b in f.body_list:
        if 'AsyncLruCache' not in b.path or b.kind == 'Closure' or b.is_coroutine or '::tests::' in b.path:
            continue
        rem = [(bi, t) for bi, t in b.calls() if (t.get('fn') or '').endswith('::remove') and 'HashMap' in (t.get('fn') or '')]
        if not rem:
            continue
        dp = Deps(P, b)
        ret = set()
        for rbi in b.reachable():
            if b.blocks[rbi]['term']['k'] == 'return':
                ret |= dp.of_place({'l': 0, 'p': []}, (rbi, 10 ** 6))
        if any(x[0] == 'fn' and x[1].endswith('::remove') and 'HashMap' in x[1] for x in ret):
            pops.append(b)
    rep.floor('eviction candidate selection functions', len(pops), 1)
    for b in pops:
        pres = tuple([b.path + '::'] + [h + '::' for (c, h) in getattr(f, 'folded', []) if c == b.path])
        closures = [c for c in f.body_list if c.kind == 'Closure' and c.path.startswith(pres)]
        def counts(x):
            return any((t.get('fn') or '').endswith('Arc::<T, A>::strong_count') or
                       (t.get('fn') or '').endswith('::strong_count') for _bi, t in x.calls())
        uses = [c for c in closures if counts(c)] + ([b] if counts(b) else [])
        ok = bool(uses)
        rep.ob('C06.5', 'selection in %s' % short(b.path), ok, '%d of %d selection closures test the reference count' % (len(uses), len(closures)))
        if not ok:
            rep.violation('C06.5', 'C06.5:%s' % short(b.path), b.where(0),
                          '%s selects the eviction victim without looking at the reference count of the entries: a slice '
                          'in use by another operation is evicted while unused slices exist, the user updates an orphaned '
                          'entry that is never flushed' % short(b.path))

"""C05 — synced data survives any later crash.

Decided (DESIGN C05): C05.1 every Ok exit of fsync_range passed the backend
fsync; C05.2 every Qcow2IoOps::fsync implementation reaches a real sync
primitive on every Ok path; C05.3 flush_meta is complete on every Ok path
(so flush_meta + fsync_range leaves nothing unsynced and nothing RAM-dirty);
C05.4 later work cannot destroy a durable slice: a cached slice is written
whole, only after its new-cluster state was resolved, and never before the
zeroing of its cluster completed.
"""
from ..interp import Program, Interp, Domain, short, head
from ..facts import AnalysisError
from . import c04

TARGETS = ('--lib',)
SYNC_PRIMS = ('sync_all', 'sync_data', 'nix::unistd::fsync', 'libc::fsync', 'nix::unistd::fdatasync')


class SyncReach(Domain):
    name = 'syncreach'
    merge = True

    def initial(self):
        return frozenset({'NOSYNC'})

    def join(self, a, b):
        return a | b

    def _is_sync(self, name):
        return name is not None and any(name.endswith(p) or name == p for p in SYNC_PRIMS)

    def on_leaf_call(self, ip, fr, tok, tags, bi, term, fn):
        if self._is_sync(fn):
            return [(tok - {'NOSYNC'}, None)]
        return [(tok, None)]

    def on_leaf_await(self, ip, fr, tok, tags, bi, term, fut):
        if fut.kind in ('ext', 'async_fn') and self._is_sync(fut.path):
            return [(tok - {'NOSYNC'}, None)]
        return [(tok, None)]


def run(ctx, rep):
    f = ctx.lib
    rep.explanation = (
        'C05 is decided in part: must-pass-through of the backend fsync in fsync_range, reachability of a real sync '
        'primitive in every backend fsync implementation, completeness of flush_meta on every Ok path, and the three '
        'structural conditions under which later metadata work cannot destroy a durable slice. The per-block value '
        'sets after a crash are not decided (value level).')
    rep.rule('C05.1', 'every Ok exit of fsync_range has passed a completed backend fsync (no request class is unsynced at the exit)')
    rep.rule('C05.2', 'each Qcow2IoOps::fsync implementation calls a sync primitive on every path that returns Ok')
    rep.rule('C05.3', 'every Ok exit of flush_meta has swept both caches over the full key range and drained both top-table queues')
    rep.rule('C05.4', 'a cached slice is written whole (start 0, length byte_size), only by a function that resolved the '
                      'new-cluster state of its host cluster, and not before the zeroing of that cluster completed')
    d = c04.common(ctx, rep)
    if getattr(d, 'flag_invariant_used', False):
        rep.assume('need_flush read as false while the flush mutex is held means that no metadata is dirty only in RAM '
                   '(the flag protocol decided by C18.1/C18.2)')
        # the invariant is only as good as the protocol: its sweep half (C18.2, fault-free closure) is decided here as well,
        # so that a flusher which reads its own cleared flag as "nothing dirty" is reported by this check too
        rep.rule('C18.2', 'a function that stores need_flush := false starts a complete sweep of every metadata kind after the store '
                          'on every path to an Ok return (the invariant the flag read under the flush mutex relies on)')
        for (rule, site), (ok, detail) in sorted(d.obl.items()):
            if rule == 'C18.2':
                rep.ob(rule, site, ok, detail)
        for key, v in sorted(d.viol.items()):
            if v['rule'] == 'C18.2':
                rep.violation(v['rule'], key, v['where'], v['msg'], {'path': v['chain']})
    # C05.1
    ex = d.exits.get('fsync_range', {})
    n = 0
    for tag, toks in ex.items():
        if tag is not None and tag.startswith('err'):
            continue
        for t in toks:
            n += 1
            left = sorted(x[1] for x in t if x[0] == 'U')
            rep.ob('C05.1', 'fsync_range exit %s' % tag, not left, 'unsynced classes at exit: %s' % left)
    rep.floor('fsync_range Ok exits', n, 1)
    # C05.3
    n = 0
    for op in ('flush_meta', 'shrink_caches'):
        for tag, toks in d.exits.get(op, {}).items():
            if tag is not None and tag.startswith('err'):
                continue
            for t in toks:
                n += 1
                ram = sorted(x[1] for x in t if x[0] == 'RAM')
                rep.ob('C05.3', '%s exit %s' % (op, tag), not ram, 'RAM-dirty kinds at exit: %s' % ram)
    rep.floor('flush_meta Ok exits', n, 2)
    for key, v in sorted(d.viol.items()):
        if v['rule'] == 'C05.1':
            rep.violation('C05.1', key, v['where'], v['msg'])
        elif v['rule'] == 'C02.3':
            rep.violation('C05.3', key.replace('C02.3', 'C05.3'), v['where'], v['msg'])
        elif v['rule'] in ('C05.4', 'C02.5', 'C04.O6'):
            rep.violation('C05.4', key, v['where'], v['msg'], {'path': v['chain']})
    nslice = 0
    for (rule, site), (ok, detail) in sorted(d.obl.items()):
        if rule in ('C05.4', 'C02.5', 'C04.O6'):
            rep.ob('C05.4', '%s:%s' % (rule, site), ok, detail)
            nslice += 1
    rep.floor('slice write obligations', nslice, 4)
    # C05.5: a zeroing request of a new data cluster completes under the per-cluster guard it was created under:
    # otherwise it can land after another writer's data was written *and synced*
    rep.rule('C05.5', 'the zeroing request created under the per-cluster write guard is awaited before the guard is released')
    from ..locks import LockDomain
    from .. import api
    ld = LockDomain(Program(f))
    lip = Interp(ld.p if hasattr(ld, 'p') else Program(f), ld)
    for e in api.CONCURRENT_OPS:
        lip.run(api.dev_method(f, e))
    nz = 0
    for (fn, where, by), e in sorted(ld.poll_held.items()):
        if 'fallocate' not in fn:
            continue
        nz += 1
        rep.ob('C05.5', '%s created in %s at %s' % (fn, by, where), e['ok'], 'awaited under the guard in %d context(s)' % e['n'])
        if not e['ok']:
            rep.violation('C05.5', 'C05.5:%s:%s' % (by, fn), where,
                          'the zeroing request %s of a new data cluster is created in %s under the per-cluster write guard but '
                          'awaited after the guard was released: it can complete after another writer of the same cluster has '
                          'written and synced its block, and zero it' % (fn, by))
    rep.floor('zeroing requests created under a per-cluster guard', nz, 1)
    # C05.2
    P = Program(f)
    # C05.6: what a later allocation hands out does not overlap clusters that hold synced data of someone else
    from ..critsec import run_contiguity
    rep.rule('C05.6', 'a run the allocator returns as contiguous is built from adjacent pieces only (a later multi-cluster write does not '
                      'map, zero and overwrite clusters lying between two pieces)')
    rc = run_contiguity(f, P)
    rep.floor('increments of a returned run count inside a loop', len(rc), 1)
    for (fn, where, ok, detail) in rc:
        rep.ob('C05.6', '%s increment at %s' % (fn, where), ok, detail)
        if not ok:
            rep.violation('C05.6', 'C05.6:%s' % fn, where,
                          '%s: %s: the clusters between two pieces hold synced data of other guest clusters and are zeroed and '
                          'overwritten by the write that received the run' % (fn, detail))
    # C05.7: an Ok flush_meta means the writes it stands for are done - a second flusher must not return while the first one,
    # which already cleared the flags, still has them in flight
    c04.flusher_serialisation(f, rep, 'C05.7')
    # C05.8/9: a slice evicted while an operation holds it is updated as an orphan; those updates (refcounts of clusters that hold
    # synced data) never reach the file and the clusters are handed out again
    from . import evict
    _pops = evict.find_pops(f, P)
    evict.presence(f, rep, 'C05.8', _pops)
    evict.report(f, rep, 'C05.9', _pops)
    # C05.10: a dirty slice dropped from the cache (instead of written back) is lost to every later flush + fsync
    from . import c02
    c02.drop_rule(f, rep, 'C05.10')
    partial_write_rule(f, P, rep, 'C05.11')
    impls = [im for im in f.impls if im.get('trait') == 'ops::Qcow2IoOps']
    rep.floor('Qcow2IoOps implementations', len(impls), 3)
    for im in impls:
        path = None
        for m in im['methods']:
            if m['n'] == 'fsync':
                path = m['p']
        if path is None:
            raise AnalysisError('impl without fsync: %s' % f.tstr(im['self']))
        cos = f.coroutines_of(path)
        body = f.body(cos[0]) if cos else f.body(path)
        dom = SyncReach()
        ip = Interp(P, dom)
        res = ip.run(body)
        bad = []
        for tag, toks in res.items():
            if tag is not None and head(tag) == 'err':
                continue
            for t in toks:
                if 'NOSYNC' in t:
                    bad.append(tag)
        name = f.tstr(im['self'])
        rep.ob('C05.2', 'fsync of %s' % name, not bad, 'exits without a sync primitive: %s' % bad)
        if bad:
            rep.violation('C05.2', 'C05.2:%s' % name, body.where(0),
                          'the fsync implementation of %s can return Ok without calling a sync primitive '
                          '(sync_all / fsync): the barrier the ordered metadata flush relies on does not exist' % name)


def partial_write_rule(f, P, rep, rid):
    """A write of part of a cached table (one block of the L1 / refcount table, one slice of a bigger buffer) takes its
    bytes from `base + d` and must put them at `table offset + d`: the file offset and the memory source are displaced by
    the same request parameters.  Decided by data dependence in every function that builds the written slice from raw
    parts: the integer parameters the source pointer depends on are exactly those the file offset depends on."""
    from ..guard import Deps
    rep.rule(rid, 'in a function that writes a slice built with from_raw_parts, the file offset of the write depends on the same '
                  'integer parameters as the source pointer (a block taken from the middle of a table goes to the middle of the table)')
    n = 0
    for b in f.body_list:
        if '::tests::' in b.path or not b.path.startswith('dev::'):
            continue
        raws = [(bi, t) for bi, t in b.calls() if (t.get('fn') or '').endswith('slice::from_raw_parts')]
        writes = [(bi, t) for bi, t in b.calls() if (t.get('fn') or '').endswith('::call_write') and len(t['args']) >= 3]
        if not raws or not writes:
            continue
        if b.is_coroutine or b.kind == 'Closure':
            ups = f.types[b.locals[1]].get('u') or []
            ints = {i for i, t in enumerate(ups) if f.types[t]['k'] == 'prim' and f.types[t].get('p', '-')[:1] in 'ui'
                    and f.types[t].get('p') not in ('u8',)}
        else:
            ints = {i - 1 for i in range(1, b.argc + 1) if f.types[b.locals[i]]['k'] == 'prim'
                    and f.types[b.locals[i]].get('p', '-')[:1] in 'ui'}
        dp = Deps(P, b)
        for wbi, wt in writes:
            bufdeps = dp.of_operand(wt['args'][2], (wbi, 10 ** 6))
            if not any(x[0] == 'fn' and x[1].endswith('slice::from_raw_parts') for x in bufdeps):
                continue
            offp = {x[1] for x in dp.of_operand(wt['args'][1], (wbi, 10 ** 6)) if x[0] == 'in' and x[1] in ints}
            for rbi, rt in raws:
                ptrp = {x[1] for x in dp.of_operand(rt['args'][0], (rbi, 10 ** 6)) if x[0] == 'in' and x[1] in ints}
                n += 1
                ok = ptrp == offp
                fn = short(b.path)
                rep.ob(rid, '%s: write at %s of the slice built at %s' % (fn, b.where(wbi), b.where(rbi)), ok,
                       'source pointer depends on integer parameters %s, file offset on %s' % (sorted(ptrp), sorted(offp)))
                if not ok:
                    rep.violation(rid, '%s:%s' % (rid, fn), b.where(wbi),
                                  '%s writes a slice whose source pointer is displaced by parameter(s) %s while the file offset is '
                                  'displaced by %s: a block taken from inside the table is written somewhere else in the file (over '
                                  'entries that lead to synced data), and its own place is never written' % (fn, sorted(ptrp), sorted(offp)))
    rep.floor('partial table writes (from_raw_parts + call_write)', n, 1)

"""Engine F: interval abstract interpretation over MIR with value numbering.

Decides numeric facts of synchronous code (the header parser, the geometry
derivation, small helpers) on *every* path: which values can reach an exit
(accept sets), whether an `Assert` / slice index / `unwrap` can fail (panic
freedom), and upper bounds of sizes.  Nothing is executed: the state is an
abstraction (intervals + order facts) joined at merge points and widened at
loop heads.

Values are *value numbers* (hash-consed expression trees, plain tuples):

  ('c', n)                      integer / bool constant
  ('u', key, ty)                unknown value of prim type `ty` (or None)
  ('bin', op, a, b)             exact (mathematical) Add/Sub/Mul/Shl/Shr/Div/Rem/BitAnd/BitOr/BitXor
  ('wrap', x, ty)               x reduced to the range of ty (silent wrap: `<<`, unchecked ops, `as`)
  ('ovf', x, ty)                bool: x is outside the range of ty
  ('cmp', op, a, b) ('not', a)  bools
  ('inrange', x, a, b, incl)    bool
  ('opt', kind, payload, cond)  Option/Result/ControlFlow: success(payload) iff cond
  ('agg', path, variant, xs)    other aggregates (tuples, Range, structs)
  ('ovr', base, ((path, v)..))  struct value `base` with overridden fields
  ('ref', cell)                 pointer to a tracked cell
  ('sub', base, s, e) ('subfrom', base, s) ('subto', base, e)   sub-slices
  ('vecof', sliceptr) ('vslice', vecvalue)                     Vec from / as slice
  ('len', ptr)                  length of the slice behind ptr
  ('chunks', sliceptr, n) ('chunk', key, n)

State: env (cell -> vn), itv (vn -> (lo, hi) refinements), le (order facts).
Cells: (root, path); root = ('L', frame, local) | ('M', pointer vn).
"""
import heapq

from .facts import AnalysisError

INF = 1 << 200
RANGES = {
    'u8': (0, 255), 'u16': (0, 65535), 'u32': (0, (1 << 32) - 1), 'u64': (0, (1 << 64) - 1),
    'u128': (0, (1 << 128) - 1), 'usize': (0, (1 << 64) - 1),
    'i8': (-128, 127), 'i16': (-32768, 32767), 'i32': (-(1 << 31), (1 << 31) - 1),
    'i64': (-(1 << 63), (1 << 63) - 1), 'i128': (-(1 << 127), (1 << 127) - 1), 'isize': (-(1 << 63), (1 << 63) - 1),
    'bool': (0, 1), 'char': (0, 0x10ffff),
}
SUCC_DISCR = {'Option': 1, 'Result': 0, 'ControlFlow': 0, 'Poll': 0}
KIND_OF = {'std::option::Option': 'Option', 'std::result::Result': 'Result', 'std::ops::ControlFlow': 'ControlFlow'}
NEG = {'Lt': 'Ge', 'Ge': 'Lt', 'Gt': 'Le', 'Le': 'Gt', 'Eq': 'Ne', 'Ne': 'Eq'}
PANICS = ('core::panicking::', 'std::rt::begin_panic', 'unwrap_failed', 'expect_failed', 'std::rt::panic',
          'slice_index_order_fail', 'slice_end_index_len_fail', 'slice_start_index_len_fail', 'std::process::abort',
          'core::option::expect_failed', 'panic_fmt', 'panic_display', 'unreachable_display', 'assert_failed')


class Bottom(Exception):
    """the abstract state is empty (edge infeasible)"""


class State:
    __slots__ = ('env', 'itv', 'le', 'vals', 'pc', 'pcv', 'guard')

    def __init__(self, env=None, itv=None, le=None, vals=None, pc=None):
        self.pc = pc            # discriminant of the last branch taken on every path into this point
        self.pcv = None         # ... and the value it had (int) or ('not', values)
        self.env = env if env is not None else {}
        self.itv = itv if itv is not None else {}
        self.le = le if le is not None else set()
        self.vals = vals if vals is not None else {}     # vn -> frozenset of the values it can have (small sets)
        # facts that hold whenever a boolean phi has a given value: (phi vn, 0|1) -> frozenset of `le` facts
        # (the side of a join on which the phi had that constant: e.g. `Ok` of a validation helper)
        self.guard = {}

    def copy(self):
        s = State(dict(self.env), dict(self.itv), set(self.le), dict(self.vals), self.pc)
        s.pcv = self.pcv
        s.guard = dict(self.guard)
        return s

    def same(self, o):
        return self.env == o.env and self.itv == o.itv and self.le == o.le and self.vals == o.vals and self.guard == o.guard


def mentions(vn, pred, _d=0):
    if not isinstance(vn, tuple) or not vn or _d > 30:
        return False
    if isinstance(vn[0], str) and pred(vn):
        return True
    for x in (vn[1:] if isinstance(vn[0], str) else vn):
        if isinstance(x, tuple) and mentions(x, pred, _d + 1):
            return True
    return False


def subterms(v, depth):
    out = {v}
    if depth > 0 and isinstance(v, tuple) and v and v[0] in ('bin', 'wrap', 'cast', 'min', 'max'):
        for x in v[1:]:
            if isinstance(x, tuple) and x and isinstance(x[0], str):
                out |= subterms(x, depth - 1)
    return out


def meet(a, b):
    if a is None:
        return b
    if b is None:
        return a
    lo, hi = max(a[0], b[0]), min(a[1], b[1])
    if lo > hi:
        raise Bottom()
    return (lo, hi)


def joinitv(a, b):
    if a is None or b is None:
        return None
    return (min(a[0], b[0]), max(a[1], b[1]))


class Obligation:
    __slots__ = ('kind', 'fn', 'where', 'ok', 'detail', 'frame', 'bi', 'cond')

    def __init__(self, kind, fn, where, ok, detail, frame, bi, cond=None):
        self.kind, self.fn, self.where, self.ok, self.detail, self.frame, self.bi = kind, fn, where, ok, detail, frame, bi
        self.cond = cond


class AbsInt:
    WIDEN_AFTER = 3
    MAX_DEPTH = 7

    def __init__(self, facts, inline=None, opaque=()):
        self.f = facts
        self.cellty = {}
        self.obl = {}            # (fn, bi, kind, frame) -> Obligation
        self.inline_pred = inline or (lambda path: True)
        self.opaque = tuple(opaque)
        self.models_used = set()
        self.opaque_calls = set()
        self.steps = 0
        self.hooks = {}          # fn path suffix -> callable(ai, st, frame, b, bi, t, args) -> vn | None
        self.entry_hooks = {}    # body path -> callable(ai, st, frame)
        self.exit_hooks = {}     # body path -> callable(ai, st, frame, retvn, bi)
        self.call_log = []
        self.after_call = {}     # fn path suffix -> callable(ai, st, frame, b, bi, t, res)
        self.stmt_hook = None    # callable(ai, st, frame, b, bi, si, stmt, value)
        self.walk_sites = {}
        self.walks = {}          # value yielded by a for-loop iterator -> (kind, lo, hi, step, body, block)
        self.switch_hook = None  # callable(ai, st, frame, b, bi, discriminant vn)
        self.edges = {}          # (frame, body path) -> {(pred, succ): State} of the last fixpoint
        self.gen = {}
        self.dv = {}
        self.dvs = {}
        self.subst = {}          # frame -> generic arguments (type ids) of the inlined callee
        self.quiet = 0           # > 0: a refinement re-execution; no obligations / hooks

    # ------------------------------------------------------------------ types
    def tname(self, tid):
        if tid is None:
            return None
        t = self.f.types[tid]
        if t['k'] == 'prim':
            return t['p'] if t['p'] in RANGES else None
        return None

    def trange(self, ty):
        return RANGES.get(ty)

    def kind_of_tid(self, tid):
        if tid is None:
            return None
        t = self.f.types[tid]
        if t['k'] == 'adt':
            return KIND_OF.get(t['p'])
        return None

    def payload_tid(self, tid):
        t = self.f.types[tid]
        k = KIND_OF.get(t['p'])
        a = t.get('a') or []
        if k in ('Option', 'Result'):
            return a[0] if a else None
        if k == 'ControlFlow':
            return a[1] if len(a) > 1 else None
        return None

    def place_tid(self, b, pl):
        tid = b.locals[pl['l']]
        for e in pl['p']:
            k = e['k']
            if k == 'deref':
                t = self.f.types[tid]
                if t['k'] in ('ref', 'ptr'):
                    tid = t['t']
                elif t['k'] == 'adt' and t['p'].endswith('Box'):
                    tid = t['a'][0]
                else:
                    return None
            elif k == 'field':
                tid = e.get('t')
            elif k in ('index', 'cindex'):
                t = self.f.types[tid]
                if t['k'] in ('slice', 'array'):
                    tid = t['t']
                else:
                    return None
            elif k == 'downcast':
                pass
            else:
                return None
            if tid is None:
                return None
        return tid

    # ------------------------------------------------------------------ intervals
    def itvof(self, st, vn, d=0):
        s = self.struct_itv(st, vn, d)
        r = st.itv.get(vn)
        if r is None:
            return s
        if s is None:
            return r
        lo, hi = max(s[0], r[0]), min(s[1], r[1])
        if lo > hi:
            return r
        return (lo, hi)

    def struct_itv(self, st, vn, d=0):
        if d > 40:
            return (-INF, INF)
        h = vn[0]
        if h == 'c':
            return (vn[1], vn[1])
        if h == 'u':
            key = vn[1]
            if isinstance(key, tuple) and key and key[0] == 'ranged':
                return (key[2], key[3])
            return self.trange(vn[2])
        if h == 'bin':
            op = vn[1]
            a = self.itvof(st, vn[2], d + 1)
            b = self.itvof(st, vn[3], d + 1)
            if a is None or b is None:
                return (-INF, INF)
            r = self.bin_itv(op, a, b)
            if op == 'Sub' and r[0] < 0 and d < 6 and self.prove_le(st, vn[3], vn[2], False, d + 6):
                r = (0, max(r[1], 0))
            if op == 'BitAnd':
                # (x + m) & !m with the same m (round up to a multiple of m + 1): at least x
                for p_, q_ in ((vn[2], vn[3]), (vn[3], vn[2])):
                    if q_[0] == 'bin' and q_[1] == 'Sub' and q_[2] == ('c', (1 << 64) - 1) and p_[0] in ('bin', 'wrap', 'cast'):
                        pp = p_
                        k_ = 0
                        while pp[0] in ('wrap', 'cast') and k_ < 3:
                            pp = pp[1]
                            k_ += 1
                        if pp[0] == 'bin' and pp[1] == 'Add' and q_[3] in (pp[2], pp[3]):
                            x_ = pp[3] if pp[2] == q_[3] else pp[2]
                            ix = self.itvof(st, x_, d + 1)
                            im = self.itvof(st, q_[3], d + 1)
                            if ix is not None and im is not None and ix[0] >= 0 and im[0] >= 0 and ix[1] + im[1] < (1 << 64):
                                r = (max(r[0], ix[0]), r[1])
            return r
        if h in ('wrap', 'cast'):
            i = self.itvof(st, vn[1], d + 1)
            r = self.trange(vn[2])
            if r is None:
                return i
            if i is not None and i[0] >= r[0] and i[1] <= r[1]:
                return i
            return r
        if h == 'cmp':
            v = self.eval_cmp(st, vn[1], vn[2], vn[3], d + 1)
            return (v, v) if v is not None else (0, 1)
        if h == 'not':
            i = self.itvof(st, vn[1], d + 1)
            if i is None:
                return (0, 1)
            return (1 - i[1], 1 - i[0])
        if h == 'ovf':
            i = self.itvof(st, vn[1], d + 1)
            r = self.trange(vn[2])
            if i is None or r is None:
                return (0, 1)
            if i[0] >= r[0] and i[1] <= r[1]:
                return (0, 0)
            if i[1] < r[0] or i[0] > r[1]:
                return (1, 1)
            return (0, 1)
        if h == 'inrange':
            x = self.itvof(st, vn[1], d + 1)
            a = self.itvof(st, vn[2], d + 1)
            b = self.itvof(st, vn[3], d + 1)
            if x is None or a is None or b is None:
                return (0, 1)
            hi_ok = x[1] <= b[0] if vn[4] else x[1] < b[0]
            if x[0] >= a[1] and hi_ok:
                return (1, 1)
            if x[1] < a[0] or (x[0] > b[1] if vn[4] else x[0] >= b[1]):
                return (0, 0)
            return (0, 1)
        if h == 'len':
            p = vn[1]
            if p[0] == 'chunk':
                return (1, p[2]) if not p[3] else (p[2], p[2])
            return (0, (1 << 63) - 1)
        if h in ('min', 'max'):
            a = self.itvof(st, vn[1], d + 1)
            b = self.itvof(st, vn[2], d + 1)
            if a is None or b is None:
                return None
            if h == 'min':
                return (min(a[0], b[0]), min(a[1], b[1]))
            return (max(a[0], b[0]), max(a[1], b[1]))
        if h == 'ispow2':
            i = self.itvof(st, vn[1], d + 1)
            if i is not None and i[0] == i[1]:
                n = i[0]
                v = 1 if n > 0 and n & (n - 1) == 0 else 0
                return (v, v)
            x = vn[1]
            if x[0] in ('wrap', 'cast'):
                r = self.trange(x[2])
                j = self.itvof(st, x[1], d + 1)
                if r and j and j[0] >= r[0] and j[1] <= r[1]:
                    x = x[1]
            if x[0] == 'bin' and x[1] == 'Shl' and x[2][0] == 'c' and x[2][1] > 0 and x[2][1] & (x[2][1] - 1) == 0:
                return (1, 1)
            return (0, 1)
        if h == 'tz':
            i = self.itvof(st, vn[1], d + 1)
            if i is not None and i[0] == i[1] and i[0] > 0:
                n = i[0]
                v = (n & -n).bit_length() - 1
                return (v, v)
            return (0, vn[2])
        if h == 'log2':
            i = self.itvof(st, vn[1], d + 1)
            if i is not None and i[0] >= 1:
                return (i[0].bit_length() - 1, min(i[1], (1 << 128)).bit_length() - 1)
            return (0, vn[2])
        if h == 'discr_opt':
            c = self.itvof(st, vn[2], d + 1)
            s = SUCC_DISCR[vn[1]]
            if c == (1, 1):
                return (s, s)
            if c == (0, 0):
                return (1 - s, 1 - s)
            return (0, 1)
        return None

    def bin_itv(self, op, a, b):
        la, ha = a
        lb, hb = b
        if op == 'Add':
            return (la + lb, ha + hb)
        if op == 'Sub':
            return (la - hb, ha - lb)
        if op == 'Mul':
            c = [la * lb, la * hb, ha * lb, ha * hb]
            return (min(c), max(c))
        nonneg = la >= 0 and lb >= 0
        if op == 'Shl':
            if not nonneg or hb > 256:
                return (-INF, INF)
            return (la << lb, min(ha << hb, INF))
        if op == 'Shr':
            if not nonneg:
                return (-INF, INF)
            return (la >> min(hb, 300), ha >> min(lb, 300))
        if op == 'BitAnd':
            if la >= 0 and lb >= 0:
                # x & !m  >=  x - m : a mask that is the 64-bit complement of a small value clears at most that much
                M = (1 << 64) - 1
                lo = 0
                if lb >= (1 << 63) and hb <= M:
                    lo = max(lo, la - (M - lb))
                if la >= (1 << 63) and ha <= M:
                    lo = max(lo, lb - (M - la))
                return (lo, min(ha, hb))
            if la >= 0:
                return (0, ha)
            if lb >= 0:
                return (0, hb)
            return (-INF, INF)
        if op in ('BitOr', 'BitXor'):
            if not nonneg:
                return (-INF, INF)
            top = (1 << max(ha, hb).bit_length()) - 1
            return (max(la, lb) if op == 'BitOr' else 0, top)
        if op == 'Div':
            if not nonneg:
                return (-INF, INF)
            return (la // max(hb, 1), ha // max(lb, 1))
        if op == 'Rem':
            if not nonneg:
                return (-INF, INF)
            return (0, min(ha, max(hb - 1, 0)))
        return (-INF, INF)

    def eval_cmp(self, st, op, a, b, d=0):
        """1 / 0 / None"""
        if op in ('Gt', 'Ge'):
            return self.eval_cmp(st, 'Lt' if op == 'Gt' else 'Le', b, a, d)
        if op == 'Lt':
            if self.prove_le(st, a, b, True, d):
                return 1
            if self.prove_le(st, b, a, False, d):
                return 0
            return None
        if op == 'Le':
            if self.prove_le(st, a, b, False, d):
                return 1
            if self.prove_le(st, b, a, True, d):
                return 0
            return None
        if op in ('Eq', 'Ne'):
            r = None
            if a == b:
                r = 1
            else:
                ia, ib = self.itvof(st, a, d), self.itvof(st, b, d)
                if ia is not None and ib is not None:
                    if ia[0] == ia[1] == ib[0] == ib[1]:
                        r = 1
                    elif ia[1] < ib[0] or ib[1] < ia[0]:
                        r = 0
                if r is None and (self.prove_le(st, a, b, True, d) or self.prove_le(st, b, a, True, d)):
                    r = 0
                if r is None and ('ne', a, b) in st.le or ('ne', b, a) in st.le:
                    r = 0
            if r is None:
                return None
            return r if op == 'Eq' else 1 - r
        return None

    def round_up_ge(self, st, a, b, d):
        """b = (a + m) & !m  with m = 2^s - 1   =>   a <= b   (hook: the alignment layer recognises masks)"""
        return False

    def strip(self, st, v):
        """drop value-preserving wrap/cast nodes"""
        n = 0
        while v[0] in ('wrap', 'cast') and n < 6:
            r = self.trange(v[2])
            i = self.itvof(st, v[1], 25)
            if r is None or i is None or i[0] < r[0] or i[1] > r[1]:
                break
            v = v[1]
            n += 1
        return v

    def prove_le(self, st, a, b, strict=False, d=0, _seen=None):
        """a <= b (a < b when strict) in every concrete state of st"""
        if d > 12:
            return False
        a, b = self.strip(st, a), self.strip(st, b)
        if a == b:
            return not strict
        ia, ib = self.itvof(st, a, d + 1), self.itvof(st, b, d + 1)
        if ia is not None and ib is not None:
            if (ia[1] < ib[0]) if strict else (ia[1] <= ib[0]):
                return True
        # structural
        if b[0] == 'bin' and b[1] == 'Add':
            for x, y in ((b[2], b[3]), (b[3], b[2])):
                if x == a:
                    iy = self.itvof(st, y, d + 1)
                    if iy is not None and iy[0] >= (1 if strict else 0):
                        return True
            for x, y in ((b[2], b[3]), (b[3], b[2])):
                if x[0] == 'bin' and d < 8:
                    iy = self.itvof(st, y, d + 1)
                    if iy is not None and iy[0] >= 0 and self.prove_le(st, a, x, strict and iy[0] < 1, d + 2):
                        return True
            if a[0] == 'bin' and a[1] == 'Add':
                for (p, x) in ((a[2], a[3]), (a[3], a[2])):
                    for (q, y) in ((b[2], b[3]), (b[3], b[2])):
                        if p == q and self.prove_le(st, x, y, strict, d + 1):
                            return True
        if a[0] == 'bin' and a[1] == 'Sub' and a[2] == b:
            ix = self.itvof(st, a[3], d + 1)
            if ix is not None and ix[0] >= (1 if strict else 0):
                return True
        if a[0] == 'bin' and a[1] == 'Sub' and b[0] == 'bin' and b[1] == 'Sub' and a[3] == b[3]:
            if self.prove_le(st, a[2], b[2], strict, d + 1):
                return True
        if b[0] == 'bin' and b[1] == 'BitOr' and not strict and (b[2] == a or b[3] == a):
            ix = self.itvof(st, b[2] if b[3] == a else b[3], d + 1)
            if ix is not None and ix[0] >= 0:
                return True
        if a[0] == 'bin' and a[1] in ('BitAnd',) and not strict:
            if a[2] == b or a[3] == b:
                return True
            if d < 8:
                for x in (a[2], a[3]):
                    ix = self.itvof(st, x, d + 1)
                    if ix is not None and ix[0] >= 0 and x[0] != 'c' and self.prove_le(st, x, b, False, d + 3):
                        return True
        if b[0] == 'min' and d < 8:
            if self.prove_le(st, a, b[1], strict, d + 2) and self.prove_le(st, a, b[2], strict, d + 2):
                return True
        if b[0] == 'max' and d < 8:
            if self.prove_le(st, a, b[1], strict, d + 2) or self.prove_le(st, a, b[2], strict, d + 2):
                return True
        if self.round_up_ge(st, a, b, d) and not strict:
            return True
        if a[0] == 'bin' and a[1] in ('Shr', 'Div') and a[2] == b and not strict:
            return True
        if a[0] == 'min' and (a[1] == b or a[2] == b) and not strict:
            return True
        if a[0] == 'min' and not strict and (self.prove_le(st, a[1], b, False, d + 2) or self.prove_le(st, a[2], b, False, d + 2)):
            return True
        if b[0] == 'max' and (b[1] == a or b[2] == a) and not strict:
            return True
        if a[0] in ('wrap', 'cast') and b[0] in ('wrap', 'cast'):
            ra = self.trange(a[2])
            ja, jb = self.itvof(st, a[1], d + 1), self.itvof(st, b[1], d + 1)
            rb = self.trange(b[2])
            if ra and rb and ja and jb and ja[0] >= ra[0] and ja[1] <= ra[1] and jb[0] >= rb[0] and jb[1] <= rb[1]:
                return self.prove_le(st, a[1], b[1], strict, d + 1)
        # recorded facts (one transitive step)
        seen = _seen or set()
        for (k, x, y) in st.le:
            if k == 'ne' or k == 'al':
                continue
            if x == a and (x, y) not in seen:
                s1 = (k == 'lt')
                if y == b:
                    if s1 or not strict:
                        return True
                    continue
                if d < 6:
                    seen2 = seen | {(x, y)}
                    need = strict and not s1
                    if self.prove_le(st, y, b, need, d + 3, seen2):
                        return True
        return False

    # ------------------------------------------------------------------ refinement
    def refine(self, st, vn, lo, hi, d=0):
        if d > 30:
            return
        cur = self.itvof(st, vn, 20)
        if cur is None:
            cur = (-INF, INF)
        nlo, nhi = max(cur[0], lo), min(cur[1], hi)
        if nlo > nhi:
            raise Bottom()
        if (nlo, nhi) == cur and vn in st.itv:
            return
        if (nlo, nhi) != cur or vn not in st.itv:
            if vn[0] != 'c':
                st.itv[vn] = (nlo, nhi)
        if vn[0] != 'c':
            vs = st.vals.get(vn)
            if vs is not None:
                vs2 = frozenset(x for x in vs if nlo <= x <= nhi)
                if not vs2:
                    raise Bottom()
                st.vals[vn] = vs2
            elif nlo == nhi:
                st.vals[vn] = frozenset((nlo,))
        if (nlo, nhi) == cur:
            return
        h = vn[0]
        if h in ('wrap', 'cast'):
            i = self.itvof(st, vn[1], 20)
            r = self.trange(vn[2])
            if r is None or (i is not None and i[0] >= r[0] and i[1] <= r[1]):
                self.refine(st, vn[1], nlo, nhi, d + 1)
            return
        if h == 'bin':
            op, a, b = vn[1], vn[2], vn[3]
            ia, ib = self.itvof(st, a, 20), self.itvof(st, b, 20)
            if ia is None or ib is None:
                return
            if op == 'Add':
                self.refine(st, a, nlo - ib[1], nhi - ib[0], d + 1)
                ia = self.itvof(st, a, 20)
                self.refine(st, b, nlo - ia[1], nhi - ia[0], d + 1)
            elif op == 'Sub':
                self.refine(st, a, nlo + ib[0], nhi + ib[1], d + 1)
                ia = self.itvof(st, a, 20)
                self.refine(st, b, ia[0] - nhi, ia[1] - nlo, d + 1)
            elif op == 'Shl' and ia[0] >= 0 and ib[0] >= 0:
                if nhi < INF:
                    self.refine(st, a, -INF, nhi >> ib[0], d + 1)
                    if ia[0] >= 1:
                        k = (nhi // ia[0]).bit_length() - 1
                        self.refine(st, b, -INF, max(k, 0), d + 1)
            elif op == 'Shr' and ia[0] >= 0 and ib[0] >= 0:
                if nhi < INF and ib[1] < 300:
                    self.refine(st, a, -INF, ((nhi + 1) << ib[1]) - 1, d + 1)
                if nlo > 0:
                    self.refine(st, a, nlo << ib[0], INF, d + 1)
            elif op == 'Mul' and ia[0] >= 0 and ib[0] >= 0:
                if ib[0] >= 1 and nhi < INF:
                    self.refine(st, a, -INF, nhi // ib[0], d + 1)
                if ia[0] >= 1 and nhi < INF:
                    self.refine(st, b, -INF, nhi // ia[0], d + 1)
            elif op == 'Div' and ia[0] >= 0 and ib[0] >= 1:
                if nhi < INF:
                    self.refine(st, a, -INF, (nhi + 1) * ib[1] - 1, d + 1)
                if nlo > 0:
                    self.refine(st, a, nlo * ib[0], INF, d + 1)
            elif op == 'BitAnd' and nlo > 0:
                if ia[0] >= 0:
                    self.refine(st, a, nlo, INF, d + 1)
                if ib[0] >= 0:
                    self.refine(st, b, nlo, INF, d + 1)
            return
        if h == 'min':
            if nlo > -INF:
                self.refine(st, vn[1], nlo, INF, d + 1)
                self.refine(st, vn[2], nlo, INF, d + 1)
            return
        if h == 'max':
            if nhi < INF:
                self.refine(st, vn[1], -INF, nhi, d + 1)
                self.refine(st, vn[2], -INF, nhi, d + 1)
            return
        if h in ('cmp', 'not', 'ovf', 'inrange', 'discr_opt') and nlo == nhi:
            self.assume(st, vn, bool(nlo), d + 1)

    def assume(self, st, vn, truth, d=0):
        if d > 30:
            return
        h = vn[0]
        g = st.guard.get((vn, 1 if truth else 0)) if st.guard else None
        if g:
            st.le |= g
        if h == 'c':
            if bool(vn[1]) != truth:
                raise Bottom()
            return
        i = self.itvof(st, vn, 20)
        if i is not None and i[0] == i[1]:
            if bool(i[0]) != truth:
                raise Bottom()
        if h == 'not':
            self.assume(st, vn[1], not truth, d + 1)
            return
        if h == 'and':
            if truth:
                self.assume(st, vn[1], True, d + 1)
                self.assume(st, vn[2], True, d + 1)
            return
        if h == 'cmp':
            op, a, b = vn[1], vn[2], vn[3]
            if not truth:
                op = NEG[op]
            if op == 'Gt':
                op, a, b = 'Lt', b, a
            elif op == 'Ge':
                op, a, b = 'Le', b, a
            ia, ib = self.itvof(st, a, 20), self.itvof(st, b, 20)
            if ia is None or ib is None:
                st.itv[vn] = (1, 1) if truth else (0, 0)
                return
            if op == 'Lt':
                self.refine(st, a, -INF, ib[1] - 1, d + 1)
                ia = self.itvof(st, a, 20)
                self.refine(st, b, ia[0] + 1, INF, d + 1)
                st.le.add(('lt', a, b))
            elif op == 'Le':
                self.refine(st, a, -INF, ib[1], d + 1)
                ia = self.itvof(st, a, 20)
                self.refine(st, b, ia[0], INF, d + 1)
                st.le.add(('le', a, b))
            elif op == 'Eq':
                lo, hi = max(ia[0], ib[0]), min(ia[1], ib[1])
                self.refine(st, a, lo, hi, d + 1)
                self.refine(st, b, lo, hi, d + 1)
                st.le.add(('le', a, b))
                st.le.add(('le', b, a))
            elif op == 'Ne':
                if ib[0] == ib[1]:
                    self.exclude(st, a, ib[0], d + 1)
                if ia[0] == ia[1]:
                    self.exclude(st, b, ia[0], d + 1)
                st.le.add(('ne', a, b))
            return
        if h == 'ovf':
            if not truth:
                r = self.trange(vn[2])
                if r:
                    self.refine(st, vn[1], r[0], r[1], d + 1)
            else:
                st.itv[vn] = (1, 1)
            return
        if h == 'inrange':
            if truth:
                a = self.itvof(st, vn[2], 20)
                b = self.itvof(st, vn[3], 20)
                if a and b:
                    self.refine(st, vn[1], a[0], b[1] if vn[4] else b[1] - 1, d + 1)
            st.itv[vn] = (1, 1) if truth else (0, 0)
            return
        if h == 'discr_opt':
            return
        if h == 'bin' and vn[1] == 'BitAnd' and truth:
            ia, ib = self.itvof(st, vn[2], 20), self.itvof(st, vn[3], 20)
            if ia is not None and ib is not None and ia[1] <= 1 and ib[1] <= 1 and ia[0] >= 0 and ib[0] >= 0:
                self.assume(st, vn[2], True, d + 1)
                self.assume(st, vn[3], True, d + 1)
            st.itv[vn] = meet(st.itv.get(vn), (1, INF))
            return
        if h == 'bin' and vn[1] == 'BitOr' and not truth:
            self.assume(st, vn[2], False, d + 1)
            self.assume(st, vn[3], False, d + 1)
            return
        cur = self.itvof(st, vn, 20)
        if truth:
            if cur is not None and cur[0] >= 0 and cur[1] <= 1:
                st.itv[vn] = (1, 1)
        else:
            st.itv[vn] = meet(cur, (0, 0)) if cur is not None else (0, 0)

    def exclude(self, st, vn, v, d=0):
        vs = st.vals.get(vn)
        if vs is not None and v in vs:
            vs = vs - {v}
            if not vs:
                raise Bottom()
            st.vals[vn] = vs
            self.refine(st, vn, min(vs), max(vs), d)
        i = self.itvof(st, vn, 20)
        if i is None:
            return
        if i[0] == v and i[1] == v:
            raise Bottom()
        if i[0] == v:
            self.refine(st, vn, v + 1, INF, d)
        elif i[1] == v:
            self.refine(st, vn, -INF, v - 1, d)

    def assume_switch(self, st, dvn, val, others):
        """val is not None: the discriminant equals val; else it differs from all of `others`"""
        if dvn[0] == 'discr_opt':
            s = SUCC_DISCR[dvn[1]]
            if val is not None:
                self.assume(st, dvn[2], val == s)
            else:
                # otherwise edge
                if s in others and (1 - s) in others:
                    raise Bottom()
                if s in others:
                    self.assume(st, dvn[2], False)
                elif (1 - s) in others:
                    self.assume(st, dvn[2], True)
            return
        i = self.itvof(st, dvn, 20)
        if i is not None and i[0] >= 0 and i[1] <= 1 and dvn[0] in ('cmp', 'not', 'ovf', 'inrange', 'bin', 'ispow2'):
            if val is not None:
                self.assume(st, dvn, bool(val))
            else:
                if 0 in others and 1 in others:
                    raise Bottom()
                if 0 in others:
                    self.assume(st, dvn, True)
                elif 1 in others:
                    self.assume(st, dvn, False)
            return
        if val is not None:
            self.refine(st, dvn, val, val)
        else:
            if dvn in st.vals:
                for o in others:
                    self.exclude(st, dvn, o)
            ch = True
            while ch:
                ch = False
                i = self.itvof(st, dvn, 20)
                if i is None:
                    break
                for o in others:
                    if i[0] == o or i[1] == o:
                        self.exclude(st, dvn, o)
                        ch = True
                        break

    # ------------------------------------------------------------------ memory
    def is_prefix(self, p, q):
        return len(p) <= len(q) and q[:len(p)] == p

    def read_cell(self, st, cell, tid):
        root, path = cell
        v = st.env.get(cell)
        if v is not None:
            subs = [(c[1][len(path):], x) for c, x in st.env.items() if c[0] == root and len(c[1]) > len(path) and c[1][:len(path)] == path]
            if subs:
                return ('ovr', v, tuple(sorted(subs, key=repr)))
            return v
        for n in range(len(path) - 1, -1, -1):
            w = st.env.get((root, path[:n]))
            if w is not None:
                return self.project(st, w, path[n:], tid)
        ty = self.tname(tid)
        if tid is not None and self.kind_of_tid(tid):
            k = self.kind_of_tid(tid)
            return ('opt', k, ('u', ('init', cell, 'ok'), self.tname(self.payload_tid(tid))), ('u', ('init', cell, 'succ'), 'bool'))
        return ('u', ('init', cell), ty)

    def project(self, st, w, rest, tid):
        while rest:
            h = w[0]
            e = rest[0]
            if h == 'ovr':
                hit = None
                for (p, v) in w[2]:
                    if self.is_prefix(p, rest):
                        hit = (p, v)
                        break
                if hit:
                    w = hit[1]
                    rest = rest[len(hit[0]):]
                    continue
                if any(self.is_prefix(rest, p) for (p, _v) in w[2]):
                    break
                w = w[1]
                continue
            if h == 'agg':
                if e[0] == 'v':
                    rest = rest[1:]
                    continue
                if e[0] == 'f' and e[1] < len(w[3]):
                    w = w[3][e[1]]
                    rest = rest[1:]
                    continue
                break
            if h == 'opt':
                if e[0] == 'v':
                    if len(rest) >= 2 and rest[1] == ('f', 0) and e[1] == SUCC_DISCR[w[1]]:
                        w = w[2]
                        rest = rest[2:]
                        continue
                    break
                break
            break
        if not rest:
            return w
        ty = self.tname(tid)
        if tid is not None and self.kind_of_tid(tid):
            k = self.kind_of_tid(tid)
            return ('opt', k, ('u', ('proj', w, rest, 'ok'), self.tname(self.payload_tid(tid))), ('u', ('proj', w, rest, 'succ'), 'bool'))
        return ('u', ('proj', w, rest), ty)

    def write_cell(self, st, cell, vn):
        root, path = cell
        for c in [c for c in st.env if c[0] == root and len(c[1]) >= len(path) and c[1][:len(path)] == path]:
            del st.env[c]
        if path and path[-1][0] == 'i':
            for c in [c for c in st.env if c[0] == root and len(c[1]) >= len(path) and c[1][:len(path) - 1] == path[:-1]]:
                del st.env[c]
        st.env[cell] = vn

    def havoc(self, st, cell):
        root, path = cell
        for c in [c for c in st.env if c[0] == root and len(c[1]) >= len(path) and c[1][:len(path)] == path]:
            del st.env[c]
        # an unknown value from now on: a fresh name per havoc site is not needed,
        # reads create ('init', cell) which would alias the pre-havoc value: bump a generation
        g = self.gen.get(cell, 0) + 1
        self.gen[cell] = g
        st.env[cell] = ('u', ('havoc', cell, g), None)


    def resolve(self, st, b, frame, pl):
        """-> cell of the place"""
        root = ('L', frame, pl['l'])
        path = ()
        tid = b.locals[pl['l']]
        for e in pl['p']:
            k = e['k']
            if k == 'deref':
                v = self.read_cell(st, (root, path), tid)
                t = self.f.types[tid] if tid is not None else None
                if t is not None and t['k'] in ('ref', 'ptr'):
                    tid = t['t']
                elif t is not None and t['k'] == 'adt' and t.get('a'):
                    tid = t['a'][0]
                else:
                    tid = None
                if v[0] == 'ref':
                    root, path = v[1]
                else:
                    root, path = ('M', v), ()
            elif k == 'field':
                path = path + (('f', e['i']),)
                tid = e.get('t')
            elif k == 'downcast':
                path = path + (('v', e['v']),)
            elif k == 'index':
                iv = self.read_cell(st, (('L', frame, e['l']), ()), b.locals[e['l']])
                path = path + (('i', iv),)
                t = self.f.types[tid] if tid is not None else None
                tid = t['t'] if t is not None and t['k'] in ('slice', 'array') else None
            elif k == 'cindex':
                path = path + (('i', ('c', e.get('o', e.get('i', 0)))),)
                t = self.f.types[tid] if tid is not None else None
                tid = t['t'] if t is not None and t['k'] in ('slice', 'array') else None
            else:
                path = path + (('x', repr(e)),)
                tid = None
        return (root, path), tid

    def read_place(self, st, b, frame, pl):
        cell, tid = self.resolve(st, b, frame, pl)
        return self.read_cell(st, cell, tid)

    def operand(self, st, b, frame, o):
        k = o['k']
        if k == 'const':
            if 'v' in o:
                return ('c', int(o['v']))
            if 'fn' in o:
                return ('fn', o['fn'], tuple(o.get('a') or ()))
            return ('u', ('const', o.get('u', '?')), self.tname(o.get('t')))
        if k in ('copy', 'move'):
            return self.read_place(st, b, frame, o['pl'])
        return ('u', ('otherop',), None)

    def operand_tid(self, b, o):
        if o['k'] == 'const':
            return o.get('t')
        if o['k'] in ('copy', 'move'):
            return self.place_tid(b, o['pl'])
        return None

    def deref_val(self, st, ptr, tid=None):
        """value behind a pointer vn"""
        if ptr[0] == 'ref':
            return self.read_cell(st, ptr[1], tid)
        return self.read_cell(st, (('M', ptr), ()), tid)

    # ------------------------------------------------------------------ rvalues
    def rvalue(self, st, b, frame, rv, dst_tid):
        k = rv['k']
        if k == 'use':
            return self.operand(st, b, frame, rv['ops'][0])
        if k == 'ref' or k == 'rawptr':
            cell, _t = self.resolve(st, b, frame, rv['pl'])
            if cell[0][0] == 'M' and not cell[1]:
                return cell[0][1]
            return ('ref', cell)
        if k == 'cast':
            a = self.operand(st, b, frame, rv['ops'][0])
            src = self.tname(self.operand_tid(b, rv['ops'][0]))
            dst = self.tname(rv.get('t'))
            if src and dst:
                rs, rd = RANGES[src], RANGES[dst]
                if rs[0] >= rd[0] and rs[1] <= rd[1]:
                    return a
                if a[0] == 'c':
                    n = a[1]
                    if rd[0] <= n <= rd[1]:
                        return a
                    w = rd[1] - rd[0] + 1
                    return ('c', ((n - rd[0]) % w) + rd[0])
                return ('cast', a, dst)
            if rv.get('ck', '').startswith('PointerCoercion') or 'Unsize' in rv.get('ck', ''):
                return a
            return ('u', ('cast', a), dst)
        if k == 'bin':
            op = rv['op']
            a = self.operand(st, b, frame, rv['ops'][0])
            c = self.operand(st, b, frame, rv['ops'][1])
            ty = self.tname(self.operand_tid(b, rv['ops'][0]))
            return self.binop(st, op, a, c, ty)
        if k == 'un':
            a = self.operand(st, b, frame, rv['ops'][0])
            op = rv['op']
            ty = self.tname(self.operand_tid(b, rv['ops'][0]))
            if op == 'Not':
                if ty == 'bool':
                    return ('not', a) if a[0] != 'c' else ('c', 1 - a[1])
                r = self.trange(ty)
                if r and r[0] == 0:
                    if a[0] == 'c':
                        return ('c', r[1] - a[1])
                    return ('bin', 'Sub', ('c', r[1]), a)
                return ('u', ('not', a), ty)
            if op == 'Neg':
                return ('bin', 'Sub', ('c', 0), a)
            if op == 'PtrMetadata':
                return self.len_of(a)
            return ('u', ('un', op, a), self.tname(dst_tid))
        if k == 'discr':
            v = self.read_place(st, b, frame, rv['pl'])
            return self.discr_of(v)
        if k == 'agg':
            ops = tuple(self.operand(st, b, frame, o) for o in rv['ops'])
            ak = rv.get('ak')
            if ak == 'adt':
                kind = KIND_OF.get(rv['p'])
                if kind:
                    succ = rv['v'] == SUCC_DISCR[kind]
                    if succ:
                        return ('opt', kind, ops[0] if ops else ('c', 0), ('c', 1))
                    return ('opt', kind, ('u', ('nopayload',), None), ('c', 0))
                if 'dv' in rv:
                    self.dv[(rv['p'], rv.get('v', 0))] = int(rv['dv'])
                    self.dvs[rv['p']] = [int(x) for x in rv.get('dvs', [])]
                return ('agg', rv['p'], rv.get('v', 0), ops)
            if ak == 'closure':
                return ('agg', ('closure', rv.get('p')), 0, ops)
            return ('agg', ak, 0, ops)
        if k == 'repeat':
            return ('u', ('repeat', self.operand(st, b, frame, rv['ops'][0])), None)
        return ('u', ('rv', k, rv.get('s', '')[:40]), self.tname(dst_tid))

    def discr_of(self, v):
        if v[0] == 'opt':
            if v[3][0] == 'c':
                s = SUCC_DISCR[v[1]]
                return ('c', s if v[3][1] else 1 - s)
            return ('discr_opt', v[1], v[3])
        if v[0] == 'agg' and isinstance(v[2], int):
            dv = self.variant_discr(v[1], v[2])
            if dv is not None:
                return ('c', dv)
        return ('u', ('discr', v), 'isize')

    def variant_discr(self, path, idx):
        if isinstance(path, tuple):
            return None
        return self.dv.get((path, idx), idx)

    def binop(self, st, op, a, c, ty):
        if op in ('Lt', 'Le', 'Gt', 'Ge', 'Eq', 'Ne'):
            return ('cmp', op, a, c)
        if op.endswith('WithOverflow'):
            base = op[:-len('WithOverflow')]
            x = self.mk_bin(base, a, c)
            return ('agg', 'tuple', 0, (x, ('ovf', x, ty)))
        if op in ('Add', 'Sub', 'Mul'):
            x = self.mk_bin(op, a, c)
            return ('wrap', x, ty) if ty else x
        if op in ('AddUnchecked', 'SubUnchecked', 'MulUnchecked'):
            return self.mk_bin(op[:3], a, c)
        if op == 'Shl' or op == 'ShlUnchecked':
            x = self.mk_bin('Shl', a, c)
            return ('wrap', x, ty) if ty else x
        if op in ('Shr', 'ShrUnchecked'):
            return self.mk_bin('Shr', a, c)
        if op in ('BitAnd', 'BitOr', 'BitXor', 'Div', 'Rem'):
            return self.mk_bin(op, a, c)
        if op == 'Offset':
            return ('u', ('offset', a, c), None)
        return ('u', ('bin', op, a, c), ty)

    def mk_bin(self, op, a, c):
        if a[0] == 'c' and c[0] == 'c':
            x, y = a[1], c[1]
            try:
                if op == 'Add':
                    return ('c', x + y)
                if op == 'Sub':
                    return ('c', x - y)
                if op == 'Mul':
                    return ('c', x * y)
                if op == 'Shl' and 0 <= y < 256:
                    return ('c', x << y)
                if op == 'Shr' and 0 <= y < 256:
                    return ('c', x >> y)
                if op == 'BitAnd':
                    return ('c', x & y)
                if op == 'BitOr':
                    return ('c', x | y)
                if op == 'BitXor':
                    return ('c', x ^ y)
                if op == 'Div' and y:
                    return ('c', x // y)
                if op == 'Rem' and y:
                    return ('c', x % y)
            except Exception:
                pass
        if op in ('Add', 'Mul', 'BitAnd', 'BitOr', 'BitXor') and repr(a) > repr(c):
            a, c = c, a          # commutative: canonical order
        if op == 'Add' and a == ('c', 0):
            return c
        if op in ('Add', 'Sub', 'Shl', 'Shr') and c == ('c', 0):
            return a
        if op == 'Sub' and c[0] == 'bin' and c[1] == 'BitAnd' and a[0] != 'c':
            # x - (x & (2^s - 1))  ==  x & !(2^s - 1): the rounded-down form the alignment layer knows
            for p_, q_ in ((c[2], c[3]), (c[3], c[2])):
                if p_ == a and self._is_low_mask(q_) and self.vn_ty(a) in ('u64', 'usize', None):
                    return self.mk_bin('BitAnd', a, ('bin', 'Sub', ('c', (1 << 64) - 1), q_))
        if op in ('Div', 'Mul') and c == ('c', 1):
            return a
        if op == 'Mul' and a == ('c', 1):
            return c
        if op == 'BitAnd':
            # (k * 2^n * ..) & (2^m - 1) == 0 for m <= n: the low bits of a multiple (an allocation aligned as its layout asks)
            for m_, x_ in ((a, c), (c, a)):
                if m_[0] == 'c' and m_[1] >= 0 and (m_[1] + 1) & m_[1] == 0:
                    y_ = x_
                    for _ in range(4):
                        if y_[0] in ('cast', 'wrap'):
                            y_ = y_[1]
                        elif y_[0] == 'u' and isinstance(y_[1], tuple) and len(y_[1]) == 2 and y_[1][0] == 'cast':
                            y_ = y_[1][1]       # pointer <-> pointer / pointer -> address casts keep the address
                    if y_[0] == 'bin' and y_[1] == 'Mul' and any(k_[0] == 'c' and k_[1] > 0 and k_[1] % (m_[1] + 1) == 0 for k_ in (y_[2], y_[3])):
                        return ('c', 0)
        return ('bin', op, a, c)

    def is_mult(self, st, v, t, d=0):
        return False

    def _is_low_mask(self, m):
        """2^s - 1, structurally"""
        k = 0
        while m[0] in ('wrap', 'cast') and k < 4:
            m = m[1]
            k += 1
        if m[0] == 'c':
            return m[1] > 0 and (m[1] & (m[1] + 1)) == 0
        if m[0] == 'bin' and m[1] == 'Sub' and m[3] == ('c', 1):
            x = m[2]
            k = 0
            while x[0] in ('wrap', 'cast') and k < 4:
                x = x[1]
                k += 1
            if x[0] == 'c':
                return x[1] > 0 and (x[1] & (x[1] - 1)) == 0
            return x[0] == 'bin' and x[1] == 'Shl' and x[2] == ('c', 1)
        return False

    def len_of(self, p):
        h = p[0]
        if h == 'sub':
            return self.mk_bin('Sub', p[3], p[2])
        if h == 'subfrom':
            return self.mk_bin('Sub', self.len_of(p[1]), p[2])
        if h == 'subto':
            return p[2]
        if h == 'vslice':
            v = p[1]
            if v[0] == 'vecof':
                return self.len_of(v[1])
            if v[0] == 'vecn':
                return v[1]
        if h == 'strof':
            return self.len_of(('vslice', p[1]))
        if h == 'arr':
            return ('c', p[1])
        if h == 'rawslice':
            return p[2]
        return ('len', p)

    # ------------------------------------------------------------------ obligations
    def oblige(self, kind, b, bi, frame, ok, detail, cond=None):
        if self.quiet:
            return
        key = (b.path, bi, kind, frame)
        self.obl[key] = Obligation(kind, b.path, b.where(bi), ok, detail, frame, bi, cond)

    def prove_true(self, st, vn):
        i = self.itvof(st, vn, 0)
        return i is not None and i[0] >= 1

    def show(self, st, vn):
        i = self.itvof(st, vn, 0)
        return '%s in %s' % (short_vn(vn), fmt_itv(i))

    # ------------------------------------------------------------------ join
    def join(self, old, new, key, widen):
        res = State()
        res.pc = old.pc if (old.pc == new.pc and old.pcv == new.pcv) else None
        res.pcv = old.pcv if res.pc is not None else None
        phis = set()
        for cell in old.env.keys() & new.env.keys():
            a, c = old.env[cell], new.env[cell]
            if a == c:
                res.env[cell] = a
                continue
            ty = self.tname(self.cellty.get(cell))
            res.env[cell] = self.join_val(res, old, new, key, (cell,), a, c, ty, widen, phis, 0)
        isphi = lambda v: v[0] == 'u' and len(v) > 1 and isinstance(v[1], tuple) and len(v[1]) > 1 and v[1][0] == 'phi' and v[1][1] == key
        for v in old.itv.keys() & new.itv.keys():
            if v in phis or mentions(v, isphi):
                continue
            j = joinitv(old.itv[v], new.itv[v])
            if j is not None:
                res.itv[v] = j
        for fct in old.le & new.le:
            if mentions(fct[1], isphi) or mentions(fct[2], isphi):
                continue
            res.le.add(fct)
        for v in old.vals.keys() & new.vals.keys():
            if v in phis or mentions(v, isphi):
                continue
            u = old.vals[v] | new.vals[v]
            if len(u) <= 8:
                res.vals[v] = u
        for gk in old.guard.keys() & new.guard.keys():
            if gk not in res.guard:
                g = old.guard[gk] & new.guard[gk]
                if g:
                    res.guard[gk] = g
        # keep order facts that hold on the other side by proof
        for (src, oth) in ((old, new), (new, old)):
            for fct in src.le - oth.le:
                if mentions(fct[1], isphi) or mentions(fct[2], isphi) or fct[0] == 'ne':
                    continue
                if fct[0] == 'al':
                    try:
                        if self.is_mult(oth, fct[1], fct[2]):
                            res.le.add(fct)
                    except RecursionError:
                        pass
                    continue
                if len(res.le) > 400:
                    break
                try:
                    if self.prove_le(oth, fct[1], fct[2], fct[0] == 'lt'):
                        res.le.add(fct)
                except RecursionError:
                    pass
        return res

    def join_val(self, res, old, new, key, where, a, c, ty, widen, phis, depth):
        """join of two values of one cell (component-wise through Option/Result and aggregates)"""
        if a == c:
            return a
        if depth < 4 and a[0] == 'opt' and c[0] == 'opt' and a[1] == c[1] and (a[3] == ('c', 0) or c[3] == ('c', 0)):
            # one side carries no payload: the payload of the other side is the payload whenever there is one
            pay = c[2] if a[3] == ('c', 0) else a[2]
            src = new if a[3] == ('c', 0) else old
            for v in subterms(pay, 3):
                if v in src.itv:
                    pass
            cond = self.join_val(res, old, new, key, where + ('cond',), a[3], c[3], 'bool', widen, phis, depth + 1)
            # facts about the payload must hold on the side that has it; keep them by naming a phi only if needed
            P = self.join_val_payload(res, old, new, key, where + ('pay',), pay, src, widen, phis)
            return ('opt', a[1], P, cond)
        if depth < 4 and a[0] == 'opt' and c[0] == 'opt' and a[1] == c[1]:
            pay = self.join_val(res, old, new, key, where + ('pay',), a[2], c[2], self.vn_ty(a[2]) or self.vn_ty(c[2]), widen, phis, depth + 1)
            cond = self.join_val(res, old, new, key, where + ('cond',), a[3], c[3], 'bool', widen, phis, depth + 1)
            return ('opt', a[1], pay, cond)
        if depth < 4 and a[0] == 'agg' and c[0] == 'agg' and a[1] == c[1] and a[2] == c[2] and len(a[3]) == len(c[3]) \
                and not isinstance(a[1], tuple):
            xs = tuple(self.join_val(res, old, new, key, where + (i,), x, y, self.vn_ty(x) or self.vn_ty(y), widen, phis, depth + 1)
                       for i, (x, y) in enumerate(zip(a[3], c[3])))
            return ('agg', a[1], a[2], xs)
        P = ('u', ('phi', key) + where, ty or self.vn_ty(a) or self.vn_ty(c))
        phis.add(P)
        self.join_phi(res, old, new, P, a, c, widen)
        return P

    def join_val_payload(self, res, old, new, key, where, pay, src, widen, phis):
        """payload present on one side only: a phi that inherits what that side knows about it"""
        if pay[0] in ('c',):
            return pay
        if pay[0] == 'agg' and not isinstance(pay[1], tuple):
            return ('agg', pay[1], pay[2], tuple(self.join_val_payload(res, old, new, key, where + (i,), x, src, widen, phis)
                                                 for i, x in enumerate(pay[3])))
        P = ('u', ('phi', key) + where, self.vn_ty(pay))
        phis.add(P)
        self.join_phi(res, src, src, P, pay, pay, widen)
        return P

    def valsof(self, st, v):
        if v[0] == 'c':
            return frozenset((v[1],))
        vs = st.vals.get(v)
        if vs is not None:
            return vs
        i = self.itvof(st, v, 0)
        if i is not None and i[1] - i[0] <= 3:
            return frozenset(range(i[0], i[1] + 1))
        return None

    def vn_ty(self, v):
        if v[0] == 'u':
            return v[2] if len(v) > 2 else None
        if v[0] in ('wrap', 'cast'):
            return v[2]
        if v[0] in ('cmp', 'not', 'ovf', 'inrange'):
            return 'bool'
        return None

    def join_guards(self, res, old, new, P, a, c):
        """boolean phi of constants: remember what each side knew"""
        def const01(v):
            return v[1] if v[0] == 'c' and v[1] in (0, 1) else None
        ka, kc = const01(a), const01(c)
        keep = lambda fs: frozenset(x for x in fs if not mentions(x[1], lambda v: v == P) and not mentions(x[2], lambda v: v == P)) if fs else frozenset()
        if ka is not None and kc is not None and ka != kc:
            res.guard[(P, ka)] = keep(frozenset(list(old.le - new.le)[:80]))
            res.guard[(P, kc)] = keep(frozenset(list(new.le - old.le)[:80]))
        elif a == P and kc is not None:
            other = 1 - kc
            if (P, other) in old.guard:
                res.guard[(P, other)] = old.guard[(P, other)]
            if (P, kc) in old.guard:
                res.guard[(P, kc)] = frozenset(x for x in old.guard[(P, kc)] if x in new.le)
        elif c == P and ka is not None:
            other = 1 - ka
            if (P, other) in new.guard:
                res.guard[(P, other)] = new.guard[(P, other)]
            if (P, ka) in new.guard:
                res.guard[(P, ka)] = frozenset(x for x in new.guard[(P, ka)] if x in old.le)

    def join_phi(self, res, old, new, P, a, c, widen):
        if P[2] == 'bool' if len(P) > 2 else False:
            self.join_guards(res, old, new, P, a, c)
        ia = self.itvof(old, a, 0)
        ic = self.itvof(new, c, 0)
        va, vc = self.valsof(old, a), self.valsof(new, c)
        if va is not None and vc is not None and len(va | vc) <= 8:
            res.vals[P] = va | vc
        # order facts between the phi and terms both inputs are built from
        if a[0] in ('bin', 'wrap', 'cast', 'min', 'max', 'u', 'c') and c[0] in ('bin', 'wrap', 'cast', 'min', 'max', 'u', 'c'):
            ca, cc = subterms(a, 3), subterms(c, 3)
            cands = set(ca & cc)
            for stx in (old, new):
                for fct in stx.le:
                    if fct[0] in ('le', 'lt') and len(cands) < 40:
                        if fct[2] in (a, c, P) or fct[2] in ca or fct[2] in cc:
                            cands.add(fct[1])
                        if fct[1] in (a, c, P) or fct[1] in ca or fct[1] in cc:
                            cands.add(fct[2])
            for x in cands:
                if x[0] == 'c' or x == P:
                    continue
                try:
                    if self.prove_le(old, x, a) and self.prove_le(new, x, c):
                        res.le.add(('le', x, P))
                        if self.prove_le(old, x, a, True) and self.prove_le(new, x, c, True):
                            res.le.add(('lt', x, P))
                    if self.prove_le(old, a, x) and self.prove_le(new, c, x):
                        res.le.add(('le', P, x))
                        if self.prove_le(old, a, x, True) and self.prove_le(new, c, x, True):
                            res.le.add(('lt', P, x))
                except RecursionError:
                    pass
        if hasattr(self, 'is_mult'):
            # alignment of the phi: a shift both inputs are multiples of
            ts = []
            for stx in (old, new):
                for fct in stx.le:
                    if fct[0] == 'al' and fct[2] not in ts and len(ts) < 6:
                        ts.append(fct[2])
            for t in ts:
                try:
                    if self.is_mult(old, a, t) and self.is_mult(new, c, t):
                        res.le.add(('al', P, t))
                except RecursionError:
                    pass
        j = joinitv(ia, ic)
        if j is None:
            return
        if widen and a == P and ia is not None:
            lo, hi = j
            r = self.trange(P[2]) or (-INF, INF)
            if lo < ia[0]:
                lo = r[0]
            if hi > ia[1]:
                hi = r[1]
            j = (lo, hi)
        res.itv[P] = j

    # ------------------------------------------------------------------ fixpoint
    def run_body(self, b, frame, st_in, depth):
        """Worklist fixpoint.  The input of a block is the join of the *latest*
        output of each incoming edge (not of everything ever seen), so a value
        that was superseded in a later round leaves no trace; loop heads are
        widened against their previous input."""
        order = b._rpo()
        rpo = {bi: i for i, bi in enumerate(order)}
        succ = b.succ()

        def trivial(x):
            bl = b.blocks[x]
            return bl['term']['k'] == 'goto' and not any(s['k'] == 'assign' for s in bl['st']) and not bl['cleanup']

        def eff(x):
            # skip blocks that only jump on: the join then happens where the loop condition is
            # evaluated, which is what the per-edge exit refinement below needs
            n_ = 0
            while trivial(x) and n_ < 8 and b.blocks[x]['term']['t'] != x:
                x = b.blocks[x]['term']['t']
                n_ += 1
            return x
        reach_memo = {}

        def reaches(a, h):
            r = reach_memo.get(a)
            if r is None:
                r = b.reachable(a)
                reach_memo[a] = r
            return h in r
        edge = {}
        into = {}
        heads = set()
        inputs = {}
        rounds = {}
        heap = [(0, 0)]
        inq = {0}
        exits = {}
        n = 0
        while heap:
            _p, bi = heapq.heappop(heap)
            inq.discard(bi)
            n += 1
            self.steps += 1
            if n > 20000:
                raise AnalysisError('absint: no fixpoint in %s' % b.path)
            srcs = sorted(p for p in into.get(bi, ()) if (p, bi) in edge)
            ins = [edge[(p, bi)] for p in srcs]
            if bi == 0:
                ins = [st_in] + ins
            if not ins:
                continue
            key = (frame, b.path, bi)
            st = ins[0]
            for other in ins[1:]:
                st = self.join(st, other, key, False)
            prev = inputs.get(bi)
            if prev is not None and bi in heads:
                rounds[bi] = rounds.get(bi, 0) + 1
                if rounds[bi] > self.WIDEN_AFTER:
                    st = self.widen(prev, st, key)
            if prev is not None and st.same(prev):
                continue
            inputs[bi] = st
            st = st.copy()
            try:
                outs = self.exec_block(b, frame, bi, st, depth)
            except Bottom:
                outs = []
            # loop exits of a head that evaluates the loop condition itself: the exit edge carries the
            # join of what each incoming edge contributes to it (an edge whose state makes the
            # condition true contributes nothing), not the branch of the joined state
            if bi in heads and len(ins) > 1 and b.blocks[bi]['term']['k'] == 'switch':
                ex = [s for (s, _x) in outs if s != 'ret' and not reaches(s, bi)]
                if ex:
                    per = {}
                    self.quiet += 1
                    try:
                        for one in ins:
                            try:
                                o1 = self.exec_block(b, frame, bi, one.copy(), depth)
                            except Bottom:
                                o1 = []
                            for (s, st2) in o1:
                                if s in ex:
                                    per[s] = st2 if s not in per else self.join(per[s], st2, (frame, b.path, bi, 'exit', s), False)
                    finally:
                        self.quiet -= 1
                    outs = [(s, x) for (s, x) in outs if s not in ex] + [(s, x) for s, x in per.items()]
            exits.pop(bi, None)
            live = set()
            for (s, st2) in outs:
                if s == 'ret':
                    exits[bi] = st2
                    continue
                s = eff(s)
                live.add(s)
                into.setdefault(s, set()).add(bi)
                if rpo.get(s, 1 << 30) <= rpo.get(bi, -1):
                    heads.add(s)
                old = edge.get((bi, s))
                if old is not None and old.same(st2):
                    continue
                edge[(bi, s)] = st2
                if s not in inq:
                    heapq.heappush(heap, (rpo.get(s, 1 << 30), s))
                    inq.add(s)
            for s in [x for (p_, x) in list(edge) if p_ == bi]:
                if s not in live:
                    del edge[(bi, s)]
                    if s not in inq:
                        heapq.heappush(heap, (rpo.get(s, 1 << 30), s))
                        inq.add(s)
        self.edges[(frame, b.path)] = edge
        return exits, inputs

    def widen(self, prev, st, key):
        """phi intervals of this head that grew since the previous input jump to the type bound"""
        for v, i in list(st.itv.items()):
            if v[0] == 'u' and len(v) > 1 and isinstance(v[1], tuple) and len(v[1]) > 1 and v[1][0] == 'phi' and v[1][1] == key:
                pi = prev.itv.get(v)
                if pi is None:
                    continue
                r = self.trange(v[2]) or (-INF, INF)
                lo, hi = i
                if lo < pi[0]:
                    lo = r[0]
                if hi > pi[1]:
                    hi = r[1]
                st.itv[v] = (lo, hi)
        return st

    def exec_block(self, b, frame, bi, st, depth):
        bl = b.blocks[bi]
        if bl['cleanup']:
            return []
        for si, s in enumerate(bl['st']):
            k = s['k']
            if k == 'assign':
                cell, tid = self.resolve(st, b, frame, s['pl'])
                v = self.rvalue(st, b, frame, s['rv'], tid)
                if tid is not None:
                    self.cellty[cell] = tid
                self.write_cell(st, cell, v)
                if self.stmt_hook is not None and not self.quiet:
                    self.stmt_hook(self, st, frame, b, bi, si, s, v)
            elif k == 'dead':
                root = ('L', frame, int(s['l']))
                for c in [c for c in st.env if c[0] == root]:
                    del st.env[c]
            elif k == 'setdiscr':
                pass
        t = bl['term']
        k = t['k']
        if k == 'goto':
            return [(t['t'], st)]
        if k == 'drop':
            return [(t['t'], st)]
        if k == 'return':
            return [('ret', st)]
        if k == 'switch':
            d = self.operand(st, b, frame, t['d'])
            if self.switch_hook is not None and not self.quiet:
                self.switch_hook(self, st, frame, b, bi, d)
            outs = []
            vals = [int(x['v']) for x in t['ts']]
            for x in t['ts']:
                s2 = st.copy()
                s2.pc = d
                s2.pcv = int(x['v'])
                try:
                    self.assume_switch(s2, d, int(x['v']), None)
                except Bottom:
                    continue
                outs.append((x['t'], s2))
            s2 = st.copy()
            s2.pc = d
            s2.pcv = ('not', tuple(vals))
            try:
                self.assume_switch(s2, d, None, vals)
                outs.append((t['o'], s2))
            except Bottom:
                pass
            # merge duplicate targets
            merged = {}
            for tgt, s2 in outs:
                if tgt in merged:
                    merged[tgt] = self.join(merged[tgt], s2, (frame, b.path, bi, 'sw', tgt), False)
                else:
                    merged[tgt] = s2
            return list(merged.items())
        if k == 'assert':
            c = self.operand(st, b, frame, t['c'])
            exp = bool(t['e'])
            i = self.itvof(st, c, 0)
            ok = i is not None and i[0] == i[1] and bool(i[0]) == exp
            kind = 'assert:' + t['msg'].split('(')[0]
            self.oblige(kind, b, bi, frame, ok, '' if ok else self.explain(st, c, t['msg']), c)
            self.assume(st, c, exp)
            return [(t['t'], st)]
        if k == 'call':
            return self.do_call(b, frame, bi, t, st, depth)
        if k == 'yield':
            return []
        return []

    def explain(self, st, c, msg):
        parts = []
        seen = set()

        def walk(v, d=0):
            if d > 6 or v in seen or not isinstance(v, tuple):
                return
            seen.add(v)
            if v[0] == 'u':
                i = self.itvof(st, v, 0)
                parts.append('%s in %s' % (short_vn(v), fmt_itv(i)))
                return
            for x in v[1:]:
                if isinstance(x, tuple):
                    walk(x, d + 1)
        walk(c)
        return '%s; %s' % (msg[:80], '; '.join(parts[:6]))

    # ------------------------------------------------------------------ calls
    def ret_opaque(self, st, b, frame, bi, t, tag='call'):
        dtid = self.place_tid(b, t['dst'])
        k = self.kind_of_tid(dtid) if dtid is not None else None
        if k:
            return ('opt', k, ('u', (tag, frame, b.path, bi, 'ok'), self.tname(self.payload_tid(dtid))),
                    ('u', (tag, frame, b.path, bi, 'succ'), 'bool'))
        return ('u', (tag, frame, b.path, bi), self.tname(dtid))

    def do_call(self, b, frame, bi, t, st, depth):
        fn = t.get('fn') or ''
        args = [self.operand(st, b, frame, a) for a in t['args']]
        tgt = t['t']
        # diverging calls
        if tgt < 0:
            if any(p in fn for p in PANICS) or True:
                self.oblige('panic', b, bi, frame, False, 'call of %s is reachable' % (fn or '?'), st.pc)
            return []
        res = None
        handled = False
        for suf, hook in self.hooks.items():
            if fn.endswith(suf):
                res = hook(self, st, frame, b, bi, t, args)
                if res is not None:
                    handled = True
                break
        if not handled:
            res = self.model(st, b, frame, bi, t, fn, args)
            handled = res is not None
        if not handled:
            callee = self.callee_body(t, fn)
            if callee is not None and depth < self.MAX_DEPTH and self.inline_pred(callee.path) and not self.in_stack(frame, callee.path):
                res = self.inline(st, b, frame, bi, t, callee, args, depth)
                if res is None:
                    return []
                handled = True
        if not handled:
            self.opaque_calls.add(fn)
            # havoc what is passed by &mut
            for a, av in zip(t['args'], args):
                tid = self.operand_tid(b, a)
                ty = self.f.types[tid] if tid is not None else None
                if ty is not None and ty['k'] == 'ref' and ty.get('m') and av[0] == 'ref':
                    self.havoc(st, av[1])
            res = self.ret_opaque(st, b, frame, bi, t)
        cell, tid = self.resolve(st, b, frame, t['dst'])
        if tid is not None:
            self.cellty[cell] = tid
        self.write_cell(st, cell, res)
        for suf, hook in self.after_call.items():
            if fn.endswith(suf):
                hook(self, st, frame, b, bi, t, res)
        return [(tgt, st)]

    def resolve_tid(self, frame, tid, depth=0):
        """a type id of a generic callee -> the concrete type id of this inlining context"""
        if tid is None or depth > 8:
            return None
        t = self.f.types[tid]
        if t['k'] == 'proj' and 'rpitit' not in t and t.get('a'):
            # <X as Trait>::Name through the impl table
            st = self.resolve_tid(frame, t['a'][0], depth + 1)
            if st is None:
                return None
            trait, name = t['p'].rsplit('::', 1)
            for im in self.f.impls:
                if im.get('trait') == trait and self.f._same_head(im['self'], st):
                    for a in im.get('assoc_types') or []:
                        if a['n'] == name:
                            return a['t']
            return None
        if t['k'] != 'param':
            return tid
        sub = self.subst.get(frame)
        if not sub or t.get('i') is None or t['i'] >= len(sub) or sub[t['i']] is None:
            return None
        return sub[t['i']]

    def unify(self, ctid, atid, frame, out, depth=0):
        if ctid is None or atid is None or depth > 6:
            return
        ct, at = self.f.types[ctid], self.f.types[atid]
        if ct['k'] == 'param':
            r = self.resolve_tid(frame, atid)
            if r is not None and ct.get('i') is not None:
                out.setdefault(ct['i'], r)
            return
        if at['k'] in ('param', 'proj'):
            r = self.resolve_tid(frame, atid)
            if r is None:
                return
            atid, at = r, self.f.types[r]
        if ct['k'] != at['k']:
            return
        if ct['k'] in ('ref', 'ptr', 'slice', 'array'):
            self.unify(ct['t'], at['t'], frame, out, depth + 1)
        elif ct['k'] in ('adt', 'tuple'):
            for x, y in zip(ct.get('a') or [], at.get('a') or []):
                self.unify(x, y, frame, out, depth + 1)

    def in_stack(self, frame, path):
        fr = frame
        n = 0
        while fr:
            if fr[1] == path:
                n += 1
            fr = fr[0]
        return n >= 1

    def callee_body(self, t, fn):
        if not fn:
            return None
        bd = self.f.body(fn)
        if bd is not None and not bd.is_coroutine:
            fi = self.f.fn_info.get(fn) if hasattr(self.f, 'fn_info') else None
            return bd
        if t.get('trait') and t.get('a'):
            p = self.f.resolve_trait_method(t['trait'], t['name'], t['a'][0])
            if p:
                bd = self.f.body(p)
                if bd is not None and not bd.is_coroutine:
                    return bd
        return None

    def inline(self, st, b, frame, bi, t, callee, args, depth):
        fr = (frame, callee.path, bi, b.path)
        sub = {}
        for i, a in enumerate(t['args']):
            if i + 1 < len(callee.locals):
                self.unify(callee.locals[i + 1], self.operand_tid(b, a), frame, sub)
        dt = self.place_tid(b, t['dst'])
        self.unify(callee.locals[0], dt, frame, sub)
        if self.f.body(t.get('fn') or '') is callee:
            for i, x in enumerate(t.get('a') or []):
                sub.setdefault(i, self.resolve_tid(frame, x))
        n = max(sub) + 1 if sub else 0
        self.subst[fr] = [sub.get(i) for i in range(n)]
        for i, a in enumerate(args):
            cell = (('L', fr, i + 1), ())
            self.cellty[cell] = callee.locals[i + 1] if i + 1 < len(callee.locals) else None
            st.env[cell] = a
        h = self.entry_hooks.get(callee.path)
        if h:
            h(self, st, fr)
        exits, _states = self.run_body(callee, fr, st, depth + 1)
        if not exits:
            return None
        out = None
        rets = []
        for ebi, s in sorted(exits.items()):
            rv = self.read_cell(s, (('L', fr, 0), ()), callee.locals[0])
            hk = self.exit_hooks.get(callee.path)
            if hk:
                hk(self, s, fr, rv, ebi)
            rets.append((s, rv))
        # join exits; the return value is joined through its cell
        acc = None
        for s, rv in rets:
            s.env[(('L', fr, 0), ())] = rv
            self.cellty[(('L', fr, 0), ())] = callee.locals[0]
            acc = s if acc is None else self.join(acc, s, (fr, 'ret'), False)
        rv = acc.env.get((('L', fr, 0), ()))
        if rv is None:
            rv = self.ret_opaque(st, b, frame, bi, t, 'ret')
        # drop the callee frame
        for c in [c for c in acc.env if c[0][0] == 'L' and c[0][1] == fr]:
            del acc.env[c]
        st.env, st.itv, st.le = acc.env, acc.itv, acc.le
        st.guard = acc.guard
        return rv

    # ------------------------------------------------------------------ models of library functions
    def model(self, st, b, frame, bi, t, fn, args):
        f = self.f
        name = fn.rsplit('::', 1)[-1]

        def val(i, tid=None):
            """value of a by-reference argument"""
            a = args[i]
            return self.deref_val(st, a, tid)

        def arg_tid(i):
            return self.operand_tid(b, t['args'][i])

        def pointee_tid(i):
            tid = arg_tid(i)
            if tid is None:
                return None
            ty = f.types[tid]
            return ty['t'] if ty['k'] in ('ref', 'ptr') else None

        dtid = self.place_tid(b, t['dst'])
        dty = self.tname(dtid)
        if fn.endswith('mem::size_of') or fn.endswith('mem::align_of'):
            if 'layout' in t:
                return ('c', int(t['layout']))
            a = t.get('a') or []
            tid = self.resolve_tid(frame, a[0]) if a else None
            if tid is not None:
                key = 'size' if fn.endswith('size_of') else 'align'
                if key in f.types[tid]:
                    return ('c', int(f.types[tid][key]))
            return ('u', ('layout', bi), 'usize')
        if fn in ('core::slice::<impl [T]>::len', 'std::slice::<impl [T]>::len', 'core::str::<impl str>::len', 'std::str::<impl str>::len'):
            return self.len_of(args[0])
        if fn.endswith('Vec::<T, A>::len') or fn.endswith('Vec::<T>::len') or fn.endswith('String::len'):
            v = val(0, pointee_tid(0))
            return self.len_of(('vslice', v))
        if fn.endswith('slice::<impl [T]>::is_empty') or fn.endswith('Vec::<T, A>::is_empty'):
            ln = self.len_of(args[0]) if 'slice' in fn else self.len_of(('vslice', val(0, pointee_tid(0))))
            return ('cmp', 'Eq', ln, ('c', 0))
        if fn.endswith('slice::<impl [T]>::to_vec') or fn.endswith('slice::<impl [T]>::to_owned'):
            return ('vecof', args[0])
        if fn.endswith('ops::Deref::deref') or fn.endswith('ops::DerefMut::deref_mut') or fn.endswith('Vec::<T, A>::as_slice') or fn.endswith('AsRef::as_ref') or fn.endswith('String::as_bytes') or fn.endswith('Vec::<T, A>::as_mut_slice'):
            pt = pointee_tid(0)
            pty = f.types[pt] if pt is not None else None
            if pty is not None and pty['k'] == 'adt' and pty['p'] in ('std::vec::Vec', 'std::string::String'):
                return ('vslice', val(0, pt))
            if pty is not None and pty['k'] in ('slice',):
                return args[0]
            return None
        if fn.endswith('RangeInclusive::<Idx>::new'):
            return ('agg', 'std::ops::RangeInclusive', 0, (args[0], args[1]))
        if fn.endswith('RangeInclusive::<Idx>::contains') or fn.endswith('Range::<Idx>::contains'):
            r = val(0)
            x = val(1, pointee_tid(1))
            if r[0] == 'agg' and len(r[3]) >= 2:
                return ('inrange', x, r[3][0], r[3][1], 'Inclusive' in fn)
            return None
        m = None
        for pre in ('checked_', 'wrapping_', 'saturating_', 'overflowing_'):
            if name.startswith(pre) and 'num::<impl' in fn:
                m = (pre, name[len(pre):])
        if m:
            pre, opn = m
            op = {'add': 'Add', 'sub': 'Sub', 'mul': 'Mul', 'shl': 'Shl', 'shr': 'Shr', 'div': 'Div', 'rem': 'Rem'}.get(opn)
            ity = self.tname(arg_tid(0))
            if op and ity and len(args) == 2:
                x = self.mk_bin(op, args[0], args[1])
                if pre == 'checked_':
                    if op in ('Div', 'Rem'):
                        cond = ('cmp', 'Ne', args[1], ('c', 0))
                    elif op in ('Shl', 'Shr'):
                        cond = ('cmp', 'Lt', args[1], ('c', {'u8': 8, 'u16': 16, 'u32': 32, 'u64': 64, 'usize': 64, 'u128': 128}.get(ity, 64)))
                        x = ('wrap', x, ity) if op == 'Shl' else x
                    else:
                        cond = ('not', ('ovf', x, ity))
                    return ('opt', 'Option', x, cond)
                if pre == 'wrapping_':
                    return ('wrap', x, ity)
                if pre == 'saturating_':
                    r = RANGES[ity]
                    return ('max', ('c', r[0]), ('min', ('c', r[1]), x))
            return None
        if 'num::<impl' in fn:
            ity = self.tname(arg_tid(0)) if args else None
            bits = {'u8': 8, 'u16': 16, 'u32': 32, 'u64': 64, 'usize': 64, 'u128': 128}.get(ity, 64)
            if name == 'is_power_of_two':
                return ('ispow2', args[0])
            if name == 'trailing_zeros':
                return ('tz', args[0], bits)
            if name == 'ilog2':
                return ('log2', args[0], bits - 1)
            if name in ('leading_zeros', 'count_ones', 'count_zeros', 'trailing_ones', 'leading_ones'):
                return ('u', ('ranged', (name, frame, b.path, bi), 0, bits), 'u32')
            if name == 'next_power_of_two':
                return ('u', ('npo2', args[0]), ity)
            if name in ('from_be_bytes', 'from_le_bytes', 'from_ne_bytes', 'to_be', 'to_le', 'from_be', 'from_le', 'swap_bytes'):
                return ('u', (name, frame, b.path, bi), dty)
            if name == 'pow' and args[0][0] == 'c' and args[1][0] == 'c':
                return ('c', args[0][1] ** args[1][1])
            if name == 'div_ceil':
                return self.mk_bin('Div', self.mk_bin('Add', args[0], self.mk_bin('Sub', args[1], ('c', 1))), args[1])
            if name in ('min', 'max') and len(args) == 2:
                return (name, args[0], args[1])
            if name == 'abs_diff':
                return ('max', self.mk_bin('Sub', args[0], args[1]), self.mk_bin('Sub', args[1], args[0]))
        if fn in ('std::cmp::min', 'core::cmp::min', 'std::cmp::Ord::min', 'core::cmp::Ord::min') and len(args) == 2:
            return ('min', args[0], args[1])
        if fn in ('std::cmp::max', 'core::cmp::max', 'std::cmp::Ord::max', 'core::cmp::Ord::max') and len(args) == 2:
            return ('max', args[0], args[1])
        if fn.endswith('Ord::clamp') and len(args) == 3:
            return ('max', args[1], ('min', args[2], args[0]))
        # Option / Result plumbing
        if name == 'then_some' and 'bool' in fn and len(args) == 2:
            # cond.then_some(v): Some(v) iff cond
            return ('opt', 'Option', args[1], args[0])
        if fn.endswith('ops::Try::branch'):
            a = args[0]
            if a[0] == 'opt':
                return ('opt', 'ControlFlow', a[2], a[3])
            return None
        if name == 'map' and 'Option::<T>' in fn and len(args) == 2 and args[0][0] == 'opt' \
                and args[1][0] == 'agg' and isinstance(args[1][1], tuple) and args[1][1][0] == 'closure':
            # opt.map(|v| g(v)): the closure applied to the payload, same variant
            cb_ = self.f.body(args[1][1][1])
            if cb_ is not None and len(cb_.blocks) <= 12 and not self.in_stack(frame, cb_.path):
                fr_ = (frame, cb_.path, bi, b.path)
                st.env[(('L', fr_, 1), ())] = args[1]
                st.env[(('L', fr_, 2), ())] = args[0][2]
                self.cellty[(('L', fr_, 1), ())] = cb_.locals[1] if len(cb_.locals) > 1 else None
                self.cellty[(('L', fr_, 2), ())] = cb_.locals[2] if len(cb_.locals) > 2 else None
                self.subst[fr_] = self.subst.get(frame, [])
                q0 = self.quiet
                self.quiet = True          # a panic site of the closure is only reached for Some: not judged here
                try:
                    exits, _ss = self.run_body(cb_, fr_, st.copy(), 3)
                finally:
                    self.quiet = q0
                outs_ = [self.read_cell(s_, (('L', fr_, 0), ()), cb_.locals[0]) for _e, s_ in sorted(exits.items())]
                if len(outs_) == 1:
                    return ('opt', 'Option', outs_[0], args[0][3])
            return None
        if name == 'filter' and 'Option::<T>' in fn and len(args) == 2 and args[0][0] == 'opt' \
                and args[1][0] == 'agg' and isinstance(args[1][1], tuple) and args[1][1][0] == 'closure':
            # opt.filter(|x| pred(x)): the payload stays, the result is Some iff it was Some and the predicate holds
            cb_ = self.f.body(args[1][1][1])
            if cb_ is not None and len(cb_.blocks) <= 12 and not self.in_stack(frame, cb_.path):
                cell = (('T', frame, b.path, bi), ())
                st.env[cell] = args[0][2]
                fr_ = (frame, cb_.path, bi, b.path)
                st.env[(('L', fr_, 1), ())] = args[1]
                st.env[(('L', fr_, 2), ())] = ('ref', cell)
                self.cellty[(('L', fr_, 1), ())] = cb_.locals[1] if len(cb_.locals) > 1 else None
                self.cellty[(('L', fr_, 2), ())] = cb_.locals[2] if len(cb_.locals) > 2 else None
                self.subst[fr_] = self.subst.get(frame, []) if isinstance(getattr(self, 'subst', None), dict) else []
                exits, _ss = self.run_body(cb_, fr_, st.copy(), 3)
                preds = []
                for _e, s_ in sorted(exits.items()):
                    preds.append(self.read_cell(s_, (('L', fr_, 0), ()), cb_.locals[0]))
                if len(preds) == 1 and preds[0][0] in ('cmp', 'not', 'c', 'inrange'):
                    return ('opt', 'Option', args[0][2], ('and', args[0][3], preds[0]))
            return ('opt', 'Option', args[0][2], ('and', args[0][3], ('u', ('filter', frame, b.path, bi), 'bool')))
        if fn.endswith('ops::FromResidual::from_residual'):
            # the residual of `?`: the failing variant of the destination (None / Err(..))
            k_ = self.kind_of_tid(dtid) if dtid is not None else None
            if k_ in ('Option', 'Result'):
                return ('opt', k_, ('u', ('residual', frame, b.path, bi), self.tname(self.payload_tid(dtid))), ('c', 0))
            return None
        if name in ('ok_or', 'ok_or_else', 'map_err', 'ok', 'or_else_err') and ('Option::<T>' in fn or 'Result::<T, E>' in fn):
            a = args[0]
            if a[0] == 'opt':
                kind = self.kind_of_tid(dtid) or a[1]
                return ('opt', kind, a[2], a[3])
            return None
        if name in ('unwrap', 'expect') and ('Option::<T>' in fn or 'Result::<T, E>' in fn):
            a = args[0]
            if a[0] == 'opt':
                ok = self.prove_true(st, a[3])
                self.oblige('unwrap', b, bi, frame, ok, '' if ok else self.explain(st, a[3], '%s() on a value that may be None/Err' % name), a[3])
                self.assume(st, a[3], True)
                return a[2]
            self.oblige('unwrap', b, bi, frame, False, '%s() on an unknown value' % name)
            return None
        if name in ('unwrap_or', 'unwrap_or_default') and 'Option::<T>' in fn:
            a = args[0]
            if a[0] == 'opt':
                c = self.itvof(st, a[3], 0)
                if c == (1, 1):
                    return a[2]
                if c == (0, 0) and len(args) > 1:
                    return args[1]
                ia = self.itvof(st, a[2], 0)
                ib = self.itvof(st, args[1], 0) if len(args) > 1 else (0, 0)
                j = joinitv(ia, ib)
                if j:
                    return ('u', ('ranged', ('unwrap_or', frame, b.path, bi), j[0], j[1]), dty)
            return None
        if name in ('is_some', 'is_ok') and ('Option::<T>' in fn or 'Result::<T, E>' in fn):
            a = val(0)
            if a[0] == 'opt':
                return a[3]
            return None
        if name in ('is_none', 'is_err') and ('Option::<T>' in fn or 'Result::<T, E>' in fn):
            a = val(0)
            if a[0] == 'opt':
                return ('not', a[3])
            return None
        if fn.endswith('convert::Into::into') or fn.endswith('convert::From::from'):
            s, d = self.tname(arg_tid(0)), dty
            if s and d:
                rs, rd = RANGES[s], RANGES[d]
                if rs[0] >= rd[0] and rs[1] <= rd[1]:
                    return args[0]
            if d and args[0][0] in ('c', 'bin', 'wrap', 'cast', 'u', 'min', 'max'):
                # generic T: Into<int>: the conversions between integers preserve the value
                ia = self.itvof(st, args[0], 0)
                rd = RANGES[d]
                if ia is not None and ia[0] >= rd[0] and ia[1] <= rd[1] and (args[0][0] != 'u' or self.vn_ty(args[0])):
                    return args[0]
            return None
        if fn.endswith('convert::TryInto::try_into') or fn.endswith('convert::TryFrom::try_from'):
            s = self.tname(arg_tid(0))
            pd = self.tname(self.payload_tid(dtid)) if dtid is not None and self.kind_of_tid(dtid) else None
            if s and pd:
                return ('opt', 'Result', args[0], ('not', ('ovf', args[0], pd)))
            return None
        if fn.endswith('clone::Clone::clone'):
            pt = pointee_tid(0)
            if pt is not None and (self.tname(pt) or f.types[pt]['k'] in ('adt', 'tuple')):
                v = val(0, pt)
                if v[0] in ('c', 'u', 'bin', 'wrap', 'cast', 'opt', 'min', 'max', 'agg', 'vecof', 'vecn') and (self.tname(pt) or v[0] in ('vecof', 'vecn', 'agg', 'opt')):
                    return v
            return None
        if fn.endswith('cmp::PartialEq::eq') or fn.endswith('cmp::PartialEq::ne'):
            pt = pointee_tid(0)
            op = 'Eq' if name == 'eq' else 'Ne'
            if pt is not None and self.tname(pt):
                return ('cmp', op, val(0, pt), val(1, pt))
            if pt is not None and f.types[pt]['k'] == 'adt':
                x, y = val(0, pt), val(1, pt)
                if (x[0] == 'agg' and not x[3]) or (y[0] == 'agg' and not y[3]):
                    return ('cmp', op, self.discr_of(x), self.discr_of(y))
            return None
        if fn.endswith('hint::must_use') or fn.endswith('hint::black_box') or fn.endswith('convert::identity'):
            return args[0]
        # slices
        if fn.endswith('ops::Index::index') or fn.endswith('ops::IndexMut::index_mut'):
            a = t.get('a') or []
            st_ty = f.types[a[0]] if a else None
            it = f.types[a[1]] if len(a) > 1 else None
            base = args[0]
            if st_ty is not None and st_ty['k'] == 'adt' and st_ty['p'] == 'std::vec::Vec':
                base = ('vslice', val(0, a[0]))
            elif st_ty is None or st_ty['k'] not in ('slice', 'array', 'prim'):
                return None
            if st_ty is not None and st_ty['k'] == 'prim' and st_ty['p'] != 'str':
                return None
            ln = self.len_of(base)
            r = args[1]
            ip = it['p'] if it is not None and it['k'] == 'adt' else (it['p'] if it is not None and it['k'] == 'prim' else None)
            if ip == 'std::ops::Range' and r[0] == 'agg':
                s, e = r[3][0], r[3][1]
                ok1 = self.prove_le(st, s, e)
                ok2 = self.prove_le(st, e, ln)
                self.oblige('index', b, bi, frame, ok1 and ok2,
                            '' if ok1 and ok2 else 'range %s..%s of a slice of length %s: %s' % (
                                self.show(st, s), self.show(st, e), self.show(st, ln),
                                'start may exceed end' if not ok1 else 'end may exceed the length'), (base, s, e, st.copy()))
                st.le.add(('le', s, e))
                st.le.add(('le', e, ln))
                return ('sub', base, s, e)
            if ip == 'std::ops::RangeFrom' and r[0] == 'agg':
                s = r[3][0]
                ok = self.prove_le(st, s, ln)
                self.oblige('index', b, bi, frame, ok, '' if ok else 'range %s.. of a slice of length %s' % (self.show(st, s), self.show(st, ln)))
                st.le.add(('le', s, ln))
                return ('subfrom', base, s)
            if ip == 'std::ops::RangeTo' and r[0] == 'agg':
                e = r[3][0]
                ok = self.prove_le(st, e, ln)
                self.oblige('index', b, bi, frame, ok, '' if ok else 'range ..%s of a slice of length %s' % (self.show(st, e), self.show(st, ln)))
                st.le.add(('le', e, ln))
                return ('subto', base, e)
            if ip == 'std::ops::RangeFull':
                return base
            if ip == 'usize':
                ok = self.prove_le(st, r, ln, True)
                self.oblige('index', b, bi, frame, ok, '' if ok else 'index %s of a sequence of length %s' % (self.show(st, r), self.show(st, ln)))
                st.le.add(('lt', r, ln))
                return ('ref', (('M', base), (('i', r),)))
            self.oblige('index', b, bi, frame, False, 'index of kind %s is not modelled' % ip)
            return None
        if fn.endswith('slice::<impl [T]>::chunks') or fn.endswith('slice::<impl [T]>::chunks_exact'):
            return ('agg', 'chunks', 0, (args[0], args[1], ('c', 1 if fn.endswith('exact') else 0)))
        if fn.endswith('iter::Iterator::step_by') and len(args) == 2 and args[0][0] == 'agg' and args[0][1] == 'std::ops::Range':
            return ('agg', 'stepby', 0, (args[0][3][0], args[0][3][1], args[1]))
        if fn.endswith('iter::IntoIterator::into_iter'):
            if args[0][0] == 'agg' and args[0][1] in ('chunks', 'std::ops::Range', 'stepby'):
                return args[0]
            return None
        if fn.endswith('iter::Iterator::next'):
            it = val(0)
            if it[0] == 'agg' and it[1] == 'chunks' and it[3][1][0] == 'c':
                ch = ('chunk', (frame, b.path, bi), it[3][1][1], it[3][2][1])
                return ('opt', 'Option', ch, ('u', ('next', frame, b.path, bi), 'bool'))
            if it[0] == 'agg' and it[1] == 'stepby':
                lo, hi, step = it[3]
                ilo, ihi = self.itvof(st, lo, 0), self.itvof(st, hi, 0)
                if ilo and ihi:
                    # yields lo, lo + step, ... below hi; the iterator value itself is not advanced (summary)
                    x = ('u', ('ranged', ('it', frame, b.path, bi), ilo[0], max(ihi[1] - 1, ilo[0])), self.vn_ty(lo) or dty)
                    st.le.add(('lt', x, hi))
                    st.le.add(('le', lo, x))
                    sh = self.pow2_shift(st, step) if hasattr(self, 'pow2_shift') else None
                    if sh is not None and (lo == ('c', 0) or self.is_mult(st, lo, sh)):
                        st.le.add(('al', x, sh))
                        if self.is_mult(st, hi, sh):
                            # x < hi, both multiples of the step: the whole step fits below hi
                            st.le.add(('le', self.mk_bin('Add', x, step), hi))
                    self.walk_sites.setdefault((frame, b.path, bi), ('stepby', lo, hi, step, b.path, bi))
                    self.walks[x] = self.walk_sites[(frame, b.path, bi)]
                    return ('opt', 'Option', x, ('u', ('next', frame, b.path, bi), 'bool'))
            if it[0] == 'agg' and it[1] == 'std::ops::Range':
                lo, hi = it[3][0], it[3][1]
                ilo, ihi = self.itvof(st, lo, 0), self.itvof(st, hi, 0)
                if ilo and ihi:
                    # the iterator state advances: forget it, keep the bounds of what it yields
                    if args[0][0] == 'ref':
                        self.write_cell(st, args[0][1], ('agg', 'std::ops::Range', 0,
                                                         (('u', ('ranged', ('rng', frame, b.path, bi), ilo[0], max(ihi[1], ilo[0])), self.vn_ty(lo) or 'usize'), hi)))
                    x = ('u', ('ranged', ('it', frame, b.path, bi), ilo[0], max(ihi[1] - 1, ilo[0])), self.vn_ty(lo) or dty)
                    # what a half-open range yields lies inside it
                    st.le.add(('lt', x, hi))
                    st.le.add(('le', lo, x))
                    self.walk_sites.setdefault((frame, b.path, bi), ('range', lo, hi, ('c', 1), b.path, bi))
                    self.walks[x] = self.walk_sites[(frame, b.path, bi)]
                    return ('opt', 'Option', x, ('u', ('next', frame, b.path, bi), 'bool'))
            return None
        if fn.endswith('alloc::Layout::from_size_align') and len(args) == 2 and args[1][0] == 'c':
            al = args[1][1]
            if al > 0 and al & (al - 1) == 0:
                return ('opt', 'Result', ('agg', 'layout', 0, (args[0], args[1])),
                        ('cmp', 'Le', args[0], ('c', (1 << 63) - 1 - (al - 1))))
            return None
        if fn.endswith(('alloc::alloc', 'alloc::alloc_zeroed')) and len(args) == 1 and args[0][0] == 'agg' and args[0][1] == 'layout' \
                and args[0][3][1][0] == 'c':
            # the allocator contract: null, or aligned as the layout asks - in both cases a multiple of the alignment
            return self.mk_bin('Mul', ('u', ('allocation', frame, b.path, bi), 'usize'), args[0][3][1])
        if fn.endswith('slice::from_raw_parts') or fn.endswith('slice::from_raw_parts_mut'):
            return ('rawslice', args[0], args[1])
        if fn.endswith('Vec::<T>::new') or fn.endswith('Vec::<T, A>::new'):
            return ('vecn', ('c', 0))
        if fn.endswith('vec::from_elem'):
            return ('vecn', args[1])
        return None

    # ------------------------------------------------------------------ entry
    def analyze(self, path, setup=None):
        b = self.f.body(path)
        if b is None:
            raise AnalysisError('absint: no body %s' % path)
        st = State()
        frame = (None, path, -1, '')
        for i in range(b.argc):
            cell = (('L', frame, i + 1), ())
            self.cellty[cell] = b.locals[i + 1]
            st.env[cell] = ('u', ('param', path, i), self.tname(b.locals[i + 1]))
        if setup:
            setup(self, st, frame, b)
        exits, states = self.run_body(b, frame, st, 0)
        return frame, exits, states


def fmt_itv(i):
    if i is None:
        return '?'
    lo = '-inf' if i[0] <= -INF else ('%d' % i[0] if abs(i[0]) < 1 << 20 else hex(i[0]))
    hi = 'inf' if i[1] >= INF else ('%d' % i[1] if abs(i[1]) < 1 << 20 else hex(i[1]))
    return '[%s, %s]' % (lo, hi)


def short_vn(v, d=0):
    if not isinstance(v, tuple):
        return str(v)
    if d > 4:
        return '..'
    h = v[0]
    if h == 'c':
        return str(v[1])
    if h == 'u':
        k = v[1]
        if isinstance(k, tuple) and k:
            if k[0] == 'init':
                return 'init(%s)' % short_cell(k[1])
            if k[0] == 'proj':
                return '%s%s' % (short_vn(k[1], d + 1), ''.join('.%s' % (x[1],) for x in k[2]))
            if k[0] == 'phi':
                return 'phi(%s@bb%s)' % (short_cell(k[2]), k[1][-1] if isinstance(k[1], tuple) else '')
            if k[0] in ('call', 'ret'):
                return '%s(%s bb%s)' % (k[0], k[2].split('::')[-1], k[3])
            if k[0] == 'param':
                return 'arg%d' % k[2]
            return str(k[0])
        return str(k)
    if h == 'bin':
        return '(%s %s %s)' % (short_vn(v[2], d + 1), v[1], short_vn(v[3], d + 1))
    if h in ('wrap', 'cast'):
        return '%s(%s as %s)' % (h, short_vn(v[1], d + 1), v[2])
    if h == 'len':
        return 'len(%s)' % short_vn(v[1], d + 1)
    return '%s(%s)' % (h, ','.join(short_vn(x, d + 1) for x in v[1:] if isinstance(x, tuple)))


def short_cell(c):
    root, path = c
    if root[0] == 'L':
        s = '_%d' % root[2]
    else:
        s = '*%s' % short_vn(root[1], 3)
    return s + ''.join('.%s' % (x[1] if not isinstance(x[1], tuple) else short_vn(x[1], 3)) for x in path)

import sys
from .facts import load
f = load(sys.argv[1])
for b in f.body_list:
    if any(b.path.endswith(s) for s in sys.argv[2:]):
        b.dump()

"""Engine A: backend-effect ordering typestate (C04, C05, C12, parts of C02).

Token = frozenset of facts
  ('U', cls, origin)     a request of class cls was issued and no fsync has
                         completed since (may-analysis)
  ('RAM', kind)          metadata of this kind was changed in RAM and has not
                         been handed to the backend yet
                         kinds: RC (refcount slices) L2 (mapping slices)
                                RT L1 (top-table dirty blocks)
  ('UNREF', kind, st)    this operation removed a reference (L2 entry / header
                         pointer); st = RAM | UNSYNCED
  ('F', name)            frame-local fact (saved/restored around calls)

Write classes come from buffer provenance (DESIGN 2.1), zero/punch classes
from the provenance of the offset.
"""
from .interp import Domain, Interp, Program, short, head, is_identity_call, tag_of_operand
from .facts import AnalysisError

TABLE_CLS = {
    'meta::refcount::RefBlock': 'RB',
    'meta::l2::L2Table': 'L2',
    'meta::refcount::RefTable': 'RT',
    'meta::l1::L1Table': 'L1',
}
SLICE = ('RB', 'L2')
TOP = ('RT', 'L1')
CHILD_OF = {'RT': 'RB', 'L1': 'L2'}

PASS_THROUGH = (
    'std::slice::from_raw_parts', 'std::slice::from_raw_parts_mut',
    'std::ptr::mut_ptr::<impl *mut T>::cast', 'std::ptr::const_ptr::<impl *const T>::cast',
    'std::option::Option::<T>::unwrap', 'std::result::Result::<T, E>::unwrap',
    'core::num::<impl u64>::checked_add', 'std::cmp::min', 'std::cmp::max',
)


def table_cls(f, tid):
    if tid is None or tid < 0:
        return None
    t = f.types[tid]
    if t['k'] == 'ref':
        return table_cls(f, t['t'])
    return TABLE_CLS.get(t.get('p'))


class Classifier:
    """Deep provenance of an operand inside one body -> class tag."""

    def __init__(self, program):
        self.p = program
        self.f = program.f
        self._memo = {}
        self._guardty = {}

    def classify(self, ip, fr, operand, want):
        """want: 'buf' | 'off' | 'tbl' | 'const'."""
        if operand['k'] == 'const':
            if 'v' in operand:
                return 'C:' + operand['v']
            return None
        if operand['k'] not in ('copy', 'move'):
            return None
        k = (fr.body.path, fr.ctx, fr.argtags, id(operand))
        found = self._memo.get(k)
        if found is None:
            found = frozenset(self._walk(ip, fr, operand['pl'], set(), 0))
            self._memo[k] = found
        return self._pick(found, want)

    def is_guard_ty(self, tid):
        r = self._guardty.get(tid)
        if r is None:
            r = self.f.type_contains(tid, lambda x: x['k'] == 'adt' and x['p'] in (
                'futures_locks::RwLockReadGuard', 'futures_locks::RwLockWriteGuard'))
            self._guardty[tid] = r
        return r

    def _pick(self, found, want):
        if want == 'len':
            order = ('LEN:', 'INH:')
        elif want == 'buf':
            order = ('TBL:', 'HDR', 'ZERO', 'IOBUF', 'INH:')
        elif want == 'off':
            order = ('OFF:', 'C:', 'INH:')
        elif want == 'tbl':
            order = ('GUARD', 'LOCALTBL', 'INH:')
        else:
            order = ('C:', 'INH:')
        for pre in order:
            for x in sorted(found):
                if x.startswith(pre):
                    if x.startswith('INH:'):
                        return x[4:] or None
                    return x
        return None

    def _walk(self, ip, fr, pl, seen, depth):
        body = fr.body
        out = set()
        base = pl['l']
        fields = [e for e in pl['p'] if e['k'] == 'field']
        for e in fields:
            if e['n'] == 'cluster_offset':
                out.add('OFF:DATA')
        # captures / parameters: inherit the tag computed at the call site
        if (body.is_coroutine or body.kind == 'Closure') and base == 1 and fields:
            i = fields[0]['i']
            if i < len(fr.argtags) and fr.argtags[i]:
                out.add('INH:' + fr.argtags[i])
            return out
        if not (body.is_coroutine or body.kind == 'Closure') and 1 <= base <= body.argc:
            i = base - 1
            if i < len(fr.argtags) and fr.argtags[i]:
                out.add('INH:' + fr.argtags[i])
            if not self.p.defs(body).get(base):
                return out
        if base in seen or depth > 60:
            return out
        seen.add(base)
        if self.is_guard_ty(body.locals[base]):
            out.add('GUARD')
        for d in self.p.defs(body).get(base, []):
            if d[0] == 'call':
                t = body.blocks[d[1]]['term']
                fn = t.get('fn', '')
                name = t.get('name', '')
                if 'trait' in t and t['trait'] == 'meta::table::Table' and name in ('as_ptr', 'as_mut_ptr'):
                    c = table_cls(self.f, self.p.subst(t['a'][0], fr.ctx))
                    # a table that is still private to this task (not yet
                    # reachable from the device) is marked :P
                    priv = ''
                    if t['args'] and t['args'][0]['k'] in ('copy', 'move'):
                        rf = self._walk(ip, fr, t['args'][0]['pl'], set(), depth + 1)
                        if self._pick(rf, 'tbl') == 'LOCALTBL':
                            priv = ':P'
                    out.add('TBL:' + (c or '?') + priv)
                    continue
                if 'trait' in t and t['trait'] == 'meta::table::Table' and name == 'byte_size':
                    out.add('LEN:FULL')
                    continue
                if 'trait' in t and t['trait'] == 'meta::table::Table' and name == 'get_offset':
                    c = table_cls(self.f, self.p.subst(t['a'][0], fr.ctx))
                    out.add('OFF:' + (c or '?'))
                    continue
                if fn.endswith('Qcow2Header::l1_table_offset') or fn.endswith('Qcow2Header::reftable_offset'):
                    out.add('OFF:HDRSELF')
                    continue
                if fn.endswith('Qcow2Header::serialize_to_buf'):
                    out.add('HDR')
                    continue
                if fn == 'ops::zeroed_io_buf':
                    out.add('ZERO')
                    continue
                if fn.startswith('helpers::Qcow2IoBuf::<T>::new'):
                    # the bounce buffer the serialised header is copied into is the header
                    if any((x.get('fn') or '').endswith('Qcow2Header::serialize_to_buf') for _i, x in body.calls()):
                        out.add('HDR')
                    else:
                        out.add('IOBUF')
                    continue
                if 'HostCluster::rb_slice_host' in fn or 'HostCluster::rb_host' in fn or 'HostCluster::rt_index' in fn:
                    out.add('OFF:RB')
                    continue
                if 'trait' in t and t['trait'] == 'meta::table::Table' and name == 'entries':
                    c = table_cls(self.f, self.p.subst(t['a'][0], fr.ctx))
                    if c == 'RT':
                        # a position computed from the reftable geometry is a refblock position
                        out.add('OFF:RB')
                    continue
                if fn.endswith(('L2Entry::allocation', 'L2Entry::cluster_offset')):
                    out.add('OFF:PUNCH')
                    continue
                if fn.endswith('::clone_and_grow') or fn.endswith('RefBlock::new') or fn.endswith('L2Table::new') \
                        or fn.endswith('::new_empty'):
                    out.add('LOCALTBL')
                    continue
                if is_identity_call(t) or fn in PASS_THROUGH or fn.startswith('core::num::') \
                        or fn.startswith('std::ops::'):
                    for a in t['args']:
                        if a['k'] in ('copy', 'move'):
                            out |= self._walk(ip, fr, a['pl'], seen, depth + 1)
                        elif a['k'] == 'const' and 'v' in a:
                            out.add('C:' + a['v'])
                    continue
                # awaits: the value comes out of a poll
                if fn.endswith('Future::poll'):
                    continue
                # any other (pure helper) call: the result derives from its arguments
                for a in t['args']:
                    if a['k'] in ('copy', 'move'):
                        out |= self._walk(ip, fr, a['pl'], seen, depth + 1)
                continue
            s = body.blocks[d[1]]['st'][d[2]]
            rv = s['rv']
            if rv['k'] in ('ref', 'rawptr', 'discr'):
                out |= self._walk(ip, fr, rv['pl'], seen, depth + 1)
            else:
                for o in rv.get('ops', []):
                    if o['k'] in ('copy', 'move'):
                        out |= self._walk(ip, fr, o['pl'], seen, depth + 1)
                    elif o['k'] == 'const' and 'v' in o:
                        out.add('C:' + o['v'])
        return out


def persistent(tok):
    """What survives the end of an API call: unsynced requests and RAM-dirty kinds."""
    return frozenset(x for x in tok if x[0] in ('U', 'RAM'))


def leak_view(tok):
    return sorted((x[1], x[2]) for x in tok if x[0] == 'U')


class FlowDomain(Domain):
    name = 'flow'
    merge = True
    callstring_k = 3

    def __init__(self, program, rep=None, faults=False, known_hang=None):
        # {lock class: set of function names that cannot return while a caller
        # holds that lock} learnt by a first pass (certain self-deadlock)
        self.known_hang = known_hang or {}
        # crash model (C04/C05): backend requests complete successfully, so
        # their `?` edges are not explored; fault model (C17): both outcomes
        self.okt = None if faults else 'ok()'
        self.p = program
        self.f = program.f
        self.cl = Classifier(program)
        self.viol = {}         # key -> dict
        self.sites = {}        # (kind, where) -> info   (effect sites seen)
        self.obl = {}          # (rule, site) -> ok?
        self.undecided = []
        self.api_exit = {}
        self.viol_sites = {}
        self._atc = {}
        self._hw = {}
        self.cut_hangs = set()
        self.hang_frames = set()
        self.hang_by_class = {}
        self.flag_invariant_used = False
        self.classes_seen = set()

    # ---------------------------------------------------------------- helpers
    def initial(self):
        return frozenset({('F', 'NOTCONSULTED')})

    def join(self, a, b):
        return a | b

    def _site(self, kind, fr, bi, extra=''):
        k = (kind, fr.where(bi))
        self.sites.setdefault(k, {'fn': short(fr.body.path), 'extra': extra})

    def _ob(self, rule, fr, bi, ok, detail, site=None):
        k = (rule, site or '%s@%s' % (short(fr.body.path), fr.where(bi)))
        prev = self.obl.get(k)
        if prev is None:
            self.obl[k] = [ok, detail]
        elif not ok and prev[0]:
            self.obl[k] = [ok, detail]

    def _viol(self, rule, key, fr, bi, msg):
        if key not in self.viol:
            self.viol[key] = {'rule': rule, 'where': fr.where(bi), 'msg': msg, 'chain': fr.chain_str()}

    def _is_helper(self, name):
        """Generic helper (own type parameters besides the backend T) or a
        wrapper that talks to the backend trait directly: the *responsible*
        function is its first caller that is neither."""
        if not hasattr(self, '_helperc'):
            self._helperc = {}
            for b in self.f.body_list:
                if b.kind not in ('AssocFn', 'Fn'):
                    continue
                sn = short(b.path)
                tps = [g['n'] for g in b.generics if g['k'] == 'type']
                generic = len([t for t in tps if t != 'T']) > 0
                wrapper = any(self._wraps(b.path, op) for op in ('write_from', 'fallocate', 'fsync', 'read_to'))
                self._helperc[sn] = self._helperc.get(sn, False) or generic or wrapper
            # functions the rule tables do not know (helpers split off by a refactor): the responsible function is
            # their caller, so that a finding keeps its identity when code moves into a new helper
            from .inline import known_functions
            kn = known_functions()
            self._known_short = {short(p) for p in kn} if kn is not None else None
        if self._known_short is not None and name not in self._known_short:
            return True
        return self._helperc.get(name, False)

    def known_owner(self, fr):
        """name of this frame's function, or of its nearest caller the rule tables know (new helpers are attributed to
        the function they were split off from)"""
        self._is_helper('')
        names = [c.split('@')[0] for c in fr.chain] or [short(fr.body.path)]
        k_ = len(names) - 1
        while k_ > 0 and self._known_short is not None and names[k_] not in self._known_short:
            k_ -= 1
        return names[k_]

    def origin_of(self, fr):
        names = [c.split('@')[0] for c in fr.chain]
        while len(names) > 1 and self._is_helper(names[-1]):
            names.pop()
        return names[-1]

    def U(self, tok):
        return {(x[1], x[2]) for x in tok if x[0] == 'U'}

    def ucls(self, tok):
        return {x[1] for x in tok if x[0] == 'U'}

    # ---------------------------------------------------------------- argument tags
    def argtags(self, ip, fr, tok, tags, term, callee_body):
        if term is None:
            return ()
        k = (fr.body.path, fr.ctx, fr.argtags, id(term))
        r = self._atc.get(k)
        if r is None:
            r = self._argtags(ip, fr, term)
            self._atc[k] = r
        return r

    def _argtags(self, ip, fr, term):
        """Tags are typed: integer arguments carry offset/constant tags, buffer
        and table arguments carry buffer/table tags (no cross-talk)."""
        out = []
        for a in term['args']:
            tag = None
            is_int = False
            if a['k'] == 'const':
                is_int = True
            elif a['k'] in ('copy', 'move'):
                ty = self._operand_ty(fr.body, a)
                is_int = ty is not None and ty.get('k') == 'prim'
            if is_int:
                o = self.cl.classify(ip, fr, a, 'off')
                if o:
                    tag = o
            else:
                b = self.cl.classify(ip, fr, a, 'buf')
                if b and not b.startswith('C:') and not b.startswith('OFF:'):
                    tag = b
                if tag is None:
                    t = self.cl.classify(ip, fr, a, 'tbl')
                    if t:
                        tag = t
            out.append(tag)
        return tuple(out)

    def _operand_ty(self, body, a):
        pl = a['pl']
        fs = [e for e in pl['p'] if e['k'] == 'field']
        if fs and fs[-1] is pl['p'][-1]:
            return self.f.types[fs[-1]['t']]
        if pl['p']:
            return None
        return body.ty(pl['l'])

    # ---------------------------------------------------------------- frames
    def on_leave(self, ip, fr, tok_before, tok_exit, exit_tag, cb, bi, term):
        if self.known_hang:
            cn = short(cb.path)
            for x in tok_before:
                c = None
                if x[0] == 'OH':
                    c = x[1]
                elif len(x) > 3 and x[0] == 'F' and x[1] == 'HOLDW':
                    c = x[2]
                if c is not None and cn in self.known_hang.get(c, ()):
                    # the callee requests a lock this task holds: it does not return
                    return None
        mine = frozenset(x for x in tok_before if x[0] in ('F', 'OH'))
        # a helper that wrote the slices whose dirty flags this frame cleared (the write phase split off into a callee)
        wrote = {x[2] for x in tok_exit if len(x) > 2 and x[0] == 'F' and x[1] == 'WROTE'}
        if wrote and any(len(x) > 2 and x[0] == 'F' and x[1] == 'CLEANPENDING' and x[2] in wrote for x in mine):
            mine = frozenset(x for x in mine if not (len(x) > 2 and x[0] == 'F' and x[1] == 'CLEANPENDING' and x[2] in wrote)) \
                | {('F', 'WROTE', c) for c in wrote}
        if wrote and any(len(x) > 2 and x[0] == 'F' and x[1] == 'POPPED' and x[2] in wrote for x in mine):
            # a helper wrote the top-table block whose index this frame took off the queue
            mine = mine | {('F', 'WROTE', c) for c in wrote if ('F', 'POPPED', c) in mine}
        out = frozenset(x for x in tok_exit if x[0] not in ('F', 'OH')) | mine
        if short(cb.path) == 'flush_meta':
            # outcome of the last whole-metadata flush in this frame (C17.6)
            out = out - {('F', 'FLUSHOK'), ('F', 'FLUSHERR')}
            out = out | {('F', 'FLUSHERR') if exit_tag == 'err' else ('F', 'FLUSHOK')}
        if not any(x[0] == 'U' for x in tok_exit) and any(x[0] == 'U' for x in tok_before):
            # a barrier completed inside the callee
            out = out - {('F', 'UNREF_HDR')}
        return out

    # ---------------------------------------------------------------- backend events
    def write_class(self, fr):
        """Class of the write issued by the trait call in this (wrapper) frame."""
        at = fr.argtags
        buf = at[2] if len(at) > 2 else None
        off = at[1] if len(at) > 1 else None
        if buf is None:
            return 'DATA'
        if buf.startswith('TBL:'):
            return buf[4:]
        if buf == 'HDR':
            return 'HDR'
        if buf == 'IOBUF':
            return 'COW'
        if buf == 'ZERO':
            return self.zero_class(off)
        return 'DATA'

    def zero_class(self, off):
        if off is None:
            return 'Z?'
        if off.startswith('OFF:'):
            c = off[4:]
            if c in SLICE or c in TOP:
                return 'ZM:' + c
            if c == 'DATA':
                return 'ZD'
            if c == 'PUNCH':
                return 'PUNCH'
        return 'Z?'

    SINGLE = {'meta::header::Qcow2Header': 'header', 'meta::l1::L1Table': 'l1table',
              'meta::refcount::RefTable': 'reftable'}

    def on_effect(self, ip, fr, bi, tok, kind, detail):
        """Extension point for derived domains: a modifying effect happens here."""
        return

    def check_needflag(self, ip, fr, bi, tok, what):
        nf = sorted(x[1] for x in tok if x[0] == 'NEEDFLAG')
        for fn in nf:
            self._viol('C18.1', 'C18.1:%s' % fn, fr, bi,
                       'metadata dirtied in %s is not followed by setting need_flush before %s: need_flush_meta() can '
                       'return false while the change exists only in RAM; path %s' % (fn, what, fr.chain_str()))
        return frozenset(x for x in tok if x[0] != 'NEEDFLAG') if nf else tok

    def on_leaf_await(self, ip, fr, tok, tags, bi, term, fut):
        if fut.kind in ('lock', 'trait_fn', 'ext') and any(x[0] == 'NEEDFLAG' for x in tok):
            tok = self.check_needflag(ip, fr, bi, tok, 'the task suspends at %s' % fr.where(bi))
        if fut.kind in ('lock', 'trait_fn', 'ext'):
            tok = tok - {('FLAGSET',)}
        if fut.kind == 'lock':
            cls = self.f.types[fut.cls]
            if fut.mode == 'mutex' and cls.get('k') == 'tuple' and not cls.get('a'):
                # the flush mutex (Mutex<()>): held until the acquiring frame returns
                tok = tok | {('FLUSHLOCK', fr.body.path)}
            if cls.get('p') == 'std::collections::HashMap':
                tok = tok - {('F', 'NOTCONSULTED')}
            c = self.SINGLE.get(cls.get('p'))
            if c is not None:
                oh = [x for x in tok if x[0] == 'OH' and x[1] == c]
                if oh or any(x[0] == 'F' and x[1] == 'HOLDW' and x[2] == c for x in tok if len(x) > 2):
                    names = [cc.split('@')[0] for cc in fr.chain]
                    for x in oh:
                        if x[2] in names:
                            i = len(names) - 1 - names[::-1].index(x[2])
                            self.hang_frames |= set(names[i + 1:])
                            self.hang_by_class.setdefault(c, set()).update(names[i + 1:])
                    # this task already holds the write guard of this single-instance
                    # lock: the request never completes (reported by C07.1); nothing
                    # after it is reachable
                    self.cut_hangs.add('%s(%s) requested at %s while held' % (c, fut.mode, fr.where(bi)))
                    return []
                if fut.mode == 'write':
                    tok = tok | {('F', 'HOLDW', c, term['dst']['l'])}
            elif fut.mode in ('write', 'read'):
                sc = self.table_in_type(fut.cls, fr.ctx)
                if sc in ('L2', 'RB'):
                    # a guard of one cached slice: no other task can change the slice while it is held
                    tok = tok | {('F', 'HOLDS', sc, term['dst']['l'])}
            return [(tok, None)]
        if fut.kind != 'trait_fn' or not fut.path.startswith('ops::Qcow2IoOps::'):
            return [(tok, None)]
        op = fut.path.split('::')[-1]
        origin = self.origin_of(fr)
        if op == 'fsync':
            self._site('fsync', fr, bi)
            tok = frozenset(x for x in tok if x[0] != 'U' and not (x[0] == 'UNREF' and x[2] == 'UNSYNCED'))
            return [(tok, self.okt)]
        if op == 'read_to':
            self._site('read', fr, bi)
            return [(tok, self.okt)]
        if op == 'fallocate':
            cls = self.zero_class(fr.argtags[1] if len(fr.argtags) > 1 else None)
            self._site('fallocate', fr, bi, cls)
            self.classes_seen.add(cls)
            self.on_effect(ip, fr, bi, tok, 'Z', cls)
            if cls == 'Z?':
                self.undecided.append('%s: zero/punch request of unknown class (%s)' % (fr.where(bi), fr.chain_str()))
            tok = tok | {('U', cls, origin)}
            if self.okt is None:
                # fault model: a failed zero/punch must be replaced by a zero write
                # of the same range before the wrapper reports success
                return [(tok, 'ok()'), (tok | {('F', 'FALLOCFAIL')}, 'err')]
            return [(tok, self.okt)]
        if op == 'write_from':
            cls = self.write_class(fr)
            self._site('write', fr, bi, cls)
            self.classes_seen.add(cls)
            self.on_effect(ip, fr, bi, tok, 'W', cls)
            self.check_write(ip, fr, bi, tok, cls, origin)
            ntok = set(tok)
            ntok.add(('U', cls, origin))
            base_cls = cls.split(':')[0]
            ntok.discard(('VICTIMS', base_cls))
            if cls == 'L2':
                # an unmapping of this operation has now been handed to the backend
                for x in list(ntok):
                    if x[0] == 'UNREF' and x[1] == 'L2' and x[2] == 'RAM':
                        ntok.discard(x)
                        ntok.add(('UNREF', 'L2', 'UNSYNCED'))
            if self.okt is None:
                ok_t = frozenset(ntok)
                err_t = frozenset(ntok) | ({('HDRFAIL',)} if cls == 'HDR' else frozenset())
                return [(ok_t, 'ok()'), (err_t, 'err')]
            return [(frozenset(ntok), self.okt)]
        return [(tok, None)]

    def check_write(self, ip, fr, bi, tok, cls, origin):
        U = self.U(tok)
        ram = {x[1] for x in tok if x[0] == 'RAM'}
        chain = fr.chain_str()
        # the frame that decided to write (first non-wrapper frame)
        issuer = self.origin_of(fr)

        def need_absent(rule, bad_cls, why):
            bad = sorted({(c, o) for (c, o) in U if c in bad_cls})
            site_ok = not bad
            self._ob(rule, fr, bi, site_ok, 'W(%s) by %s; unsynced: %s' % (cls, issuer, [b[0] for b in bad]),
                     site='W(%s)@%s' % (cls, issuer))
            for (c, o) in bad:
                key = '%s:U(%s)@%s' % (rule, c, o)
                self.viol_sites.setdefault(key, set()).add('W(%s)@%s' % (cls, issuer))
                self._viol(rule, key, fr, bi,
                           'W(%s) issued by %s while a request of class %s (issued by %s) is not yet synced: %s; '
                           'path %s' % (cls, issuer, c, o, why, chain))

        if cls.endswith(':P'):
            return
        if cls == 'RT':
            need_absent('C04.O1', ('RB', 'ZM:RB'),
                        'a crash can leave a reftable entry pointing at a refblock whose content is not on disk')
        if cls == 'L1':
            need_absent('C04.O2', ('L2', 'ZM:L2'),
                        'a crash can leave a reachable L1 entry pointing at an uninitialised L2 table')
        if cls in ('L2', 'L1'):
            need_absent('C04.O3', ('RB', 'RT', 'ZM:RB'),
                        'a crash can leave a reachable mapping whose refcount (or the reftable entry leading to it) '
                        'is not on disk: under-count')
            ok = 'RC' not in ram and 'RT' not in ram
            self._ob('C04.O3r', fr, bi, ok, 'W(%s) by %s; refcount changes only in RAM: %s' % (cls, issuer, not ok),
                     site='W(%s)@%s' % (cls, issuer))
            if not ok:
                self._viol('C04.O3r', 'C04.O3r:W(%s)@%s' % (cls, issuer), fr, bi,
                           'W(%s) issued by %s while refcount increments made since the last refcount sweep exist '
                           'only in RAM: the mapping can become durable before its refcount; path %s' % (
                               cls, issuer, chain))
            need_absent('C04.O7', ('COW',),
                        'the mapping of a copy-on-write target can become durable before the merged data')

    # ---------------------------------------------------------------- creation-time rules
    def _writes_header(self, fn):
        if not hasattr(self, '_whc'):
            self._whc = {}
        if fn not in self._whc:
            res = False
            for co in self.f.coroutines_of(fn):
                b = self.f.body(co)
                for bi, t in b.calls():
                    if t.get('fn', '').endswith('Qcow2Header::serialize_to_buf'):
                        res = True
            self._whc[fn] = res
        return self._whc[fn]

    def _reaches_decrement(self, fn, _seen=None):
        if not hasattr(self, '_rdc'):
            self._rdc = {}
        if fn in self._rdc:
            return self._rdc[fn]
        res = False
        for co in self.f.coroutines_of(fn):
            b = self.f.body(co)
            for bi, t in b.calls():
                if t.get('fn', '').endswith('RefBlock::decrement'):
                    res = True
        self._rdc[fn] = res
        return res

    def on_create(self, ip, fr, tok, tags, bi, term, fn):
        at = self.argtags(ip, fr, tok, tags, term, None)
        sfn = short(fn)
        me = short(fr.body.path)
        if self._writes_header(fn) and ('F', 'SWITCH') in tok:
            # O5: the header is about to be switched to a relocated table
            U = self.U(tok)
            # the relocated table's own blocks: writes of tables still private to
            # this task, and zeroing issued by this function around them
            bad = sorted({(c, o) for (c, o) in U if c.endswith(':P') or (c.startswith('ZM:') and o == me)})
            self._ob('C04.O5', fr, bi, not bad, 'header switch in %s; unsynced: %s' % (me, sorted({b[0] for b in bad})))
            if bad:
                key = 'C04.O5:%s' % me
                self._viol('C04.O5', key, fr, bi,
                           '%s switches the header to a relocated table while requests of class %s (issued by %s) '
                           'are not yet synced: a crash can leave the header pointing at a table that is not on '
                           'disk; path %s' % (me, sorted({b[0] for b in bad}), sorted({b[1] for b in bad}),
                                              fr.chain_str()))
            tok = tok | {('F', 'UNREF_HDR')}

        # creation of a zeroing request for a metadata cluster
        is_falloc = self._wraps(fn, 'fallocate')
        if is_falloc and len(at) > 1 and at[1] and self.zero_class(at[1]).startswith('ZM:'):
            return tok | {('F', 'ZMPENDING')}
        # creation of a slice write from a cached table: the writer must have
        # consulted the new-cluster map in this activation (zero-once protocol)
        if self._writes_table_arg(fn):
            tcls = None
            for a_i, a in enumerate(term['args']):
                if a['k'] in ('copy', 'move'):
                    tid = fr.body.locals[a['pl']['l']]
                    c = self._table_of_operand(fr, a)
                    if c:
                        tcls = (c, at[a_i] if a_i < len(at) else None)
                        break
            if tcls and tcls[0] in SLICE and len(term['args']) >= 4:
                start = self.cl.classify(ip, fr, term['args'][2], 'const')
                ln = self.cl.classify(ip, fr, term['args'][3], 'len')
                whole = start == 'C:0' and ln == 'LEN:FULL'
                self._ob('C05.4', fr, bi, whole, 'slice write of %s created in %s: start %s, length %s' % (
                    tcls[0], short(fr.body.path), start, ln), site='slicewrite@%s' % short(fr.body.path))
                if not whole:
                    self._viol('C05.4', 'C05.4:%s:W(%s)' % (short(fr.body.path), tcls[0]), fr, bi,
                               '%s writes only part of a cached %s slice (start %s, length %s) while the dirty flag '
                               'describes the whole slice: other changes in the slice are marked clean without being '
                               'written; path %s' % (short(fr.body.path), tcls[0], start, ln, fr.chain_str()))
            if tcls and tcls[0] in SLICE:
                private = tcls[1] == 'LOCALTBL'
                ok = private or ('F', 'NOTCONSULTED') not in tok
                self._ob('C02.5', fr, bi, ok, 'slice write of %s created in %s (%s)' % (
                    tcls[0], short(fr.body.path), 'private table' if private else 'cached table'))
                if not ok:
                    self._viol('C02.5', 'C02.5:%s:W(%s)' % (self.known_owner(fr), tcls[0]), fr, bi,
                               '%s writes a cached %s slice without resolving whether its host cluster is still in '
                               'the new-cluster set: a later flush of a sibling slice zeroes the whole cluster and '
                               'destroys this (then clean) slice; path %s' % (
                                   short(fr.body.path), tcls[0], fr.chain_str()))
        return tok

    def _wraps(self, fn, op):
        """fn (async) directly awaits the trait method `op` on the backend."""
        key = (fn, op)
        if not hasattr(self, '_wrapc'):
            self._wrapc = {}
        if key not in self._wrapc:
            res = False
            for co in self.f.coroutines_of(fn):
                b = self.f.body(co)
                for bi, t in b.calls():
                    if t.get('fn', '').endswith('Future::poll'):
                        for fu in self.p.futs(t['a'][0], ()):
                            if fu.kind == 'trait_fn' and fu.path == 'ops::Qcow2IoOps::' + op:
                                res = True
            self._wrapc[key] = res
        return self._wrapc[key]

    def _takes_victims(self, body):
        """The slice flusher: takes a Vec of cache entries and polls table writes."""
        key = body.path
        if not hasattr(self, '_tvc'):
            self._tvc = {}
        if key not in self._tvc:
            res = False
            fnp = body.parent if body.is_coroutine else body.path
            fb = self.f.body(fnp) if fnp else None
            if fb is not None:
                for i in range(1, fb.argc + 1):
                    has_vec = self.f.type_contains(fb.locals[i], lambda x: x['k'] == 'adt' and x['p'] == 'std::vec::Vec')
                    has_ent = self.f.type_contains(fb.locals[i], lambda x: x['k'] == 'adt' and x['p'].endswith('AsyncLruCacheEntryInner'))
                    if has_vec and has_ent:
                        res = True
            if res:
                res = self._polls_table_writer(body, 2)
            self._tvc[key] = res
        return self._tvc[key]

    def _polls_table_writer(self, body, depth):
        """the body awaits a write of a table argument, directly or in an async helper it awaits"""
        for _bi, t in body.calls():
            if not t.get('fn', '').endswith('Future::poll'):
                continue
            for fu in self.p.futs(t['a'][0], ()):
                if fu.kind != 'async_fn':
                    continue
                if self._writes_table_arg(fu.path):
                    return True
                if depth > 0:
                    for co in self.f.coroutines_of(fu.path):
                        cb = self.f.body(co)
                        if cb is not None and cb.path != body.path and self._polls_table_writer(cb, depth - 1):
                            return True
        return False

    def _table_writer_future(self, fn):
        """awaiting a future of fn writes a table argument: directly, or in an async helper it awaits"""
        if self._writes_table_arg(fn):
            return True
        if not hasattr(self, '_twf'):
            self._twf = {}
        if fn not in self._twf:
            self._twf[fn] = False
            self._twf[fn] = any(self._polls_table_writer(self.f.body(co), 1) for co in self.f.coroutines_of(fn)
                                if self.f.body(co) is not None)
        return self._twf[fn]

    def _writes_table_arg(self, fn):
        """fn builds a write buffer from Table::as_ptr of one of its parameters."""
        if not hasattr(self, '_wtc'):
            self._wtc = {}
        if fn not in self._wtc:
            res = False
            for co in self.f.coroutines_of(fn):
                b = self.f.body(co)
                for bi, t in b.calls():
                    if t.get('trait') == 'meta::table::Table' and t.get('name') == 'as_ptr':
                        res = True
            self._wtc[fn] = res
        return self._wtc[fn]

    def _table_of_operand(self, fr, a):
        tid = fr.body.locals[a['pl']['l']]
        for _i, t in self.f.walk_type(self.p.subst(tid, fr.ctx)):
            if t['k'] == 'adt' and t['p'] in TABLE_CLS:
                return TABLE_CLS[t['p']]
            if t['k'] == 'param':
                v = self.p.subst(_i, fr.ctx)
                c = table_cls(self.f, v)
                if c:
                    return c
        return None

    def on_await_begin(self, ip, fr, tok, tags, bi, term, futs):
        names = [fu.path for fu in futs if fu.kind == 'async_fn']
        for fu in futs:
            if fu.kind == 'async_fn' and self._writes_table_arg(fu.path):
                for (sb, st_) in ip.creation_sites(fr.body, fu.path):
                    sfr = ip.site_frame(fr, st_)
                    for a in st_['args']:
                        if a['k'] in ('copy', 'move'):
                            c = self._table_of_operand(sfr, a)
                            if c:
                                tok = frozenset(x for x in tok if x != ('F', 'CLEANPENDING', c)) | {('F', 'WROTE', c)}
                                break
            if fu.kind == 'async_fn' and ('F', 'FALLOCFAIL') in tok and self._wraps(fu.path, 'write_from'):
                one = ip.creation_of_poll(fr, term, fu.path)
                if one is not None:
                    at = self.argtags(ip, fr, tok, tags, one[1], None)
                    if len(at) > 2 and at[2] == 'ZERO':
                        tok = tok - {('F', 'FALLOCFAIL')}
        # polling the zeroing futures completes them
        if ('F', 'ZMPENDING') in tok:
            def _tbl_fut(fu):
                # a future that writes a table it was handed (directly, or through an async helper)
                if fu.kind != 'async_fn' or not self._table_writer_future(fu.path):
                    return False
                if self._writes_table_arg(fu.path):
                    return True
                for (_sb, st_) in ip.creation_sites(fr.body, fu.path):
                    sfr = ip.site_frame(fr, st_)
                    if any(a['k'] in ('copy', 'move') and self._table_of_operand(sfr, a) for a in st_['args'][1:]):
                        return True
                return False
            fut_tbl = [fu for fu in futs if _tbl_fut(fu)]
            if any(self._wraps(n, 'fallocate') for n in names) and not fut_tbl:
                return tok - {('F', 'ZMPENDING')}
            if fut_tbl:
                concurrent = any(self._wraps(n, 'fallocate') for n in names)
                # grow_reftable joins the write of its private refblock with the
                # zeroing of the *rest* of the slice range: disjoint ranges.  Only the
                # slice-sized block is exempt: a top table written in the same group
                # lies behind it, inside the range being zeroed
                private = bool(fut_tbl)
                for fu_ in fut_tbl:
                    one = False
                    for (sb, st_) in ip.creation_sites(fr.body, fu_.path):
                        sfr = ip.site_frame(fr, st_)
                        at = self.argtags(ip, sfr, tok, tags if sfr is fr else {}, st_, None)
                        cs = [self._table_of_operand(sfr, a) for a in st_['args'][1:] if a['k'] in ('copy', 'move')]
                        cs = [c for c in cs if c]
                        if 'LOCALTBL' in at and cs and cs[0] in SLICE:
                            one = True
                    private = private and one
                ok = private
                self._ob('C04.O6', fr, bi, ok, 'slice write polled while a zeroing request created earlier in %s '
                                               'has not completed' % short(fr.body.path))
                if not ok:
                    self._viol('C04.O6', 'C04.O6:%s' % short(fr.body.path), fr, bi,
                               'in %s a cached slice write is polled before the zeroing of its new cluster has '
                               'completed: the zeroing can land after the write and destroy it; path %s' % (
                                   short(fr.body.path), fr.chain_str()))
                if concurrent:
                    # the zeroing requests are polled in the same group: complete when the await returns
                    return tok - {('F', 'ZMPENDING')}
        return tok

    # ---------------------------------------------------------------- RAM events
    def intercept(self, ip, fr, tok, tags, bi, term, callee):
        sc = short(callee)
        role = self.setter_role(callee)
        if role is not None and role[0] in ('need_flush', 'dirty') and role[1] < len(term['args']):
            val = tag_of_operand(term['args'][role[1]], tags)
            if val is None and term['args'][role[1]]['k'] == 'const' and 'v' in term['args'][role[1]]:
                val = 'T' if term['args'][role[1]]['v'] != '0' else 'F'
            if val is not None and val.startswith('int:'):
                val = 'T' if val != 'int:0' else 'F'
            cls = self.entry_cls(fr, term) if role[0] == 'dirty' else None
            return [(self.store_event(ip, fr, tok, bi, role[0], val, cls), None)]
        if callee.endswith('::shrink') and 'AsyncLruCache' in callee:
            ok = ('F', 'FLUSHOK') in tok
            me = short(fr.body.path)
            self._ob('C17.6', fr, bi, ok, 'cache shrunk in %s' % me, site='shrink@%s' % me)
            if not ok:
                self._viol('C17.6', 'C17.6:%s' % self.known_owner(fr), fr, bi,
                           '%s drops the clean unused slices of a cache %s: the slice flusher clears a dirty flag before the '
                           'write, so after a failed flush a slice whose write failed is clean in RAM; dropping it loses the '
                           'only copy of the change and a retried flush_meta() cannot write it; path %s' % (
                               me, 'after flush_meta() returned an error' if ('F', 'FLUSHERR') in tok
                               else 'without a completed flush_meta() before it', fr.chain_str()))
            return None
        if callee.endswith('::commit_wmap') and 'AsyncLruCache' in callee:
            cls = self.entry_cls(fr, term)
            return [(tok | {('VICTIMS', cls)}, 'some()'), (tok, 'none')]
        # top-table dirty queue
        if term.get('trait') == 'meta::table::Table' and term.get('name') == 'pop_dirty_blk_idx':
            c = table_cls(self.f, self.p.subst(term['a'][0], fr.ctx))
            if c in TOP:
                clean = frozenset(x for x in tok if x != ('RAM', c) and x != ('NEEDSWEEP', c))
                recv = self.cl.classify(ip, fr, term['args'][0], 'tbl')
                if recv == 'LOCALTBL':
                    # a table still private to this task is thrown away when the operation fails
                    return [(tok, 'some()'), (clean, 'none')]
                return [(tok | {('F', 'POPPED', c)}, 'some()'), (clean, 'none')]
            return [(tok, 'none')]
        if term.get('trait') == 'meta::table::Table' and term.get('name') == 'set_dirty':
            c = table_cls(self.f, self.p.subst(term['a'][0], fr.ctx))
            if c in TOP:
                recv = self.cl.classify(ip, fr, term['args'][0], 'tbl')
                if recv == 'LOCALTBL':
                    # a table still private to this task: published (and flushed) by the header switch
                    return [(tok, None)]
                self._site('topdirty', fr, bi, c)
                self.on_effect(ip, fr, bi, tok, 'DIRTY', c)
                if ('FLAGSET',) in tok:
                    return [(tok | {('RAM', c)}, None)]
                return [(tok | {('RAM', c), ('NEEDFLAG', short(fr.body.path))}, None)]
            return [(tok, None)]
        if callee.endswith('::get_dirty_entries') and 'AsyncLruCache' in callee:
            c = None
            for _i, t in self.f.walk_type(self.p.subst(fr.body.locals[term['args'][0]['pl']['l']], fr.ctx)):
                if t['k'] == 'adt' and t['p'] in TABLE_CLS:
                    c = TABLE_CLS[t['p']]
                if t['k'] == 'param':
                    cc = table_cls(self.f, self.p.subst(_i, fr.ctx))
                    if cc:
                        c = cc
            a1 = self.cl.classify(ip, fr, term['args'][1], 'const')
            a2 = self.cl.classify(ip, fr, term['args'][2], 'const')
            if not (a1 == 'C:0' and a2 == 'C:18446744073709551615'):
                # the bounds travel in a value chosen per branch: constants known on this path (interpreter tags)
                t1, t2 = tag_of_operand(term['args'][1], tags), tag_of_operand(term['args'][2], tags)
                if t1 is not None and t1.startswith('int:') and t2 is not None and t2.startswith('int:'):
                    a1, a2 = 'C:' + t1[4:], 'C:' + t2[4:]
            full = a1 == 'C:0' and a2 == 'C:18446744073709551615'
            ntok = tok | {('F', 'SWEPT:' + (c or '?'))}
            self._site('sweep', fr, bi, '%s %s' % (c, 'full' if full else 'range'))
            if full and c in SLICE:
                if not hasattr(self, 'full_sweeps'):
                    self.full_sweeps = set()
                self.full_sweeps.add(c)
                kind = 'RC' if c == 'RB' else 'L2'
                # every dirty slice is in the returned list and will be written
                # by the caller; an empty list means nothing was dirty
                ntok = frozenset(x for x in ntok if x != ('RAM', kind) and x != ('NEEDSWEEP', kind)) | {('F', 'FULLSWEEP:' + c)}
            return [(frozenset(ntok), None)]
        if callee.endswith('L1Table::clone_and_grow'):
            # ASSUMED DEAD (one named symbol): the in-RAM L1 table is sized for the
            # whole virtual disk in Qcow2Dev::new and write_at rejects offsets
            # beyond the virtual size, so relocation of the L1 table is never
            # reached; this is a numeric invariant the engine does not decide
            self.assumed_dead = True
            return []
        if callee.endswith('RefBlock::increment') or callee.endswith('RefBlock::alloc_range') \
                or callee.endswith('RefBlock::decrement'):
            recv = term['args'][0]
            tg = self.cl.classify(ip, fr, recv, 'tbl')
            if tg == 'LOCALTBL':
                return [(tok, None)]
            ntok = tok | {('RAM', 'RC'), ('MUT', 'RB')}
            self.on_effect(ip, fr, bi, tok, 'REFCOUNT', short(callee))
            if callee.endswith('decrement'):
                self.check_free(ip, fr, bi, tok)
            return [(ntok, 'ok()'), (tok, 'err')]
        if callee.endswith('L2Table::map_cluster'):
            self._site('map', fr, bi)
            self.on_effect(ip, fr, bi, tok, 'MAP', 'L2')
            # replacing an allocation is an implicit unreference of the old clusters
            return [(tok | {('RAM', 'L2'), ('MUT', 'L2'), ('UNREF', 'L2', 'RAM'), ('F', 'UNMAPPED', 'L2')}, 'some()'),
                    (tok | {('RAM', 'L2'), ('MUT', 'L2')}, 'none')]
        if term.get('trait') == 'meta::table::Table' and term.get('name') == 'set':
            c = table_cls(self.f, self.p.subst(term['a'][0], fr.ctx))
            recv = self.cl.classify(ip, fr, term['args'][0], 'tbl')
            if recv == 'LOCALTBL':
                return [(tok, None)]
            if c == 'L2':
                self._site('unmap', fr, bi)
                self.on_effect(ip, fr, bi, tok, 'MAP', 'L2')
                return [(tok | {('RAM', 'L2'), ('MUT', 'L2'), ('UNREF', 'L2', 'RAM'), ('F', 'UNMAPPED', 'L2')}, None)]
            return None
        if callee.endswith('Qcow2Header::set_reftable') or callee.endswith('Qcow2Header::set_l1_table'):
            off = self.cl.classify(ip, fr, term['args'][1], 'off')
            src = self._hdr_self_derived(ip, fr, term['args'][1]) or off == 'OFF:HDRSELF'
            if not src:
                return [(tok | {('F', 'SWITCH')}, 'ok()'), (tok, 'err')]
            return [(tok, 'ok()'), (tok, 'err')]
        return None

    def _hdr_self_derived(self, ip, fr, operand):
        """The offset handed to the header setter comes from the header's own getter."""
        if operand['k'] not in ('copy', 'move'):
            return False
        body = fr.body
        seen = set()
        work = [operand['pl']['l']]
        # closure captures: look at what the closure captured (by name is not
        # available): be conservative, a captured value is "old" (rollback)
        if body.kind == 'Closure' and not body.is_coroutine:
            return True
        while work:
            l = work.pop()
            if l in seen:
                continue
            seen.add(l)
            for d in self.p.defs(body).get(l, []):
                if d[0] == 'call':
                    t = body.blocks[d[1]]['term']
                    fn = t.get('fn', '')
                    if fn.endswith('Qcow2Header::l1_table_offset') or fn.endswith('Qcow2Header::reftable_offset'):
                        return True
                    if fn.endswith('Future::poll'):
                        # result of an awaited block/async fn: follow nothing
                        continue
                    for a in t['args']:
                        if a['k'] in ('copy', 'move'):
                            work.append(a['pl']['l'])
                else:
                    rv = body.blocks[d[1]]['st'][d[2]]['rv']
                    if rv['k'] in ('ref', 'rawptr', 'discr'):
                        work.append(rv['pl']['l'])
                    for o in rv.get('ops', []):
                        if o['k'] in ('copy', 'move'):
                            work.append(o['pl']['l'])
        # parameters: inherited tag
        return False

    def check_free(self, ip, fr, bi, tok):
        """O4: a refcount release must not become durable before the removal
        of the reference it belongs to."""
        pend = sorted({(x[1], 'pending') for x in tok if x[0] == 'UNREF'})
        for x in tok:
            if len(x) > 2 and x[0] == 'F' and x[1] == 'FREE_AFTER_SWITCH':
                self._ob('C04.O4', fr, bi, False, 'old table released by %s after an unsynced header switch' % x[2])
                self._viol('C04.O4', 'C04.O4:%s:UNREF(HDR)' % x[2], fr, bi,
                           '%s releases the clusters of the old table while the header write that stops '
                           'referencing them is not synced: a crash can leave the header pointing at clusters with '
                           'refcount 0; path %s' % (x[2], fr.chain_str()))
        names = [c.split('@')[0] for c in fr.chain]
        # the function that asked for the release (caller of the decrement loop)
        freer = names[-2] if len(names) >= 2 else names[-1]
        # a helper the rule tables do not know (split off by a refactor): the requester is its caller
        k_ = len(names) - 2
        while k_ > 0 and self._is_helper(names[k_]) and self._known_short is not None and names[k_] not in self._known_short:
            k_ -= 1
            freer = names[k_]
        if ('F', 'NOTALLOC') not in tok and ('F', 'INFREE') in tok:
            self._ob('C04.O4', fr, bi, True, 'release requested by %s of clusters allocated in this section' % freer,
                     site='release@%s(alloc-derived)' % freer)
            return
        # a cluster taken from a live mapping entry (provenance: L2Entry::allocation) may be released only after
        # that entry was changed at all
        offtag = fr.argtags[1] if len(fr.argtags) > 1 else None
        if offtag is not None and 'OFF:PUNCH' in offtag and ('F', 'UNMAPPED', 'L2') not in tok and not any(x[0] == 'UNREF' for x in tok):
            self._ob('C04.O4', fr, bi, False, 'release requested by %s of a cluster that is still mapped' % freer, site='release@%s(live)' % freer)
            self._viol('C04.O4', 'C04.O4:%s:LIVE(L2)' % freer, fr, bi,
                       'refcount release requested by %s for a cluster taken from an L2 entry that has not been changed yet: if a '
                       'later step fails (or after a crash) the entry still maps a cluster whose refcount is gone, and the '
                       'allocator hands it out again; path %s' % (freer, fr.chain_str()))
        ok = not pend
        self._ob('C04.O4', fr, bi, ok, 'release requested by %s; pending unreference: %s' % (freer, pend),
                 site='release@%s' % freer)
        for (k, st) in pend:
            self._viol('C04.O4', 'C04.O4:%s:UNREF(%s)' % (freer, k), fr, bi,
                       'refcount release requested by %s while the removal of the %s reference is only in RAM or '
                       'written but not synced: the flusher writes refcount blocks before mapping slices, so a crash '
                       'can leave the reference durable and the refcount released (under-count); path %s' % (
                           freer, k, fr.chain_str()))

    # ---------------------------------------------------------------- atomic flag stores
    def _stored_field(self, body, term):
        """Name of the struct field whose AtomicBool is stored to, or None."""
        a0 = term['args'][0]
        if a0['k'] not in ('copy', 'move'):
            return None
        pl = a0['pl']
        fs = [e['n'] for e in pl['p'] if e['k'] == 'field']
        if fs:
            return fs[-1]
        for d in self.p.defs(body).get(pl['l'], []):
            if d[0] == 'st':
                rv = body.blocks[d[1]]['st'][d[2]]['rv']
                if rv['k'] == 'ref':
                    fs = [e['n'] for e in rv['pl']['p'] if e['k'] == 'field']
                    if fs:
                        return fs[-1]
        return None

    def setter_role(self, callee):
        """(field, value parameter index) if `callee` only stores one of its
        parameters into an AtomicBool field of self."""
        if not hasattr(self, '_setc'):
            self._setc = {}
        if callee not in self._setc:
            res = None
            b = self.f.body(callee)
            # a setter may also log the transition (`swap` returns the old value for the trace line): it stays a setter as
            # long as its only call into the crate-visible state is the one store / swap of its parameter
            plain = b is not None and not b.is_coroutine and len(b.blocks) <= 60 and \
                sum(1 for _bi, t in b.calls() if t.get('fn', '').endswith(('Atomic::<bool>::store', 'Atomic::<bool>::swap'))) == 1 and \
                not any(self.f.body(t.get('fn') or '') is not None for _bi, t in b.calls())
            if plain:
                for bi, t in b.calls():
                    if t.get('fn', '').endswith(('Atomic::<bool>::store', 'Atomic::<bool>::swap')):
                        fld = self._stored_field(b, t)
                        v = t['args'][1]
                        if fld and v['k'] in ('copy', 'move'):
                            roots = self.p.place_origins(b, v['pl'])
                            for r in roots:
                                if r[0] == 'arg':
                                    res = (fld, r[1] - 1)
            self._setc[callee] = res
        return self._setc[callee]

    def entry_cls(self, fr, term):
        """Table class of the cache entry a method is invoked on."""
        a0 = term['args'][0]
        if a0['k'] not in ('copy', 'move'):
            return None
        return self.table_in_type(fr.body.locals[a0['pl']['l']], fr.ctx)

    def table_in_type(self, tid, ctx, _seen=None):
        if _seen is None:
            _seen = set()
        tid = self.p.subst(tid, ctx)
        if tid is None or tid < 0 or tid in _seen:
            return None
        _seen.add(tid)
        t = self.f.types[tid]
        if t['k'] == 'adt' and t['p'] in TABLE_CLS:
            return TABLE_CLS[t['p']]
        for k in ('a', 'u'):
            for x in t.get(k, []):
                r = self.table_in_type(x, ctx, _seen)
                if r:
                    return r
        if isinstance(t.get('t'), int):
            return self.table_in_type(t['t'], ctx, _seen)
        return None

    def store_event(self, ip, fr, tok, bi, field, val, cls):
        me = short(fr.body.path)
        if field == 'need_flush':
            self._site('flag', fr, bi, str(val))
            if val == 'T':
                # the flag is up from here to the next suspension: a dirtying event right after it is covered too
                return frozenset(x for x in tok if x[0] not in ('NEEDFLAG', 'NEEDSWEEP', 'FLAGDOWN')) | {('FLAGSET',)}
            if val == 'F':
                # Protocol: the flag may be cleared at any time provided that, on every path to an Ok return of the
                # clearing function, a complete sweep of every kind of metadata is *started after* the clear (what is
                # dirtied concurrently after the clear raises the flag again; what was dirty before is collected by
                # the sweeps), and that every error return raises the flag again.
                tok = frozenset(x for x in tok if x != ('FLAGSET',) and x[0] not in ('NEEDSWEEP', 'FLAGDOWN'))
                self.flag_clears = getattr(self, 'flag_clears', set()) | {(me, fr.where(bi))}
                return tok | {('NEEDSWEEP', k) for k in ('L1', 'L2', 'RC', 'RT')} | {('FLAGDOWN', fr.body.path)}
            self.undecided.append('%s: need_flush stored with a value the engine cannot decide' % fr.where(bi))
            return frozenset(x for x in tok if x[0] != 'NEEDFLAG')
        if field == 'dirty':
            kind = {'RB': 'RB', 'L2': 'L2'}.get(cls)
            self._site('dirtyflag', fr, bi, '%s %s' % (cls, val))
            if val == 'T':
                self.on_effect(ip, fr, bi, tok, 'DIRTY', cls)
                out = frozenset(x for x in tok if not (x[0] == 'MUT' and x[1] == kind)
                                and not (x[0] == 'F' and len(x) > 2 and x[1] in ('CLEANED', 'CLEANPENDING') and x[2] == cls))
                ram = 'RC' if cls == 'RB' else 'L2'
                if ('FLAGSET',) in tok:
                    return out | {('RAM', ram)}
                return out | {('NEEDFLAG', me), ('RAM', ram)}
            if val == 'F':
                out = set(tok)
                if ('F', 'WROTE', cls) in tok:
                    # cleared after the write: only safe while this task excludes every mutation of the slice (its write
                    # guard); otherwise a change made between the write and the clearing is marked clean unwritten
                    held = ('F', 'RELEASED', cls) not in tok
                    self._ob('C02.7', fr, bi, held, 'dirty flag of a %s slice cleared after its write in %s' % (cls, me),
                             site='lateclear@%s:%s' % (me, cls))
                    if not held:
                        self._viol('C02.7', 'C02.7:%s:%s' % (self.known_owner(fr), cls), fr, bi,
                                   '%s clears the dirty flag of a cached %s slice after the slice was written and after the '
                                   'guard that kept the slice unchanged was released: a change made to the slice between the '
                                   'release and the clearing (by a task that ran meanwhile) is marked clean and never flushed; '
                                   'path %s' % (me, cls, fr.chain_str()))
                if ('F', 'WROTE', cls) not in tok:
                    # cleared before (or without) the write: must be written on
                    # every path, and set again if the write fails
                    out.add(('F', 'CLEANPENDING', cls))
                    out.add(('F', 'CLEANED', cls))
                return frozenset(out)
            self.undecided.append('%s: dirty flag stored with a value the engine cannot decide' % fr.where(bi))
        return tok

    def on_return(self, ip, fr, tok, tags, bi):
        me = short(fr.body.path)
        rt = head(tags.get(0))
        if ('FLUSHLOCK', fr.body.path) in tok:
            tok = tok - {('FLUSHLOCK', fr.body.path)}
        if ('FLAGDOWN', fr.body.path) in tok:
            need = sorted(x[1] for x in tok if x[0] == 'NEEDSWEEP')
            if rt == 'ok' or (rt is None and not fr.body.is_coroutine):
                self._ob('C18.2', fr, bi, not need, 'need_flush cleared in %s; kinds not swept after the clear on this Ok path: %s' % (me, need),
                         site='clear@%s:ok' % me)
                if need:
                    self._viol('C18.2', 'C18.2:%s' % me, fr, bi,
                               '%s clears need_flush and returns Ok on a path on which no complete sweep of %s is started after the '
                               'clear: metadata of that kind dirtied (by another task) between the last collection of dirty entries '
                               'and the clear is left only in RAM with the flag cleared; path %s' % (me, need, fr.chain_str()))
            elif rt == 'err':
                self._ob('C18.2', fr, bi, False, 'need_flush cleared in %s and an error return does not raise it again' % me,
                         site='clear@%s:err' % me)
                self._viol('C18.2', 'C18.2:%s:err' % me, fr, bi,
                           '%s clears need_flush and returns an error without raising it again: the metadata it failed to '
                           'write is dirty only in RAM with the flag cleared; path %s' % (me, fr.chain_str()))
            tok = frozenset(x for x in tok if x[0] not in ('NEEDSWEEP', 'FLAGDOWN'))
        for x in tok:
            if x[0] != 'F' or len(x) < 2:
                continue
            if x[1] == 'CLEANPENDING':
                self._ob('C02.4', fr, bi, False, '%s clears the dirty flag of a %s slice and returns without writing it' % (me, x[2]),
                         site='clean@%s' % me)
                self._viol('C02.4', 'C02.4:%s:%s' % (me, x[2]), fr, bi,
                           '%s clears the dirty flag of a cached %s slice on a path on which the slice is not written '
                           'by this function: the change is never flushed; path %s' % (me, x[2], fr.chain_str()))
            elif x[1] == 'CLEANED' and rt in ('err', None) and self.okt is None:
                self._viol('C17.2', 'C17.2:%s:slice' % me, fr, bi,
                           '%s cleared the dirty flag of a cached %s slice and returns an error without setting it '
                           'again: after a failed write the slice is clean in RAM, so a retried flush_meta() never '
                           'writes it; path %s' % (me, x[2], fr.chain_str()))
            elif x[1] == 'POPPED' and rt in ('err', None) and self.okt is None:
                self._viol('C17.2', 'C17.2:%s:top' % me, fr, bi,
                           '%s popped a dirty block index of the %s table and returns an error without queueing it '
                           'again: a retried flush_meta() never writes that block; path %s' % (me, x[2], fr.chain_str()))
            elif x[1] == 'POPPED' and rt == 'ok':
                wrote = ('F', 'WROTE', x[2]) in tok
                self._ob('C02.8', fr, bi, wrote, '%s took a dirty block index of the %s table off the queue and returns Ok' % (me, x[2]),
                         site='popped@%s:%s' % (me, x[2]))
                if not wrote:
                    self._viol('C02.8', 'C02.8:%s:%s' % (self.known_owner(fr), x[2]), fr, bi,
                               '%s takes a dirty block index of the %s table off the queue and returns Ok on a path on which '
                               'the block is not written: the flush reports success and the block (the pointers to new '
                               'tables) never reaches the file; path %s' % (me, x[2], fr.chain_str()))
            elif x[1] == 'FALLOCFAIL' and rt == 'ok':
                self._viol('C17.3', 'C17.3:%s:fallback' % me, fr, bi,
                           '%s returns Ok after a failed zero/punch request without writing zeros over the range; '
                           'path %s' % (me, fr.chain_str()))
        if ('HDRFAIL',) in tok and fr.body.is_coroutine and self._writes_header(fr.body.parent or ''):
            self._viol('C17.3', 'C17.3:%s:rollback' % me, fr, bi,
                       '%s returns after a failed header write without running the rollback of the in-RAM header; '
                       'path %s' % (me, fr.chain_str()))
            tok = tok - {('HDRFAIL',)}
        return tok

    def on_leaf_call(self, ip, fr, tok, tags, bi, term, fn):
        if ('HDRFAIL',) in tok and term.get('trait') in ('std::ops::FnOnce', 'std::ops::FnMut', 'std::ops::Fn'):
            tok = tok - {('HDRFAIL',)}
        if fn is not None and fn.endswith('::push') and 'Vec' in fn and len(term['args']) > 1 and self._holdw(tok) \
                and term['args'][1]['k'] == 'move' and term['args'][0]['k'] in ('move', 'copy'):
            # a slice guard pushed into a vector stays held as long as the vector lives
            g = term['args'][1]['pl']['l']
            vec = None
            for d in self.p.defs(fr.body).get(term['args'][0]['pl']['l'], []):
                if d[0] == 'st':
                    rv = fr.body.blocks[d[1]]['st'][d[2]]['rv']
                    if rv['k'] == 'ref' and not rv['pl']['p']:
                        vec = rv['pl']['l']
            if vec is not None:
                tok = frozenset(('F', 'HOLDS', x[2], vec) if (len(x) > 3 and x[0] == 'F' and x[1] == 'HOLDS' and x[3] == g) else x
                                for x in tok)
        if fn is not None and fn.endswith(('Atomic::<bool>::store', 'Atomic::<bool>::swap')) and len(term['args']) > 1:
            fld = self._stored_field(fr.body, term)
            if fld in ('need_flush', 'dirty'):
                val = tag_of_operand(term['args'][1], tags)
                cls = self.table_in_type(fr.body.locals[1], fr.ctx) if fr.body.argc >= 1 else None
                tok = self.store_event(ip, fr, tok, bi, fld, val, cls)
        if fn is not None and fn.endswith('Atomic::<bool>::load') and term['args']:
            fld = self._stored_field(fr.body, term)
            if fld == 'need_flush':
                self._site('flagread', fr, bi, '')
                clean = tok
                if any(x[0] == 'FLUSHLOCK' for x in tok):
                    # invariant decided by C18.1/C18.2: with no flusher running (the flush mutex is ours), a false flag
                    # means that no metadata is dirty only in RAM
                    self.flag_invariant_used = True
                    clean = frozenset(x for x in tok if x[0] != 'RAM')
                return [(tok, 'T'), (clean, 'F')]
        if fn is not None and fn.endswith(('HashMap::<K, V, S, A>::remove', 'HashMap::<K, V, S, A>::clear', 'HashMap::<K, V, S, A>::retain')) \
                and term['args'] and term['args'][0]['k'] in ('copy', 'move') and self._is_newmap(fr, term['args'][0]):
            self._site('newmap-remove', fr, bi, '')
            pend = ('F', 'ZMPENDING') in tok
            self._ob('C04.O8', fr, bi, not pend, 'new-cluster marks removed in %s while a zeroing request created earlier in it has not completed' % short(fr.body.path))
            if pend:
                self._viol('C04.O8', 'C04.O8:%s' % short(fr.body.path), fr, bi,
                           '%s removes clusters from the new-cluster map before the zeroing request it created for them has '
                           'completed: a slice of such a cluster that is looked up meanwhile is loaded from the stale bytes in the '
                           'file instead of being built empty, and is written back over the table; path %s' % (
                               short(fr.body.path), fr.chain_str()))
        if fn in ('std::mem::drop', 'core::mem::drop') and term['args'] and term['args'][0]['k'] == 'move':
            l = term['args'][0]['pl']['l']
            tok = self._release(tok, lambda x: x[3] == l)
        return [(tok, None)]

    def _is_newmap(self, fr, a):
        """the operand is (a reference / guard of) the new-cluster map: HashMap<u64, RwLock<bool>>"""
        tid = self.p.subst(fr.body.locals[a['pl']['l']], fr.ctx)
        def hit(x):
            if x['k'] != 'adt' or x.get('p') != 'std::collections::HashMap':
                return False
            args = x.get('a') or []
            if len(args) < 2:
                return False
            return self.f.type_contains(args[1], lambda y: y['k'] == 'adt' and y.get('p') == 'futures_locks::RwLock')
        return self.f.type_contains(tid, hit)

    def _release(self, tok, pred):
        """remove the guard tokens selected by `pred`; a slice guard released after the slice was written is remembered"""
        out = set()
        rel = set()
        for x in tok:
            if len(x) > 3 and x[0] == 'F' and x[1] in ('HOLDW', 'HOLDS') and pred(x):
                if x[1] == 'HOLDS' and ('F', 'WROTE', x[2]) in tok:
                    rel.add(('F', 'RELEASED', x[2]))
                continue
            out.add(x)
        return frozenset(out | rel)

    def _holdw(self, tok):
        r = self._hw.get(tok)
        if r is None:
            r = any(len(x) > 3 and x[0] == 'F' and x[1] in ('HOLDW', 'HOLDS') for x in tok)
            self._hw[tok] = r
        return r

    def on_assign(self, ip, fr, tok, tags, bi, s):
        # a write guard moved to another local keeps being held
        rv = s['rv']
        if not self._holdw(tok):
            return tok
        out = set(tok)
        for o in rv.get('ops', []):
            if o['k'] == 'move':
                for x in tok:
                    if len(x) > 3 and x[0] == 'F' and x[1] in ('HOLDW', 'HOLDS') and x[3] == o['pl']['l']:
                        out.discard(x)
                        out.add(('F', x[1], x[2], s['pl']['l']))
        return frozenset(out)

    def on_drop(self, ip, fr, tok, tags, bi, place):
        if place['p'] or not self._holdw(tok):
            return tok
        return self._release(tok, lambda x: x[3] == place['l'])

    def on_dead(self, ip, fr, tok, tags, bi, local):
        if not self._holdw(tok):
            return tok
        return self._release(tok, lambda x: x[3] == local)

    def on_enter(self, ip, fr, tok, cfr, bi, term):
        if ('HDRFAIL',) in tok and cfr.body.kind == 'Closure' and not cfr.body.is_coroutine:
            tok = tok - {('HDRFAIL',)}
        base = frozenset(x for x in tok if x[0] != 'F') | {('F', 'NOTCONSULTED')}
        if any(x[0] == 'VICTIMS' for x in base) and self._takes_victims(cfr.body):
            # the evicted entries are handed to the slice flusher
            c = self.table_in_type(cfr.body.locals[2] if len(cfr.body.locals) > 2 else -1, cfr.ctx)
            base = frozenset(x for x in base if not (x[0] == 'VICTIMS' and (c is None or x[1] == c)))
        base = base | {('OH', x[2], short(fr.body.path)) for x in tok if len(x) > 3 and x[0] == 'F' and x[1] == 'HOLDW'}
        # a release of clusters that were allocated in this critical section
        # (fragment retry, COW undo) is exempt from O4
        if short(cfr.body.path) == 'free_clusters' or short(cfr.body.parent or '') == 'free_clusters':
            cterm = term
            if term.get('fn', '').endswith('Future::poll'):
                one = ip.creation_of_poll(fr, term, cfr.body.parent)
                cterm = one[1] if one is not None else None
            base = base | {('F', 'INFREE')}
            if not (cterm is not None and self._alloc_derived(ip, fr, cterm['args'][1])):
                base = base | {('F', 'NOTALLOC')}
                if ('F', 'UNREF_HDR') in tok:
                    # the old table is released by the frame that switched the header
                    base = base | {('F', 'FREE_AFTER_SWITCH', short(fr.body.path))}
        return base

    def _alloc_derived(self, ip, fr, operand):
        if operand['k'] not in ('copy', 'move'):
            return False
        body = fr.body
        seen = set()
        work = [operand['pl']['l']]
        while work:
            l = work.pop()
            if l in seen:
                continue
            seen.add(l)
            for d in self.p.defs(body).get(l, []):
                if d[0] == 'call':
                    t = body.blocks[d[1]]['term']
                    fn = t.get('fn', '')
                    if fn.endswith('Future::poll'):
                        for fu in self.p.futs(t['a'][0], fr.ctx):
                            if fu.kind == 'async_fn' and self._reaches_alloc(fu.path):
                                return True
                        continue
                    for a in t['args']:
                        if a['k'] in ('copy', 'move'):
                            work.append(a['pl']['l'])
                else:
                    rv = body.blocks[d[1]]['st'][d[2]]['rv']
                    if rv['k'] in ('ref', 'rawptr', 'discr'):
                        work.append(rv['pl']['l'])
                    for o in rv.get('ops', []):
                        if o['k'] in ('copy', 'move'):
                            work.append(o['pl']['l'])
        return False

    def _reaches_alloc(self, fn, _seen=None):
        """fn transitively calls RefBlock::alloc_range (it allocates)."""
        if not hasattr(self, '_rac'):
            self._rac = {}
        if fn in self._rac:
            return self._rac[fn]
        if _seen is None:
            _seen = set()
        if fn in _seen:
            return False
        _seen.add(fn)
        res = False
        bodies = [self.f.body(fn)] + [self.f.body(c) for c in self.f.coroutines_of(fn)]
        for b in bodies:
            if b is None:
                continue
            for bi, t in b.calls():
                cf = t.get('fn', '')
                if cf.endswith('RefBlock::alloc_range'):
                    res = True
                elif cf.endswith('Future::poll'):
                    for fu in self.p.futs(t['a'][0], ()):
                        if fu.kind == 'async_fn' and self._reaches_alloc(fu.path, _seen):
                            res = True
                if res:
                    break
            if res:
                break
        self._rac[fn] = res
        return res


# --------------------------------------------------------------------------- loop/phase rule

def natural_loops(body):
    """[(header, set(blocks))] from back edges u->v with v dominating u."""
    succ = body.succ()
    pred = body.pred()
    reach = body.reachable()
    loops = {}
    for u in reach:
        for v in succ[u]:
            if v in reach and body.dominates(v, u):
                nodes = {v, u}
                st = [u]
                while st:
                    x = st.pop()
                    if x == v:
                        continue
                    for p in pred[x]:
                        if p in reach and p not in nodes:
                            nodes.add(p)
                            st.append(p)
                loops.setdefault(v, set()).update(nodes)
    return sorted(loops.items())


def phase_rule(f):
    """In every loop of a function that (transitively) writes mapping tables,
    the complete refcount sweep is performed inside the same loop and dominates
    the mapping writes: refcount changes made while an earlier pass was waiting
    for I/O are flushed before the mappings of the next pass.
    Returns [(fn, loop header where, ok, detail)]."""
    from .interp import POLL_NAMES
    P = Program(f)
    out = []
    cache = {}

    def effects(body, bi, t):
        """(classes written, full sweeps) by the await in block bi."""
        futs = P.futs(t['a'][0], ())
        key = tuple(sorted((fu.kind, fu.path or '', tuple(fu.targs)) for fu in futs))
        if key in cache:
            return cache[key]
        cls, sweeps = set(), set()
        for fu in futs:
            if fu.kind != 'async_fn':
                continue
            cos = f.coroutines_of(fu.path)
            if not cos:
                continue
            d = FlowDomain(P)
            ip = Interp(P, d)
            cb = f.body(cos[0])
            try:
                ip.run(cb, ctx=P.bind(f.body(fu.path), fu.targs, ()), tok=d.initial() | {('RAM', 'RC'), ('RAM', 'L2')})
            except AnalysisError:
                continue
            cls |= d.classes_seen
            for (kind, where), info in d.sites.items():
                if kind == 'sweep' and info['extra'].endswith('full'):
                    sweeps.add(info['extra'].split()[0])
            # sites keep only the first extra per location: ask the domain
            sweeps |= getattr(d, 'full_sweeps', set())
        cache[key] = (cls, sweeps)
        return cache[key]

    for b in f.body_list:
        if not b.is_coroutine or '::tests::' in b.path:
            continue
        polls = [(bi, t) for bi, t in b.calls() if t.get('fn') in POLL_NAMES]
        if not polls:
            continue
        loops = natural_loops(b)
        if not loops:
            continue
        eff = None
        for header, nodes in loops:
            inloop = [(bi, t) for (bi, t) in polls if bi in nodes]
            if not inloop:
                continue
            if eff is None:
                eff = {bi: effects(b, bi, t) for (bi, t) in polls}
            maps = [bi for (bi, t) in inloop if eff[bi][0] & {'L2', 'L1'}]
            if not maps:
                continue
            rcs = [bi for (bi, t) in inloop if 'RB' in eff[bi][1]]
            # the function must be one that is responsible for refcounts-before-mappings:
            # it performs a full refcount sweep somewhere itself
            anyrc = [bi for (bi, t) in polls if 'RB' in eff[bi][1]]
            if not anyrc:
                continue
            for m in maps:
                ok = any(b.dominates(r, m) for r in rcs)
                out.append((short(b.path), b.where(header), ok,
                            'mapping write at %s; full refcount sweeps in the loop at %s' % (
                                b.where(m), [b.where(r) for r in rcs])))
    # the same condition when the passes are a loop of a *callee*: a function that performs the refcount sweep once and then
    # awaits a helper which repeats mapping steps in a loop of its own (each step waits for I/O) runs several mapping passes
    # behind one refcount sweep
    unswept = {}
    for b in f.body_list:
        if not b.is_coroutine or '::tests::' in b.path:
            continue
        polls = [(bi, t) for bi, t in b.calls() if t.get('fn') in POLL_NAMES]
        loops = natural_loops(b) if polls else []
        for header, nodes in loops:
            inloop = [(bi, t) for (bi, t) in polls if bi in nodes]
            if not inloop:
                continue
            e = {bi: effects(b, bi, t) for (bi, t) in inloop}
            if any(e[bi][0] & {'L2', 'L1'} for bi, _t in inloop) and not any('RB' in e[bi][1] for bi, _t in inloop):
                unswept[b.path] = b.where(header)
    if unswept:
        for b in f.body_list:
            if not b.is_coroutine or '::tests::' in b.path or b.path in unswept:
                continue
            polls = [(bi, t) for bi, t in b.calls() if t.get('fn') in POLL_NAMES]
            if not polls:
                continue
            hits = []
            for bi, t in polls:
                for fu in P.futs(t['a'][0], ()):
                    if fu.kind == 'async_fn':
                        for co in f.coroutines_of(fu.path) or []:
                            if co in unswept:
                                hits.append((bi, co))
            if not hits:
                continue
            eff = {bi: effects(b, bi, t) for (bi, t) in polls}
            anyrc = [bi for (bi, t) in polls if 'RB' in eff[bi][1]]
            if not anyrc:
                continue
            # the relocation of the L1 table is not explored (assumed dead, see C04): polls behind its entry are skipped
            dead = [cbi for cbi, ct in b.calls() if (ct.get('fn') or '').endswith('L1Table::clone_and_grow')]
            for bi, co in hits:
                if any(b.dominates(dbi, bi) for dbi in dead):
                    continue
                out.append((short(b.path), b.where(bi), False,
                            'awaits %s, whose loop at %s repeats mapping writes without a refcount sweep; the only full refcount sweeps '
                            'of %s are at %s, outside that loop' % (short(co), unswept[co], short(b.path), [b.where(r) for r in anyrc])))
    return out

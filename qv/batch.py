"""python3 -m qv.batch <spec> ... : run selftests in parallel.
spec = <patch or '-'>:<ID>[,<ID>...]"""
import sys, json
from concurrent.futures import ThreadPoolExecutor
from .selftest import run_patch

def one(spec):
    patch, ids = spec.rsplit(':', 1)
    res = run_patch(None if patch == '-' else patch, [i.upper() for i in ids.split(',')])
    return spec, res

def main():
    specs = sys.argv[1:]
    with ThreadPoolExecutor(max_workers=6) as ex:
        for spec, res in ex.map(one, specs):
            print('#### ' + spec)
            if not res['applied']:
                print('   PATCH DOES NOT APPLY: ' + res['err'][-200:])
                continue
            for pid, c in res['checks'].items():
                new = [l for l in c['lines'] if l.startswith('VIOLATION') or ' rule=' in l]
                print('  %s exit=%d new=%d' % (pid, c['exit'], len([l for l in c['lines'] if l.startswith('VIOLATION')])))
                for l in c['lines']:
                    if ' rule=' in l or l.startswith('ANALYSIS'):
                        print('      ' + l[:230])
                if c['stderr']:
                    print('      stderr: ' + c['stderr'][-300:])
main()

"""Engine C: held-lock dataflow, lock-order graph, critical-section facts.

Token = (depth, frozenset of held guards).  A guard is
(class, mode, depth, holder) where holder is

  ('l', n)      local n of the *current* frame owns the guard
  'outer'       owned by a caller frame (cannot be released here)
  'parked'      moved into a container / unknown consumer of the current
                frame: held until this frame returns

Lock classes are the protected types (`RwLock<L2Table>` -> 'L2Table'), see
DESIGN 2.2.  `depth` counts how many `backing_file` hops away from the
top device the receiver is: locks of different devices never conflict.
"""
from .interp import Domain, Interp, Program, short, head
from .facts import AnalysisError

GUARD_ADTS = {
    'futures_locks::RwLockReadGuard': 'read',
    'futures_locks::RwLockWriteGuard': 'write',
    'futures_locks::MutexGuard': 'mutex',
}

CLASS_NAMES = {
    'meta::header::Qcow2Header': 'header',
    'meta::l1::L1Table': 'l1table',
    'meta::refcount::RefTable': 'reftable',
    'meta::l2::L2Table': 'l2slice',
    'meta::refcount::RefBlock': 'rbslice',
    'bool': 'cluster',
    '()': 'flush',
}
# classes with many instances (one lock per slice / per new cluster)
MULTI_INSTANCE = {'l2slice', 'rbslice', 'cluster'}

# documented hierarchy (DEVELOPMENT.md), used only to print ranks in reports
RANK = {'flush': 0, 'header': 1, 'l1table': 2, 'reftable': 2, 'l2slice': 3, 'rbslice': 3,
        'newmap': 4, 'cluster': 5}


def base_class(c):
    return c.split(':')[0]


def conflict(m1, m2):
    """futures_locks::RwLock is reader-preferring: readers are admitted unless
    a writer *holds*; so R-R never conflicts."""
    if m1 == 'mutex' or m2 == 'mutex':
        return True
    return m1 == 'write' or m2 == 'write'


UNCONDITIONAL_PASS = ('::unwrap', '::expect', '::unwrap_unchecked', 'IntoIterator::into_iter', 'Into::into', 'From::from',
                      '::into_inner', 'Try::branch', 'FromResidual::from_residual', 'hint::must_use', 'Option::<T>::Some',
                      'Result::<T, E>::ok', 'Option::<T>::ok_or', 'convert::identity')


class LockDomain(Domain):
    name = 'locks'

    def __init__(self, program):
        self.p = program
        self.f = program.f
        self.edges = {}        # (hcls, hmode, cls, mode) -> list of sites
        self.selfacq = {}      # (cls, hmode, mode) -> sites
        self.acq_sites = {}    # (where, cls, mode) -> count
        self.acq_by = {}       # lock class -> functions that acquire it
        self.events = []       # backend events with the held set
        self.create_held = {}  # (body path, bi) -> held classes at creation of a future
        self.leaks = []
        self.poll_held = {}    # (fn created, where created) -> {'created': set, 'polled': set, 'by': fn}
        self.enter_held = {}
        self.enter_by = {}        # (caller, callee) -> held sets at entry   # callee short name -> list of held sets at entry

    # ---------------------------------------------------------------- helpers
    def cls_name(self, tid):
        if tid is None or tid < 0:
            return '?'
        t = self.f.types[tid]
        s = t.get('p', t['s'])
        if t['k'] == 'tuple' and not t['a']:
            s = '()'
        if s in CLASS_NAMES:
            return CLASS_NAMES[s]
        if s == 'std::collections::HashMap':
            return 'newmap'
        return s

    def guard_classes_in_type(self, tid):
        """[(class, mode)] of guard types contained in a type."""
        out = []
        for _i, t in self.f.walk_type(tid):
            if t['k'] == 'adt' and t['p'] in GUARD_ADTS:
                out.append((self.cls_name(t['a'][0]) if t['a'] else '?', GUARD_ADTS[t['p']]))
        return out

    def initial(self):
        return (0, frozenset())

    def join(self, a, b):
        return (max(a[0], b[0]), a[1] | b[1])

    # ---------------------------------------------------------------- acquisition
    def known_owner(self, fr):
        """this frame's function, or its nearest caller the rule tables know (a guard taken in a helper that a
        refactor split off is attributed to the function the helper was split off from)"""
        if not hasattr(self, '_known_short'):
            from .inline import known_functions
            kn = known_functions()
            self._known_short = {short(p) for p in kn} if kn is not None else None
        me = short(fr.body.path)
        if self._known_short is None or me in self._known_short:
            return me
        names = [c.split('@')[0] for c in fr.chain]
        for n in reversed(names[:-1] if names and names[-1] == me else names):
            if n in self._known_short:
                return n
        return me

    def on_leaf_await(self, ip, fr, tok, tags, bi, term, fut):
        depth, held = tok
        if fut.kind == 'lock':
            cls = self.cls_name(fut.cls)
            mode = fut.mode
            site = (fr.where(bi), self.known_owner(fr), fr.chain_str())
            k = (site[0], cls, mode)
            self.acq_sites[k] = self.acq_sites.get(k, 0) + 1
            self.acq_by.setdefault(cls, set()).add(short(fr.body.path))
            if cls == 'cluster':
                # a host cluster is a data cluster, an L2-table cluster or a
                # refblock cluster (C08): the per-cluster lock taken in a
                # function instantiated for table type B guards a cluster of
                # B's kind
                kind = 'data'
                for (n, v) in fr.ctx:
                    cn = self.cls_name(v)
                    if cn in ('l2slice', 'rbslice'):
                        kind = cn[:2]
                cls = 'cluster:' + kind
            for (hc, hm, hd, _holder, hfn, gap) in held:
                if hd != depth or hc.startswith('@'):
                    continue
                if hc == cls and conflict(hm, mode) and base_class(cls) not in MULTI_INSTANCE:
                    # the route: the first function the rule tables know that the holder calls on the way to this
                    # request (stable when the requesting code is inlined into / split off from its callers)
                    self.known_owner(fr)
                    names = [c.split('@')[0] for c in fr.chain]
                    via = None
                    if hfn in names:
                        i = len(names) - 1 - names[::-1].index(hfn)
                        for n in names[i + 1:]:
                            if self._known_short is None or n in self._known_short:
                                via = n
                                break
                    self.selfacq.setdefault((cls, hm, mode), []).append((site[0], via or site[1], site[2]))
                e = self.edges.setdefault((hc, hm, cls, mode), {'sites': [], 'gap': False, 'holders': set()})
                e['sites'].append(site)
                e['gap'] = e['gap'] or gap
                e['holders'].add(hfn)
            dst = term['dst']['l']
            # waiting for a lock is itself a suspension for everything held
            held = frozenset((c, m, d, h, fn_, True) for (c, m, d, h, fn_, g) in held)
            held = held | {(cls, mode, depth, ('l', dst), self.known_owner(fr), False)}
            return [((depth, held), None)]
        if fut.kind in ('trait_fn', 'ext'):
            held = frozenset((c, m, d, h, fn_, True) for (c, m, d, h, fn_, g) in held)
            tok = (depth, held)
        if fut.kind == 'trait_fn':
            self.events.append({
                'op': fut.path.split('::')[-1], 'where': fr.where(bi), 'fn': short(fr.body.path),
                'chain': fr.chain_str(), 'held': sorted({(c, m) for (c, m, d, _h, _f, _g) in held if d == depth and not c.startswith('@')}),
                'depth': depth,
            })
        return [(tok, None)]

    # ---------------------------------------------------------------- moves
    def _rehome(self, held, src, dst):
        out = set()
        ch = False
        for g in held:
            if g[3] == ('l', src) or g[3] == ('w', src):
                # a weak guard stays weak wherever it is moved to
                nd = dst if g[3][0] == 'l' or not isinstance(dst, tuple) else ('w', dst[1])
                out.add((g[0], g[1], g[2], nd, g[4], g[5]))
                ch = True
            else:
                out.add(g)
        return frozenset(out) if ch else held

    def _release(self, held, src):
        out = frozenset(g for g in held if g[3] != ('l', src) and g[3] != ('w', src))
        return out

    def on_assign(self, ip, fr, tok, tags, bi, s):
        depth, held = tok
        if not held:
            return tok
        holders = {g[3][1] for g in held if isinstance(g[3], tuple)}
        if not holders:
            return tok
        rv = s['rv']
        dst = s['pl']['l']
        for o in rv.get('ops', []):
            if o['k'] == 'move' and o['pl']['l'] in holders:
                # moving the guard (or the aggregate holding it) re-homes it
                held = self._rehome(held, o['pl']['l'], ('l', dst))
        return (depth, held)

    def on_drop(self, ip, fr, tok, tags, bi, place):
        depth, held = tok
        if not held or place['p']:
            return tok
        return (depth, self._release(held, place['l']))

    def on_dead(self, ip, fr, tok, tags, bi, local):
        depth, held = tok
        if not held:
            return tok
        return (depth, self._release(held, local))

    def on_leaf_call(self, ip, fr, tok, tags, bi, term, fn):
        depth, held = tok
        if not held:
            return [(tok, None)]
        holders = {g[3][1] for g in held if isinstance(g[3], tuple)}
        dst = term['dst']['l'] if not term['dst']['p'] else None
        for a in term['args']:
            if a['k'] == 'move' and a['pl']['l'] in holders and not [e for e in a['pl']['p'] if e['k'] != 'deref']:
                src = a['pl']['l']
                if fn in ('std::mem::drop', 'core::mem::drop'):
                    held = self._release(held, src)
                elif dst is not None and self.guard_classes_in_type(fr.body.locals[dst]) and \
                        not self._is_ref(fr.body.locals[dst]):
                    # by-value pass-through (IntoIterator::into_iter, Some(..), unwrap ...); a callee that may
                    # drop what it is given (bool::then_some, Option::filter, ...) leaves a *weak* guard: it still
                    # counts for what may be held (lock order), not for what must be held (critical sections)
                    uncond = any((fn or '').endswith(x) for x in UNCONDITIONAL_PASS)
                    held = self._rehome(held, src, ('l', dst) if uncond else ('w', dst))
                else:
                    # inserted into a container or consumed by an unknown
                    # callee: held until the frame returns
                    held = self._rehome(held, src, 'parked')
        return [((depth, held), None)]

    def _is_ref(self, tid):
        return self.f.types[tid]['k'] in ('ref', 'ptr')

    def on_create(self, ip, fr, tok, tags, bi, term, fn):
        depth, held = tok
        acq = self._cluster_acq_blocks(ip, fr.body)
        if acq and any(fr.body.dominates(a, bi) for a in acq):
            own = [g for g in held if g[2] == depth and g[3] != 'outer' and g[0].startswith('cluster') and g[1] == 'write']
            if own:
                # a request created under this frame's per-cluster write guard
                held = held | {('@pend:%s:%d' % (short(fn), bi), 'mark', depth, 'parked', short(fr.body.path), False)}
                return (depth, held)
        return tok

    # ---------------------------------------------------------------- frames
    def _cluster_acq_blocks(self, ip, body):
        """Blocks of `body` that acquire a per-cluster (RwLock<bool>) write lock."""
        if not hasattr(self, '_cab'):
            self._cab = {}
        r = self._cab.get(body.path)
        if r is None:
            r = []
            for bi, t in body.calls():
                if t.get('fn', '').endswith('Future::poll'):
                    for fu in ip.p.futs(t['a'][0], ()):
                        if fu.kind == 'lock' and fu.mode == 'write' and self.cls_name(fu.cls) == 'cluster':
                            r.append(bi)
            self._cab[body.path] = r
        return r

    def _depth_of_call(self, ip, fr, term, depth):
        """+1 when the receiver derives from the `backing_file` field."""
        if term is None or not term.get('args'):
            return depth
        a0 = term['args'][0]
        if a0['k'] not in ('copy', 'move'):
            return depth
        for o in ip.p.place_origins(fr.body, a0['pl']):
            if self._mentions(o, 'backing_file'):
                return min(depth + 1, 2)
        return depth

    def _mentions(self, o, name):
        if not isinstance(o, tuple):
            return False
        for x in o:
            if x == name:
                return True
            if isinstance(x, tuple) and self._mentions(x, name):
                return True
        return False

    def on_enter(self, ip, fr, tok, cfr, bi, term):
        depth, held = tok
        # for awaits the receiver is at the creation site of the future
        cterm = term
        if term.get('fn', '').endswith('Future::poll'):
            sites = ip.creation_sites(fr.body, cfr.body.parent if cfr.body.is_coroutine else cfr.body.path)
            cterm = sites[0][1] if sites else None
        nd = self._depth_of_call(ip, fr, cterm, depth)
        cname = short(cfr.body.path)
        here = frozenset((c, m) for (c, m, d, _h, _f, _g) in held if d == depth and not c.startswith('@'))
        self.enter_held.setdefault(cname, set()).add(here)
        self.enter_by.setdefault((short(fr.body.path), cname), set()).add(here)
        if term.get('fn', '').endswith('Future::poll') and cfr.body.is_coroutine:
            one = ip.creation_of_poll(fr, term, cfr.body.parent)
            if one is not None:
                mark = '@pend:%s:%d' % (cname, one[0])
                if any(g[0] == mark for g in held):
                    own = sorted({(c, m) for (c, m, d, h, _f, _g) in held
                                  if d == depth and h != 'outer' and not (isinstance(h, tuple) and h[0] == 'w')
                                  and c.startswith('cluster') and m == 'write'})
                    k = (cname, fr.body.where(one[0]), short(fr.body.path))
                    e = self.poll_held.setdefault(k, {'ok': True, 'n': 0})
                    e['n'] += 1
                    if not own:
                        e['ok'] = False
                    held = frozenset(g for g in held if g[0] != mark)
        # guards passed by value become the callee's (argument local), the rest are outer
        new = set()
        moved = {}
        if cterm is not None and not cfr.body.is_coroutine:
            for i, a in enumerate(cterm['args']):
                if a['k'] == 'move' and not a['pl']['p']:
                    moved[a['pl']['l']] = i + 1
        for g in held:
            if isinstance(g[3], tuple) and g[3][1] in moved:
                new.add((g[0], g[1], g[2], ('l', moved[g[3][1]]), g[4], g[5]))
            else:
                new.add((g[0], g[1], g[2], 'outer', g[4], g[5]))
        return (nd, frozenset(new))

    def on_return(self, ip, fr, tok, tags, bi):
        depth, held = tok
        # parked guards die with the frame; a guard still owned by a local at
        # return would be a leak of our model: report it as analysis imprecision
        keep = set()
        for g in held:
            if g[3] == 'outer':
                keep.add(g)
            elif g[3] == 'parked':
                continue
            elif g[3] == ('l', 0) or g[3] == ('w', 0):
                keep.add(g)          # returned to the caller
            else:
                # mir_built keeps scope-end drops explicit, so this means a
                # moved-out guard we lost track of; treat as released
                continue
        return (depth, frozenset(keep))

    def on_leave(self, ip, fr, tok_before, tok_exit, exit_tag, cb, bi, term):
        depth, held = tok_before
        _d2, eheld = tok_exit
        # anything that suspended inside the callee suspended for our guards too
        any_gap = any(g[5] for g in eheld if g[3] == 'outer')
        grew = {(g[0], g[1], g[2]) for g in eheld if g[3] == 'outer' and g[5]}
        out = set()
        for g in held:
            if (g[0], g[1], g[2]) in grew and not g[5]:
                out.add((g[0], g[1], g[2], g[3], g[4], True))
            else:
                out.add(g)
        # guards moved into the callee by value are gone unless returned
        if not cb.is_coroutine:
            for a in term['args']:
                if a['k'] == 'move' and not a['pl']['p']:
                    out = {g for g in out if g[3] != ('l', a['pl']['l']) and g[3] != ('w', a['pl']['l'])}
        dst = term['dst']['l']
        for g in eheld:
            if g[3] == ('l', 0) or g[3] == ('w', 0):
                out.add((g[0], g[1], g[2], (g[3][0], dst), g[4], g[5]))
        return (depth, frozenset(out))


# --------------------------------------------------------------------------- graph analysis

def find_cycles(edges, max_len=4):
    """Mode-aware deadlock cycles.  An edge is (hcls, hmode) -> (cls, mode): some
    task may hold hcls in hmode while requesting cls in mode.  A cycle
    T1: holds A(m1) wants B(m2); T2: holds B(m3) wants A(m4) is a deadlock iff
    conflict(m2, m3) and conflict(m4, m1) (longer cycles likewise)."""
    es = [k for k in edges.keys()]
    out = []
    seen = set()

    def rec(path):
        first = path[0]
        last = path[-1]
        for e in es:
            # e is held by the next task in the chain: it holds what `last` wants
            if e[0] != last[2] or not conflict(last[3], e[1]):
                continue
            if e[0] == e[2] and base_class(e[0]) not in MULTI_INSTANCE:
                continue   # single-instance re-acquisition: reported by the self rule
            if e == first and len(path) >= 1:
                pass
            if e[2] == first[0] and conflict(e[3], first[1]):
                cyc = path + [e]
                key = frozenset(cyc)
                if key not in seen:
                    seen.add(key)
                    out.append(cyc)
            if len(path) + 1 < max_len and e not in path:
                rec(path + [e])

    for e in es:
        # single task cycles (length 1): holds A wants A conflicting, on a
        # multi-instance class: two tasks each holding one instance
        if e[0] == e[2] and conflict(e[1], e[3]) and base_class(e[0]) in MULTI_INSTANCE:
            key = frozenset([e])
            if key not in seen:
                seen.add(key)
                out.append([e])
        rec([e])
    # normalise: drop permutations
    norm = []
    keys = set()
    for c in out:
        k = frozenset(c)
        if k in keys:
            continue
        keys.add(k)
        norm.append(c)
    return norm


def cycle_key(cyc):
    parts = sorted('%s(%s)->%s(%s)' % e for e in cyc)
    return ' | '.join(parts)

"""check driver: ./check <ID> [--tier quick|thorough]

exit 0  property held on everything analysed (known findings are printed)
exit 1  VIOLATION property=<id> replay=<path>
exit 2  ANALYSIS-ERROR (the check itself is broken: missing anchor, count
        below floor, unresolved await, tree does not compile)
"""
import argparse
import importlib
import json
import os
import sys
import time
import traceback

from . import build
from .facts import AnalysisError

VERIF = build.VERIF


class Report:
    def __init__(self, pid, tier):
        self.pid = pid
        self.tier = tier
        self.obs = []          # obligations evaluated
        self.viol = []
        self.notes = []
        self.counts = {}
        self.assumptions = []
        self.explanation = ''
        self.rules = {}
        self.undecided = []
        self.floor_fail = []

    def rule(self, rid, text):
        self.rules[rid] = text

    def ob(self, rule, site, ok, detail=''):
        self.obs.append({'rule': rule, 'site': site, 'verdict': 'holds' if ok else 'violated', 'detail': detail})

    def violation(self, rule, key, where, msg, detail=None):
        """key: stable identity of the finding (no line numbers)."""
        for v in self.viol:
            if v['key'] == key:
                v['sites'].append(where)
                return
        self.viol.append({'rule': rule, 'key': key, 'where': where, 'sites': [where], 'msg': msg,
                          'detail': detail or {}})

    def note_undecided(self, rule, site, why):
        self.undecided.append({'rule': rule, 'site': site, 'why': why})

    def count(self, name, n):
        self.counts[name] = n

    def floor(self, name, got, need):
        """Fail closed: fewer instances than were counted by hand means the rule
        no longer sees the code.  Reported as ANALYSIS-ERROR (exit 2) unless the
        same run found a violation (a removed check is a violation, not an
        analysis problem)."""
        self.counts[name] = got
        # large counts (sites examined) may shrink a little when code is restructured without losing coverage:
        # the floor guards against a rule that no longer sees the code, so a quarter of slack is allowed from 8 up
        if need >= 8:
            need = max(6, (need * 3) // 4)
        if got < need:
            self.floor_fail.append('%s: matched %d instance(s), hand-counted floor is %d '
                                   '(anchor moved or rule no longer sees the code)' % (name, got, need))

    def assume(self, text):
        if text not in self.assumptions:
            self.assumptions.append(text)


class Ctx:
    def __init__(self, facts, tier, seed):
        self.facts = facts
        self.lib = facts.get('qcow2_rs-rlib')
        self.bin = facts.get('rqcow2-executable')
        self.tier = tier
        self.seed = seed
        if self.lib is None:
            raise AnalysisError('no facts for the library target')


def load_known():
    p = os.path.join(VERIF, 'known_findings.json')
    if not os.path.exists(p):
        return []
    with open(p) as fh:
        return json.load(fh)['findings']


def self_validate(pid):
    """thorough tier: every recorded breaking change that this check is known to detect is applied to a scratch
    copy of the current tree (outside /repo and /verif) and the quick check is run on it; it must report a violation"""
    from concurrent.futures import ThreadPoolExecutor
    from .selftest import run_patch
    p = os.path.join(VERIF, 'selftest', 'index.json')
    if not os.path.exists(p):
        return {}
    with open(p) as fh:
        idx = json.load(fh)['patches']
    todo = sorted(k for k, v in idx.items() if pid in v.get('fires', []) or pid in v.get('silent', []))
    out = {}

    def one(patch):
        want_fire = pid in idx[patch].get('fires', [])
        r = run_patch(os.path.join(VERIF, patch), [pid])
        if not r['applied']:
            return patch, {'fired': True, 'expect': 'violation' if want_fire else 'silence',
                           'note': 'patch no longer applies to the current tree (skipped)'}
        c = r['checks'][pid]
        good = (c['exit'] == 1) if want_fire else (c['exit'] == 0)
        return patch, {'fired': good, 'expect': 'violation' if want_fire else 'silence', 'exit': c['exit'],
                       'report': [l for l in c['lines'] if ' rule=' in l][:2]}
    with ThreadPoolExecutor(max_workers=6) as ex:
        for patch, r in ex.map(one, todo):
            out[patch] = r
    return out


def write_evidence(pid, tier, seed, rep, wall, violations, known_hit, error=None, sv=None):
    evdir = os.environ.get('QV_EVIDENCE_DIR') or os.path.join(VERIF, 'evidence')
    os.makedirs(evdir, exist_ok=True)
    distinct = len({(o['rule'], o['site']) for o in rep.obs})
    discharged = sum(1 for o in rep.obs if o['verdict'] == 'holds')
    samples = rep.obs[:6] + [o for o in rep.obs if o['verdict'] != 'holds'][:6]
    ev = {
        'property_id': pid,
        'tier': tier,
        'seed': seed,
        'level': 'other',
        'coverage': {
            'explanation': rep.explanation or 'static analysis of the resolved program (MIR facts)',
            'evaluations': len(rep.obs),
            'distinct_nontrivial': distinct,
            'rule': 'one obligation per (rule, site/path) instance found in the current source; '
                    'non-trivial = a real construct matched and a path, edge or value had to be examined; '
                    'rules: ' + '; '.join('%s = %s' % kv for kv in sorted(rep.rules.items())),
            'samples': samples,
            'obligations': len(rep.obs),
            'discharged': discharged,
            'counts': rep.counts,
            'known_findings_matched': known_hit,
            'undecided': rep.undecided[:20],
            'exhaustive': True,
        },
        'assumptions': rep.assumptions + [
            'only cfg(target_os = "linux") code is analysed',
            'rustc MIR construction and callee resolution are trusted',
        ],
        'wall_s': round(wall, 3),
        'violations': violations,
    }
    if error:
        ev['coverage']['analysis_error'] = error
    if sv is not None:
        ev['coverage']['self_validation'] = {k: v for k, v in sv.items()}
    with open(os.path.join(evdir, '%s.json' % pid), 'w') as fh:
        json.dump(ev, fh, indent=1, sort_keys=True)


def main():
    ap = argparse.ArgumentParser()
    ap.add_argument('pid')
    ap.add_argument('--tier', default=os.environ.get('VERIF_TIER', 'quick'))
    ap.add_argument('--verbose', '-v', action='store_true')
    a = ap.parse_args()
    pid = a.pid.upper()
    tier = a.tier if a.tier in ('quick', 'thorough') else 'quick'
    try:
        seed = int(os.environ.get('VERIF_SEED', '0'))
    except ValueError:
        seed = 0
    t0 = time.time()
    rep = Report(pid, tier)
    try:
        mod = importlib.import_module('qv.props.' + pid.lower())
        targets = getattr(mod, 'TARGETS', ('--lib', '--bins'))
        facts = build.extract(targets=targets)
        ctx = Ctx(facts, tier, seed)
        mod.run(ctx, rep)
        if tier == 'thorough' and hasattr(mod, 'run_thorough'):
            mod.run_thorough(ctx, rep)
    except AnalysisError as e:
        print('ANALYSIS-ERROR property=%s %s' % (pid, e))
        write_evidence(pid, tier, seed, rep, time.time() - t0, 0, [], error=str(e))
        sys.exit(2)
    except Exception:
        traceback.print_exc()
        print('ANALYSIS-ERROR property=%s internal error' % pid)
        write_evidence(pid, tier, seed, rep, time.time() - t0, 0, [], error='internal error')
        sys.exit(2)

    known = {k['key']: k for k in load_known() if k['property'] == pid and k.get('status') == 'known'}
    new = []
    hit = []
    for v in rep.viol:
        if v['key'] in known:
            hit.append(v['key'])
            print('KNOWN-FINDING: property=%s %s [%s] %s' % (pid, v['key'], v['where'], known[v['key']]['what']))
        else:
            new.append(v)
    if rep.floor_fail and not new:
        print('ANALYSIS-ERROR property=%s %s' % (pid, '; '.join(rep.floor_fail)))
        write_evidence(pid, tier, seed, rep, time.time() - t0, 0, hit, error='; '.join(rep.floor_fail))
        sys.exit(2)
    print('%s: %d obligation(s) over %d distinct site(s); %d violated (%d known); counts %s' % (
        pid, len(rep.obs), len({(o['rule'], o['site']) for o in rep.obs}),
        len(rep.viol), len(hit), json.dumps(rep.counts, sort_keys=True)))
    if a.verbose:
        for o in rep.obs:
            print('  ', o['verdict'], o['rule'], o['site'], o['detail'])
    sv = None
    if tier == 'thorough' and not new and os.environ.get('QV_REPO') is None:
        sv = self_validate(pid)
        rep.counts['self-validation patches replayed'] = len(sv)
        rep.notes.append({'self_validation': sv})
        missed = [p for p, r in sv.items() if not r['fired']]
        if missed:
            print('ANALYSIS-ERROR property=%s self-validation: wrong verdict on %s (a recorded breaking change is no longer '
                  'reported, or a behaviour-preserving refactor raises an alarm)' % (pid, ', '.join(missed)))
            write_evidence(pid, tier, seed, rep, time.time() - t0, 0, hit, error='self-validation missed: ' + ', '.join(missed), sv=sv)
            sys.exit(2)
    write_evidence(pid, tier, seed, rep, time.time() - t0, len(new), hit, sv=sv)
    if new:
        rdir = os.environ.get('QV_REPLAY_DIR') or os.path.join(VERIF, '.cache', 'replay')
        os.makedirs(rdir, exist_ok=True)
        for i, v in enumerate(new):
            path = os.path.join(rdir, '%s-%d.json' % (pid, i))
            with open(path, 'w') as fh:
                json.dump(v, fh, indent=1, sort_keys=True, default=str)
            print('%s rule=%s key=%s at %s: %s' % (pid, v['rule'], v['key'], v['where'], v['msg']))
            print('VIOLATION property=%s replay=%s' % (pid, path))
        sys.exit(1)
    sys.exit(0)


if __name__ == '__main__':
    main()

"""Tabulating inter-procedural abstract interpreter over qmir facts.

The program model is the *async reading* of the MIR:

  * a call to a sync crate function is analysed inline (its summary applied);
  * a call to an `async fn` only creates a future: nothing happens;
  * effects happen where the future is polled (`Future::poll`): the awaited
    type names every constituent future (async fn, trait fn = backend
    boundary, lock acquisition, async block, library combinators);
  * the Pending arm of an await is not part of the CFG (see facts.Body.succ).

States are disjunctive: the analysis keeps a *set* of (token, tags) pairs per
program point.  `tags` is a framework-managed map local -> shape of a
bool/Option/Result value ("ok(T)", "err", "some", ...) which makes the
analysis path sensitive for the one idiom the code base uses everywhere: a
bool/Option result that correlates with an effect.  `token` belongs to the
client domain (any hashable).

Summaries are tabulated per (unit, generic context, argument tags, input
token) and iterated to a fixpoint (the three boxed recursions).
"""
from .facts import AnalysisError, pl_str

POLL = 'futures::Future::poll'
POLL_NAMES = ('futures::Future::poll', 'std::future::Future::poll', 'core::future::Future::poll')

LOCK_FUTS = {
    'futures_locks::RwLockReadFut': 'read',
    'futures_locks::RwLockWriteFut': 'write',
    'futures_locks::MutexFut': 'mutex',
}
# library combinators whose type arguments / upvars name the constituents
CONTAINER_FUTS = (
    'futures::future::JoinAll', 'futures::future::MaybeDone', 'futures::future::PollFn',
    'futures::stream::Collect', 'futures::stream::FuturesUnordered', 'futures::stream::FuturesOrdered',
    'std::pin::Pin', 'std::boxed::Box', 'futures::future::TryJoinAll', 'futures::future::Join',
    'futures::future::Join3', 'std::alloc::Global', 'futures::future::TryJoin', 'futures::future::TryJoin3',
    'futures::future::Select', 'futures::future::SelectAll', 'futures::future::SelectOk', 'futures::future::Abortable',
    'futures::future::TryMaybeDone', 'futures::future::IntoFuture',
)
# combinators that drop their unfinished constituents when one of them finishes (with an error)
SHORT_CIRCUIT_FUTS = (
    'futures::future::TryJoinAll', 'futures::future::TryJoin', 'futures::future::TryJoin3', 'futures::future::TryJoin4',
    'futures::future::Select', 'futures::future::SelectAll', 'futures::future::SelectOk', 'futures::future::Abortable',
    'futures::stream::TryCollect', 'futures::stream::TryForEachConcurrent',
)


class Fut:
    """One constituent of an awaited future."""
    __slots__ = ('kind', 'path', 'targs', 'mode', 'cls')

    def __init__(self, kind, path=None, targs=(), mode=None, cls=None):
        self.kind = kind      # async_fn | trait_fn | lock | coroutine | dyn | ext
        self.path = path
        self.targs = tuple(targs)
        self.mode = mode
        self.cls = cls

    def __repr__(self):
        if self.kind == 'lock':
            return 'lock(%s,%s)' % (self.mode, self.cls)
        return '%s(%s)' % (self.kind, self.path)


class Program:
    """Facts + resolution services shared by all domains."""

    def __init__(self, facts):
        self.f = facts
        self.types = facts.types
        self._defs = {}

    # ------------------------------------------------------------------ generic contexts
    def subst(self, tid, ctx):
        if tid is None or tid < 0:
            return tid
        t = self.types[tid]
        if t['k'] == 'param':
            for n, v in ctx:
                if n == t['p']:
                    return v
        return tid

    def bind(self, callee_body, targs, ctx):
        """Context of callee given the call's type arguments (in caller terms)."""
        names = [g['n'] for g in callee_body.generics if g['k'] in ('type', 'const')]
        out = []
        for n, a in zip(names, targs):
            if a is None or a < 0:
                continue
            a = self.subst(a, ctx)
            t = self.types[a]
            if t['k'] == 'param':
                continue
            if t['k'] == 'ref':
                inner = self.types[t['t']]
                if inner['k'] == 'param':
                    continue
            out.append((n, a))
        return tuple(sorted(out))

    # ------------------------------------------------------------------ awaited futures
    def futs(self, tid, ctx, _seen=None):
        """Constituent futures named by an awaited type."""
        if _seen is None:
            _seen = set()
        tid = self.subst(tid, ctx)
        if tid is None or tid < 0 or tid in _seen:
            return []
        _seen.add(tid)
        t = self.types[tid]
        k = t['k']
        if k == 'opaque':
            fn = t['fn']
            if self.f.body(fn) is not None or not fn.startswith('std::'):
                if self.f.body(fn) is not None:
                    return [Fut('async_fn', fn, [self.subst(a, ctx) for a in t['a']])]
                return [Fut('ext', fn)]
            return [Fut('ext', fn)]
        if k == 'proj':
            if 'rpitit' in t:
                return [Fut('trait_fn', t['rpitit'], [self.subst(a, ctx) for a in t['a']])]
            return [Fut('ext', t['p'])]
        if k == 'coroutine':
            return [Fut('coroutine', t['p'], [self.subst(a, ctx) for a in t['a']])]
        if k == 'dyn':
            return [Fut('dyn', t.get('p'))]
        if k == 'adt':
            p = t['p']
            if p in LOCK_FUTS:
                cls = self.subst(t['a'][0], ctx) if t['a'] else None
                return [Fut('lock', p, mode=LOCK_FUTS[p], cls=cls)]
            if p in CONTAINER_FUTS:
                out = []
                for a in (t['a'][:1] if p == 'futures::stream::Collect' else t['a']):
                    out += self.futs(a, ctx, _seen)
                return out
            return [Fut('ext', p)]
        if k == 'closure':
            out = []
            for u in t['u']:
                out += self.futs(u, ctx, _seen)
            return out
        if k in ('ref', 'ptr'):
            return self.futs(t['t'], ctx, _seen)
        if k == 'tuple':
            out = []
            for a in t['a']:
                out += self.futs(a, ctx, _seen)
            return out
        if k == 'param':
            return [Fut('param', t['p'])]
        return []

    # ------------------------------------------------------------------ def-use helpers
    def defs(self, body):
        """local -> list of ('st', bi, si) | ('call', bi) defining the whole local."""
        key = body.path
        if key not in self._defs:
            d = {}
            for bi, bl in enumerate(body.blocks):
                if bl['cleanup']:
                    continue
                for si, s in enumerate(bl['st']):
                    if s['k'] == 'assign' and not s['pl']['p']:
                        d.setdefault(s['pl']['l'], []).append(('st', bi, si))
                t = bl['term']
                if t['k'] == 'call' and not t['dst']['p']:
                    d.setdefault(t['dst']['l'], []).append(('call', bi))
            self._defs[key] = d
        return self._defs[key]

    def origins(self, body, local, depth=0, _seen=None):
        """Backward value slice of a local through identity carriers.
        Returns a set of roots:
          ('arg', n)            function parameter n (1-based local)
          ('upvar', i)          coroutine/closure capture i
          ('call', bi)          destination of the call in block bi (not an identity carrier)
          ('const', v)
          ('agg', bi, si)
          ('field', base_local, names)   projection of something else
          ('other', bi, si)
        """
        if _seen is None:
            _seen = set()
        if local in _seen or depth > 40:
            return set()
        _seen.add(local)
        out = set()
        ds = self.defs(body).get(local, [])
        if not ds:
            if 1 <= local <= body.argc:
                out.add(('arg', local))
            return out
        for d in ds:
            if d[0] == 'call':
                t = body.blocks[d[1]]['term']
                fn = t.get('fn', '')
                if is_identity_call(t):
                    for a in t['args'][:1]:
                        if a['k'] in ('copy', 'move'):
                            out |= self.place_origins(body, a['pl'], depth + 1, _seen)
                        elif a['k'] == 'const':
                            out.add(('const', a.get('v')))
                else:
                    out.add(('call', d[1]))
            else:
                s = body.blocks[d[1]]['st'][d[2]]
                rv = s['rv']
                k = rv['k']
                if k == 'use' or (k == 'cast'):
                    o = rv['ops'][0]
                    if o['k'] in ('copy', 'move'):
                        out |= self.place_origins(body, o['pl'], depth + 1, _seen)
                    elif o['k'] == 'const':
                        out.add(('const', o.get('v')))
                elif k in ('ref', 'rawptr'):
                    out |= self.place_origins(body, rv['pl'], depth + 1, _seen)
                elif k == 'agg':
                    out.add(('agg', d[1], d[2]))
                else:
                    out.add(('other', d[1], d[2]))
        return out

    def place_origins(self, body, pl, depth=0, _seen=None):
        fields = [e for e in pl['p'] if e['k'] == 'field']
        base = pl['l']
        if body.is_coroutine or body.kind == 'Closure':
            # captures: _1.i (possibly behind a deref for by-ref closures)
            if base == 1 and fields:
                rest = tuple(e['n'] or str(e['i']) for e in fields[1:])
                if rest:
                    return {('upvar', fields[0]['i'], rest)}
                return {('upvar', fields[0]['i'])}
        if fields:
            names = tuple(e['n'] or str(e['i']) for e in fields)
            inner = self.origins(body, base, depth + 1, _seen)
            if not inner:
                return {('field', base, names)}
            return {('field', o, names) for o in inner}
        return self.origins(body, base, depth, _seen)

    def operand_origins(self, body, o):
        if o['k'] == 'const':
            return {('const', o.get('v'))}
        if o['k'] in ('copy', 'move'):
            return self.place_origins(body, o['pl'])
        return set()


IDENTITY_FNS = (
    'std::future::IntoFuture::into_future', 'std::ops::Deref::deref', 'std::ops::DerefMut::deref_mut',
    'std::convert::Into::into', 'std::convert::From::from', 'std::convert::AsRef::as_ref',
    'std::clone::Clone::clone', 'std::pin::Pin::<Ptr>::new_unchecked', 'std::pin::Pin::<Ptr>::new',
    'std::borrow::Borrow::borrow', 'std::convert::AsMut::as_mut', 'std::boxed::Box::<T>::pin',
    'std::boxed::Box::<T>::new', 'std::option::Option::<T>::as_ref', 'std::option::Option::<T>::as_mut',
    'std::option::Option::<T>::unwrap', 'std::result::Result::<T, E>::unwrap',
    'std::sync::Arc::<T>::clone', 'std::pin::Pin::<Ptr>::as_mut', "std::pin::Pin::<&'a mut T>::get_unchecked_mut",
    'std::convert::TryInto::try_into', 'std::convert::TryFrom::try_from',
    'std::ops::Index::index', 'std::ops::IndexMut::index_mut',
)


TAG_IDENTITY_FNS = (
    'std::iter::IntoIterator::into_iter',
    'std::future::IntoFuture::into_future', 'std::ops::Deref::deref', 'std::ops::DerefMut::deref_mut',
    'std::convert::Into::into', 'std::clone::Clone::clone', 'std::pin::Pin::<Ptr>::new_unchecked',
)


SHAPE_KEEPING_OK = ('std::result::Result::<T, E>::map_err', 'std::result::Result::<T, E>::as_ref')
SHAPE_KEEPING_ERR = ('std::result::Result::<T, E>::map', 'std::result::Result::<T, E>::as_ref')
SHAPE_KEEPING_FNS = (
    'std::option::Option::<T>::map', 'std::option::Option::<T>::as_deref', 'std::option::Option::<T>::as_deref_mut',
    'std::option::Option::<&T>::cloned', 'std::option::Option::<&T>::copied', 'std::option::Option::<T>::zip',
    'std::option::Option::<T>::inspect', 'std::option::Option::<T>::take',
) + tuple(set(SHAPE_KEEPING_OK + SHAPE_KEEPING_ERR))


# combinator -> (variant of the receiver for which the closure runs, result keeps the variant)
CLOSURE_ON_VARIANT = {
    'std::result::Result::<T, E>::map_err': ('err', True),
    'std::result::Result::<T, E>::map': ('ok', True),
    'std::result::Result::<T, E>::inspect_err': ('err', True),
    'std::option::Option::<T>::map': ('some', True),
    'std::option::Option::<T>::ok_or_else': ('none', False),
    'std::option::Option::<T>::unwrap_or_else': ('none', False),
    'std::result::Result::<T, E>::unwrap_or_else': ('err', False),
}


def is_identity_call(t):
    return t.get('fn') in IDENTITY_FNS


def is_tag_identity_call(t):
    fn = t.get('fn') or ''
    return fn in TAG_IDENTITY_FNS or fn.endswith(('slice::<impl [T]>::iter', 'slice::<impl [T]>::iter_mut', 'Vec::<T, A>::as_slice',
                                                  'iter::Iterator::by_ref', 'iter::Iterator::rev'))


# --------------------------------------------------------------------------- tags

def tag_of_operand(o, tags):
    if o['k'] == 'const':
        v = o.get('v')
        t = o.get('t')
        if v is not None:
            return 'int:' + v
        return None
    if o['k'] in ('copy', 'move'):
        return tag_of_place(o['pl'], tags)
    return None


def tag_of_place(pl, tags):
    base = tags.get(pl['l'])
    if base is None:
        return None
    cur = base
    for e in pl['p']:
        if e['k'] == 'downcast':
            continue
        if e['k'] == 'field':
            if cur.startswith('tupn(') and cur.endswith(')'):
                parts = cur[5:-1].split(';')
                cur = parts[e['i']] if e['i'] < len(parts) else ''
                if cur == '':
                    return None
                continue
            # unwrap one constructor layer: ok(X) -> X ; cont(X) -> X ; some(X) -> X
            if '(' in cur and cur.endswith(')') and (e['i'] == 0 or cur.startswith('tup(')):
                cur = cur[cur.index('(') + 1:-1]
                if cur == '':
                    return None
            else:
                return None
        elif e['k'] == 'deref':
            continue
        else:
            return None
    return cur or None


ENUM_VARIANTS = {
    'std::result::Result': {'ok': 0, 'err': 1},
    'std::option::Option': {'none': 0, 'some': 1},
    'std::ops::ControlFlow': {'cont': 0, 'brk': 1},
    'std::task::Poll': {'ready': 0},
}


def head(tag):
    if tag is None:
        return None
    i = tag.find('(')
    return tag if i < 0 else tag[:i]


class Frame:
    __slots__ = ('body', 'ctx', 'argtags', 'chain', 'shapes')

    def __init__(self, body, ctx, argtags, chain, shapes=()):
        self.body = body
        self.ctx = ctx
        self.argtags = argtags
        self.chain = chain
        self.shapes = shapes      # per argument: 'none' | 'some()' | 'T' | 'F' | None

    def where(self, bi):
        return self.body.where(bi)

    def chain_str(self):
        return ' <- '.join(self.chain[-6:][::-1])


class Domain:
    """Client interface.  Tokens must be hashable.  All hooks return a list of
    (token, tag_for_destination_or_None); an empty list kills the path."""
    name = 'domain'
    # merge=True: one token per (block, tags), joined with `join` (classic
    # may-analysis); merge=False: fully disjunctive
    merge = False
    # number of caller frames that are part of the tabulation key (call-string
    # sensitivity); needed when a domain attributes events to callers
    callstring_k = 0

    def initial(self):
        return frozenset()

    def join(self, a, b):
        return a | b

    def argtags(self, ip, fr, tok, tags, term, callee_body):
        return ()

    def on_assign(self, ip, fr, tok, tags, bi, stmt):
        return tok

    def on_leaf_call(self, ip, fr, tok, tags, bi, term, fn):
        return [(tok, None)]

    def on_create(self, ip, fr, tok, tags, bi, term, fn):
        """A call to a local async fn: a future is created, nothing runs."""
        return tok

    def on_leaf_await(self, ip, fr, tok, tags, bi, term, fut):
        return [(tok, None)]

    def on_await_begin(self, ip, fr, tok, tags, bi, term, futs):
        return tok

    def on_await_end(self, ip, fr, tok, tags, bi, term, futs):
        return tok

    def on_enter(self, ip, fr, tok, callee_fr, bi, term):
        return tok

    def on_leave(self, ip, fr, tok_before, tok_exit, exit_tag, callee_body, bi, term):
        return tok_exit

    def on_drop(self, ip, fr, tok, tags, bi, place):
        return tok

    def on_dead(self, ip, fr, tok, tags, bi, local):
        return tok

    def on_return(self, ip, fr, tok, tags, bi):
        return tok

    def intercept(self, ip, fr, tok, tags, bi, term, callee_path):
        """Return a list of (tok, tag) to *replace* the analysis of a crate
        callee by a hand model, or None to analyse its body."""
        return None

    def on_switch(self, ip, fr, tok, tags, bi, term, target):
        """Refine/kill along a switch edge.  Return tok or None (infeasible)."""
        return tok


class Interp:
    def __init__(self, program, domain, max_rounds=12):
        self.p = program
        self.f = program.f
        self.d = domain
        self.summ = {}        # key -> {exit_tag: set(tok)}
        self.in_progress = set()
        self.changed = False
        self.max_rounds = max_rounds
        self.units_seen = set()
        self.stats = {'units': 0, 'steps': 0, 'awaits': 0, 'calls': 0}
        self._csc = {}
        self._site_body = {}
        self._cpc = {}
        self.unresolved = []   # analysis errors (unresolvable awaits)
        self._cur_shapes = ()
        self.visited_sites = set()

    # ------------------------------------------------------------------ entry
    def run(self, body, ctx=(), tok=None, argtags=()):
        if tok is None:
            tok = self.d.initial()
        res = None
        for _ in range(self.max_rounds):
            self.changed = False
            self.round_done = set()
            res = self.analyze(body, ctx, argtags, tok, (short(body.path),))
            if not self.changed:
                return res
        raise AnalysisError('summaries did not stabilise for %s' % body.path)

    # ------------------------------------------------------------------ tabulation
    def static_shapes(self, body, term):
        """Shape of each argument of a call when it is fixed at the call site
        (a literal None / Some(..) / true / false built right there)."""
        if term is None:
            return ()
        out = []
        defs = self.p.defs(body)
        for a in term['args']:
            sh = None
            if a['k'] == 'const' and a.get('v') is not None and self.f.types[a['t']].get('p') == 'bool':
                sh = 'T' if a['v'] != '0' else 'F'
            elif a['k'] in ('copy', 'move') and not a['pl']['p']:
                ds = defs.get(a['pl']['l'], [])
                if len(ds) == 1 and ds[0][0] == 'st':
                    rv = body.blocks[ds[0][1]]['st'][ds[0][2]]['rv']
                    if rv['k'] == 'agg' and rv.get('p') == 'std::option::Option':
                        sh = 'some()' if rv.get('vn') == 'Some' else 'none'
            out.append(sh)
        return tuple(out)

    def analyze(self, body, ctx, argtags, tok, chain, shapes=()):
        k_ = self.d.callstring_k
        cs = tuple(c.split('@')[0] for c in chain[-(k_ + 1):-1]) if k_ else ()
        key = (body.path, ctx, argtags, tok, shapes, cs)
        if key in self.in_progress:
            return self.summ.get(key, {})
        if key in self.round_done:
            return self.summ[key]
        self.in_progress.add(key)
        self.units_seen.add((body.path, ctx))
        self.stats['units'] += 1
        fr = Frame(body, ctx, argtags, chain, shapes)
        exits = {}
        init_tags = ()
        if shapes and not body.is_coroutine:
            # sync fn: argument i is local i+1
            init_tags = tuple(sorted((i + 1, sh) for i, sh in enumerate(shapes) if sh is not None and i < body.argc))
        work = [(0, tok, init_tags)]
        seen = set()
        merged_at = {}
        merge = self.d.merge
        while work:
            bi, t, tags = work.pop()
            if merge:
                mk = (bi, tags)
                old = merged_at.get(mk)
                if old is not None:
                    nt_ = self.d.join(old, t)
                    if nt_ == old:
                        continue
                    t = nt_
                merged_at[mk] = t
            else:
                k = (bi, t, tags)
                if k in seen:
                    continue
                seen.add(k)
            self.stats['steps'] += 1
            for nb, nt, ntags in self.step(fr, bi, t, dict(tags), exits):
                work.append((nb, nt, tuple(sorted(ntags.items()))))
        if merge:
            for k2 in list(exits):
                acc = None
                for v in exits[k2]:
                    acc = v if acc is None else self.d.join(acc, v)
                exits[k2] = {acc}
        old = self.summ.get(key)
        if merge and old is not None:
            newd = dict(old)
            ch = False
            for k2, v in exits.items():
                (nv,) = tuple(v)
                if k2 in newd:
                    (ov,) = tuple(newd[k2])
                    jv = self.d.join(ov, nv)
                    if jv != ov:
                        newd[k2] = {jv}
                        ch = True
                else:
                    newd[k2] = {nv}
                    ch = True
            if ch:
                self.summ[key] = newd
                self.changed = True
        elif old is None or any(not (v <= old.get(k, set())) for k, v in exits.items()):
            merged = dict(old or {})
            for k2, v in exits.items():
                merged[k2] = merged.get(k2, set()) | v
            self.summ[key] = merged
            self.changed = True
        self.in_progress.discard(key)
        self.round_done.add(key)
        return self.summ[key]

    # ------------------------------------------------------------------ one block
    def step(self, fr, bi, tok, tags, exits):
        body = fr.body
        self._cur_shapes = fr.shapes
        bl = body.blocks[bi]
        d = self.d
        for si, s in enumerate(bl['st']):
            if s['k'] == 'assign':
                tok = d.on_assign(self, fr, tok, tags, bi, s)
                if tok is None:
                    return []
                self.assign_tags(body, tags, s)
            elif s['k'] == 'dead':
                tok = d.on_dead(self, fr, tok, tags, bi, s['l'])
                tags.pop(s['l'], None)
        t = bl['term']
        k = t['k']
        if k == 'goto':
            return [(t['t'], tok, tags)]
        if k == 'return':
            tok = d.on_return(self, fr, tok, tags, bi)
            if tok is not None:
                exits.setdefault(tags.get(0), set()).add(tok)
            return []
        if k == 'assert':
            return [(t['t'], tok, tags)]
        if k == 'drop':
            tok = d.on_drop(self, fr, tok, tags, bi, t['pl'])
            if tok is None:
                return []
            if not t['pl']['p']:
                tags.pop(t['pl']['l'], None)
            return [(t['t'], tok, tags)]
        if k == 'switch':
            return self.switch(fr, bi, tok, tags, t)
        if k == 'call':
            return self.call(fr, bi, tok, tags, t)
        return []

    def assign_tags(self, body, tags, s):
        pl = s['pl']
        rv = s['rv']
        if pl['p']:
            # partial write: forget what we knew about the base
            tags.pop(pl['l'], None)
            return
        dst = pl['l']
        k = rv['k']
        new = None
        if k == 'ref' and all(e['k'] == 'deref' for e in rv['pl']['p']):
            new = tags.get(rv['pl']['l'])
        elif k == 'use' and rv['ops'][0]['k'] in ('copy', 'move') and rv['ops'][0]['pl']['l'] == 1 \
                and body.is_coroutine and self._cur_shapes:
            # `_n = _1.<i>`: capture i of an async fn body = argument i
            fs = [e for e in rv['ops'][0]['pl']['p'] if e['k'] == 'field']
            if len(fs) == 1 and fs[0]['i'] < len(self._cur_shapes):
                new = self._cur_shapes[fs[0]['i']]
        elif k == 'use':
            new = tag_of_operand(rv['ops'][0], tags)
            o = rv['ops'][0]
            if o['k'] == 'const' and o.get('v') is not None:
                tt = self.f.types[o['t']]
                if tt.get('p') == 'bool':
                    new = 'T' if o['v'] != '0' else 'F'
        elif k == 'agg' and rv.get('ak') == 'tuple' and len(rv['ops']) >= 2:
            # a tuple of values whose tags are known (constants chosen per branch and carried together)
            parts = [tag_of_operand(o, tags) or '' for o in rv['ops']]
            if any(parts) and not any(';' in x or '(' in x for x in parts):
                new = 'tupn(%s)' % ';'.join(parts)
        elif k == 'agg' and rv.get('ak') == 'adt':
            p = rv.get('p')
            vn = rv.get('vn')
            if p == 'std::result::Result':
                if vn == 'Ok':
                    inner = tag_of_operand(rv['ops'][0], tags) if rv['ops'] else None
                    if inner is not None and inner.startswith('int:'):
                        tt = self.f.types[rv['ops'][0]['t']] if rv['ops'][0]['k'] == 'const' else None
                        if tt is not None and tt.get('p') == 'bool':
                            inner = 'T' if inner != 'int:0' else 'F'
                        else:
                            inner = None
                    new = 'ok(%s)' % (inner or '')
                else:
                    new = 'err'
            elif p == 'std::option::Option':
                new = 'some()' if vn == 'Some' else 'none'
            elif p == 'std::task::Poll' and vn == 'Ready':
                new = 'ready(%s)' % ((tag_of_operand(rv['ops'][0], tags) if rv['ops'] else None) or '')
        elif k == 'discr':
            base = tags.get(rv['pl']['l']) if not [e for e in rv['pl']['p'] if e['k'] not in ('deref',)] else tag_of_place(rv['pl'], tags)
            if base is not None:
                ty = body.facts.types[body.locals[rv['pl']['l']]]
                # follow projections for the type is overkill: use the tag head
                h = head(base)
                for enum, vs in ENUM_VARIANTS.items():
                    if h in vs:
                        new = 'int:%d' % vs[h]
        elif k == 'bin':
            op = rv.get('op', '')
            ta = tag_of_operand(rv['ops'][0], tags)
            tb = tag_of_operand(rv['ops'][1], tags)

            def sign(t):
                if t == 'nz':
                    return 'nz'
                if t is not None and t.startswith('int:'):
                    return 'z' if t == 'int:0' else 'nz'
                return None
            sa, sb = sign(ta), sign(tb)
            if op in ('Add', 'AddWithOverflow', 'AddUnchecked'):
                # unsigned counters: x + positive is non-zero
                r = None
                if sa == 'nz' and sb in ('z', 'nz'):
                    r = 'nz'
                elif sb == 'nz' and sa in ('z', 'nz'):
                    r = 'nz'
                elif sa == 'z' and sb == 'z':
                    r = 'int:0'
                if r is not None and self._unsigned(body, rv['ops'][0]):
                    new = ('tup(%s)' % r) if op == 'AddWithOverflow' else r
            elif op in ('Gt', 'Ne') and sb == 'z' and sa is not None:
                new = 'T' if sa == 'nz' else 'F'
            elif op == 'Lt' and sa == 'z' and sb is not None:
                new = 'T' if sb == 'nz' else 'F'
            elif op == 'Eq' and sb == 'z' and sa is not None:
                new = 'F' if sa == 'nz' else 'T'
        elif k == 'un' and rv.get('op') == 'Not':
            tg = tag_of_operand(rv['ops'][0], tags)
            if tg == 'T':
                new = 'F'
            elif tg == 'F':
                new = 'T'
        if new is None:
            tags.pop(dst, None)
        else:
            tags[dst] = new

    def _unsigned(self, body, o):
        tid = o.get('t') if o['k'] == 'const' else None
        if o['k'] in ('copy', 'move'):
            pl = o['pl']
            if pl['p']:
                last = [e for e in pl['p'] if e['k'] == 'field']
                tid = last[-1]['t'] if last else None
            else:
                tid = body.locals[pl['l']]
        if tid is None:
            return False
        return self.f.types[tid].get('p') in ('usize', 'u64', 'u32', 'u16', 'u8', 'u128')

    def switch(self, fr, bi, tok, tags, t):
        tg = tag_of_operand(t['d'], tags)
        val = None
        if tg is not None:
            if tg.startswith('int:'):
                val = int(tg[4:])
            elif tg == 'T':
                val = 1
            elif tg == 'F':
                val = 0
        outs = []
        if val is not None:
            tgt = t['o']
            for x in t['ts']:
                if int(x['v']) == val:
                    tgt = x['t']
                    break
            cands = [tgt]
        else:
            cands = []
            for x in t['ts']:
                if x['t'] not in cands:
                    cands.append(x['t'])
            if t['o'] not in cands:
                cands.append(t['o'])
        # refine bool locals along the edges when unknown
        dl = t['d']['pl']['l'] if t['d']['k'] in ('copy', 'move') and not t['d']['pl']['p'] else None
        for c in cands:
            ntok = self.d.on_switch(self, fr, tok, tags, bi, t, c)
            if ntok is None:
                continue
            ntags = dict(tags)
            if dl is not None and val is None:
                ty = fr.body.ty(dl)
                if ty.get('p') == 'bool' and len(t['ts']) == 1 and t['ts'][0]['v'] == '0':
                    ntags[dl] = 'F' if c == t['ts'][0]['t'] and c != t['o'] else 'T'
            outs.append((c, ntok, ntags))
        return outs

    # ------------------------------------------------------------------ calls
    def resolve_callee(self, fr, t):
        """Def path of the crate body a call terminator enters, or None."""
        fn = t.get('fn')
        if fn is None:
            return None
        if 'trait' in t:
            targs = t.get('a', [])
            if not targs:
                return None
            self_t = self.p.subst(targs[0], fr.ctx)
            st = self.f.types[self_t] if self_t is not None and self_t >= 0 else None
            if st is not None and st['k'] == 'ref':
                self_t = self.p.subst(st['t'], fr.ctx)
                st = self.f.types[self_t]
            # closures: Fn/FnMut/FnOnce::call*
            if t['trait'] in ('std::ops::Fn', 'std::ops::FnMut', 'std::ops::FnOnce') and st is not None:
                if st['k'] == 'closure' and self.f.body(st['p']) is not None:
                    return st['p']
                return None
            r = self.f.resolve_trait_method(t['trait'], t['name'], self_t)
            if r is not None and self.f.body(r) is not None:
                return r
            return None
        if self.f.body(fn) is not None:
            return fn
        return None

    def call(self, fr, bi, tok, tags, t):
        body = fr.body
        d = self.d
        fn = t.get('fn')
        dst = t['dst']['l'] if not t['dst']['p'] else None
        nxt = t['t']
        self.stats['calls'] += 1

        def finish(results):
            outs = []
            if nxt < 0:
                return outs
            for (ntok, tag) in results:
                if ntok is None:
                    continue
                ntags = dict(tags)
                if dst is not None:
                    if tag is None:
                        ntags.pop(dst, None)
                    else:
                        ntags[dst] = tag
                else:
                    ntags.pop(t['dst']['l'], None)
                outs.append((nxt, ntok, ntags))
            return outs

        if fn in POLL_NAMES:
            # the destination is Poll<Output>; the tag describes Output
            return finish([(nt, 'ready(%s)' % (tg or '')) for (nt, tg) in self.await_(fr, bi, tok, tags, t)])

        # framework-level tag plumbing for the `?` desugaring and friends
        if fn == 'std::ops::Try::branch':
            tg = tag_of_operand(t['args'][0], tags)
            new = None
            h = head(tg)
            if h == 'ok':
                new = 'cont' + tg[2:]
            elif h == 'err':
                new = 'brk'
            elif h == 'some':
                new = 'cont' + tg[4:]
            elif h == 'none':
                new = 'brk'
            return finish([(tok, new)])
        if fn == 'std::ops::FromResidual::from_residual':
            rt = self.f.types[t['a'][0]] if t.get('a') else None
            new = None
            if rt is not None and rt.get('p') == 'std::result::Result':
                new = 'err'
            elif rt is not None and rt.get('p') == 'std::option::Option':
                new = 'none'
            return finish([(tok, new)])
        if fn in ('std::option::Option::<T>::is_some', 'std::option::Option::<T>::is_none',
                  'std::result::Result::<T, E>::is_ok', 'std::result::Result::<T, E>::is_err') and t['args']:
            h = head(tag_of_operand(t['args'][0], tags))
            pos = {'is_some': 'some', 'is_none': 'none', 'is_ok': 'ok', 'is_err': 'err'}[fn.split('::')[-1]]
            neg = {'some': 'none', 'none': 'some', 'ok': 'err', 'err': 'ok'}[pos]
            new = 'T' if h == pos else ('F' if h == neg else None)
            return finish([(x, new) for (x, _tg) in d.on_leaf_call(self, fr, tok, tags, bi, t, fn)])
        if fn == 'std::iter::Iterator::next' and t['args']:
            tg = tag_of_operand(t['args'][0], tags)
            if tg is not None and tg.startswith('vec('):
                inner = tg[4:-1]
                res = d.on_leaf_call(self, fr, tok, tags, bi, t, fn)
                outs_ = []
                for (x, _tg) in res:
                    outs_.append((x, 'some(%s)' % inner))
                    if inner == 'err':
                        # at least one element is Err: the iteration meets it before it ends
                        outs_.append((x, 'some(ok())'))
                    else:
                        outs_.append((x, 'none'))
                return finish(outs_)
        if fn in ('std::iter::Iterator::find', 'std::iter::Iterator::any', 'std::iter::Iterator::all') and len(t['args']) == 2:
            # a search for the first Err / Ok of a collection of results with a closure that is just is_err() / is_ok()
            tg = tag_of_operand(t['args'][0], tags)
            pred = self._result_predicate(fr.body, t['args'][1])
            if tg is not None and tg.startswith('vec(') and pred is not None:
                inner = tg[4:-1]
                has_err = head(inner) == 'err'
                hit = has_err if pred == 'is_err' else True       # is_ok: some element may be Ok in either case
                res = d.on_leaf_call(self, fr, tok, tags, bi, t, fn)
                name = fn.split('::')[-1]
                outs_ = []
                for (x, _tg) in res:
                    if name == 'find':
                        if pred == 'is_err':
                            outs_.append((x, 'some(err)' if has_err else 'none'))
                        else:
                            outs_.append((x, 'some(ok())'))
                            outs_.append((x, 'none'))
                    elif name == 'any':
                        if pred == 'is_err':
                            outs_.append((x, 'T' if has_err else 'F'))
                        else:
                            outs_ += [(x, 'T'), (x, 'F')]
                    else:
                        if pred == 'is_ok':
                            outs_.append((x, 'F' if has_err else 'T'))
                        else:
                            outs_ += [(x, 'T'), (x, 'F')]
                return finish(outs_)
        if is_tag_identity_call(t) and t['args']:
            tg = tag_of_operand(t['args'][0], tags)
            res = d.on_leaf_call(self, fr, tok, tags, bi, t, fn)
            return finish([(x, tg if tag is None else tag) for (x, tag) in res])
        if fn in CLOSURE_ON_VARIANT and len(t['args']) == 2:
            # a combinator that runs its closure for one variant of the receiver (`res.map_err(|e| { ..; e })?`): the
            # effects of the closure happen on that variant only
            run_on, keeps = CLOSURE_ON_VARIANT[fn]
            h = head(tag_of_operand(t['args'][0], tags))
            cb_ = self._closure_body(fr.body, t['args'][1])
            if cb_ is not None and h in ('ok', 'err', 'some', 'none'):
                keep = {'none': 'none', 'some': 'some()', 'ok': 'ok()', 'err': 'err'}[h] if keeps else None
                if h == run_on:
                    t2 = dict(t)
                    t2['args'] = [t['args'][1]]
                    outs_ = self.enter(fr, bi, tok, tags, t2, cb_, (), [t['args'][1]])
                    return finish([(x, keep) for (x, _tg) in outs_])
                # the closure does not run: the receiver passes through unchanged
                return finish([(tok, tag_of_operand(t['args'][0], tags) if keeps else None)])
        if fn in SHAPE_KEEPING_FNS and t['args']:
            # Option/Result combinators that keep the variant: None stays None, Some(..) stays Some(..)
            h = head(tag_of_operand(t['args'][0], tags))
            keep = {'none': 'none', 'some': 'some()', 'ok': 'ok()' if fn in SHAPE_KEEPING_OK else None,
                    'err': 'err' if fn in SHAPE_KEEPING_ERR else None}.get(h)
            res = d.on_leaf_call(self, fr, tok, tags, bi, t, fn)
            return finish([(x, keep if tag is None else tag) for (x, tag) in res])

        callee = self.resolve_callee(fr, t)
        if callee is not None:
            cb = self.f.body(callee)
            hand = d.intercept(self, fr, tok, tags, bi, t, callee)
            if hand is not None:
                return finish(hand)
            if cb.is_async_fn or self.f.coroutines_of(callee) and self.returns_future(cb):
                ntok = d.on_create(self, fr, tok, tags, bi, t, callee)
                return finish([(ntok, None)])
            return finish(self.enter(fr, bi, tok, tags, t, cb, t.get('a', []), [a for a in t['args']]))
        return finish(d.on_leaf_call(self, fr, tok, tags, bi, t, fn))

    def returns_future(self, cb):
        rt = self.f.types[cb.locals[0]]
        if rt['k'] == 'opaque':
            return True
        return self.f.type_contains(cb.locals[0], lambda x: x['k'] == 'dyn' and x.get('p', '').endswith('Future'))

    def enter(self, fr, bi, tok, tags, t, cb, targs, args):
        d = self.d
        ctx = self.p.bind(cb, targs, fr.ctx)
        if cb.kind == 'Closure':
            # closures see the generic context of their defining function
            ctx = tuple(sorted(set(ctx) | set(fr.ctx)))
        at = d.argtags(self, fr, tok, tags, t, cb)
        chain = fr.chain + ('%s@%s' % (short(cb.path), fr.where(bi)),)
        st = self.static_shapes(fr.body, t)
        shapes = tuple((tag_of_operand(a, tags) if a['k'] != 'const' else None) or (st[i] if i < len(st) else None)
                       for i, a in enumerate(t['args']))
        shapes = tuple(x if x in ('T', 'F', 'none', 'some()') else None for x in shapes)
        cfr = Frame(cb, ctx, at, chain, shapes)
        itok = d.on_enter(self, fr, tok, cfr, bi, t)
        if itok is None:
            return []
        summ = self.analyze(cb, ctx, at, itok, chain, shapes)
        outs = []
        for etag, toks in summ.items():
            for et in toks:
                nt = d.on_leave(self, fr, tok, et, etag, cb, bi, t)
                if nt is not None:
                    outs.append((nt, etag))
        return outs

    # ------------------------------------------------------------------ awaits
    def creation_sites(self, body, fn_path):
        """Call terminators that create a future of fn_path in this body - or, when the body has none, in a
        closure defined inside it (futures built by `iter().map(|x| self.f(x)).collect()` and then joined)"""
        k = (body.path, fn_path)
        c = self._csc.get(k)
        if c is None:
            c = [(bi, t) for bi, t in body.calls() if t.get('fn') == fn_path]
            if not c:
                pres = [body.path + '::{closure']
                for (cp_, hp_) in getattr(self.f, 'folded', []):
                    if cp_ == body.path:
                        pres.append(hp_ + '::{closure')
                pres = tuple(pres)
                for cb in self.f.body_list:
                    if cb.path.startswith(pres) and not cb.is_coroutine:
                        for bi, t in cb.calls():
                            if t.get('fn') == fn_path:
                                c.append((bi, t))
                                self._site_body[id(t)] = cb
            self._csc[k] = c
        return c

    def _closure_body(self, body, operand):
        if operand['k'] not in ('copy', 'move') or operand['pl']['p']:
            return None
        ty = self.f.types[body.locals[operand['pl']['l']]]
        if ty.get('k') == 'ref':
            ty = self.f.types[ty['t']]
        cp = ty.get('p') if ty.get('k') == 'closure' else None
        return self.f.body(cp) if cp else None

    def _result_predicate(self, body, operand):
        """'is_err' / 'is_ok' when the closure operand only tests its argument with Result::is_err / is_ok"""
        if operand['k'] not in ('copy', 'move'):
            return None
        ty = self.f.types[body.locals[operand['pl']['l']]]
        cp = ty.get('p') if ty.get('k') == 'closure' else None
        cb = self.f.body(cp) if cp else None
        if cb is None:
            return None
        names = [(t.get('fn') or '').split('::')[-1] for _bi, t in cb.calls()]
        names = [n for n in names if n not in ('deref', 'as_ref')]
        if names == ['is_err'] or names == ['is_ok']:
            return names[0]
        return None

    def site_frame(self, fr, term):
        """the frame in which the operands of a creation site are to be read (a closure of fr.body: a frame of
        that closure with the generic context of fr)"""
        cb = self._site_body.get(id(term)) if term is not None else None
        if cb is None:
            return fr
        return Frame(cb, fr.ctx, (), fr.chain, ())

    def creation_of_poll(self, fr, t, fn_path):
        """The call terminator that created the future polled by `t` (through
        into_future / Pin::new_unchecked), or None if it is not unique."""
        ck = (fr.body.path, id(t), fn_path)
        if ck in self._cpc:
            return self._cpc[ck]
        a0 = t['args'][0]
        found = []
        if a0['k'] in ('copy', 'move'):
            for r in self.p.place_origins(fr.body, a0['pl']):
                if r[0] == 'call':
                    ct = fr.body.blocks[r[1]]['term']
                    if ct.get('fn') == fn_path:
                        found.append((r[1], ct))
        res = None
        if len(found) == 1:
            res = found[0]
        else:
            sites = self.creation_sites(fr.body, fn_path)
            if len(sites) == 1:
                res = sites[0]
        self._cpc[ck] = res
        return res

    def await_(self, fr, bi, tok, tags, t):
        body = fr.body
        d = self.d
        self.stats['awaits'] += 1
        ft = t['a'][0]
        futs = self.p.futs(ft, fr.ctx)
        # dyn futures: resolve through the def chain to the function that built them
        resolved = []
        for fu in futs:
            if fu.kind == 'dyn':
                r = self.resolve_dyn(fr, bi, t)
                if r is None:
                    self.unresolved.append('%s: await of dyn Future not resolvable (%s)' % (fr.where(bi), body.path))
                    continue
                resolved += r
            elif fu.kind == 'param':
                self.unresolved.append('%s: await of a type parameter future %s (%s)' % (fr.where(bi), fu.path, body.path))
            else:
                resolved.append(fu)
        futs = resolved
        tok = d.on_await_begin(self, fr, tok, tags, bi, t, futs)
        if tok is None:
            return []
        concurrent = len(futs) > 1 or self.is_multi(ft, fr.ctx)
        if not concurrent:
            res = self.one_fut(fr, bi, tok, tags, t, futs[0]) if futs else [(tok, None)]
        else:
            # unordered group: every constituent runs with the effects of all
            # the others possibly already applied
            acc = tok
            acc_ok = tok
            etags = set()
            for _ in range(8):
                before = (acc, acc_ok)
                for fu in futs:
                    for (nt, _tag) in self.one_fut(fr, bi, acc, tags, t, fu):
                        acc = d.join(acc, nt)
                        etags.add(_tag)
                    for (nt, _tag) in self.one_fut(fr, bi, acc_ok, tags, t, fu):
                        if _tag is not None and head(_tag) == 'ok':
                            acc_ok = d.join(acc_ok, nt)
                if (acc, acc_ok) == before:
                    break
            multi = self.is_multi(ft, fr.ctx)
            wrap = 'vec(%s)' if multi else 'tup(%s)'
            if etags and all(x is not None and head(x) == 'ok' for x in etags):
                # every constituent returns Ok: the collected results are all Ok
                res = [(acc, wrap % 'ok()')]
            elif etags and all(x is not None and head(x) in ('ok', 'err') for x in etags):
                # either all constituents returned Ok, or at least one returned Err
                res = [(acc_ok, wrap % 'ok()'), (acc, wrap % 'err')]
            else:
                res = [(acc, None)]
        outs = []
        for (nt, tag) in res:
            nt = d.on_await_end(self, fr, nt, tags, bi, t, futs)
            if nt is not None:
                outs.append((nt, tag))
        return outs

    def is_multi(self, tid, ctx):
        """JoinAll / FuturesUnordered hold many instances of one future type."""
        return self.f.type_contains(self.p.subst(tid, ctx), lambda x: x['k'] == 'adt' and x['p'] in (
            'futures::future::JoinAll', 'futures::stream::FuturesUnordered', 'futures::stream::FuturesOrdered',
            'futures::future::TryJoinAll'))

    def resolve_dyn(self, fr, bi, t):
        """poll(&mut a) <- a = into_future(move tmp) <- tmp = Call(FnDef f)."""
        body = fr.body
        out = []
        a0 = t['args'][0]
        if a0['k'] not in ('copy', 'move'):
            return None
        roots = self.p.place_origins(body, a0['pl'])
        for r in roots:
            if r[0] == 'call':
                ct = body.blocks[r[1]]['term']
                callee = self.resolve_callee(fr, ct)
                if callee is None:
                    return None
                cos = self.f.coroutines_of(callee)
                if not cos:
                    return None
                cb = self.f.body(callee)
                ctx_args = ct.get('a', [])
                for c in cos:
                    out.append(Fut('async_fn', callee, [self.p.subst(a, fr.ctx) for a in ctx_args]))
            else:
                return None
        return out or None

    def one_fut(self, fr, bi, tok, tags, t, fu):
        d = self.d
        if fu.kind in ('async_fn', 'coroutine'):
            if fu.kind == 'async_fn':
                fnb = self.f.body(fu.path)
                cos = self.f.coroutines_of(fu.path)
                if not cos:
                    return d.on_leaf_await(self, fr, tok, tags, bi, t, fu)
                cb = self.f.body(cos[0])
                hand = d.intercept(self, fr, tok, tags, bi, t, fu.path)
                if hand is not None:
                    return hand
                # argument tags come from the creation site(s) in this body
                sites = self.creation_sites(fr.body, fu.path)
                one = self.creation_of_poll(fr, t, fu.path)
                term = one[1] if one is not None else None
                ctx = self.p.bind(fnb, fu.targs, ())
                sfr = self.site_frame(fr, term)
                at = d.argtags(self, sfr, tok, tags if sfr is fr else {}, term, fnb) if term is not None else ()
                if term is None and sites:
                    # several creation sites of one async fn in this body: keep
                    # the analysis sound by exploring each
                    outs = []
                    for (_sb, st_) in sites:
                        sfr = self.site_frame(fr, st_)
                        at = d.argtags(self, sfr, tok, tags if sfr is fr else {}, st_, fnb)
                        outs += self._enter_co(fr, bi, tok, t, cb, ctx, at, fu, self.static_shapes(sfr.body, st_))
                    return outs
                return self._enter_co(fr, bi, tok, t, cb, ctx, at, fu, self.static_shapes(sfr.body, term))
            cb = self.f.body(fu.path)
            if cb is None:
                return d.on_leaf_await(self, fr, tok, tags, bi, t, fu)
            ctx = tuple(sorted(set(self.p.bind(cb, fu.targs, ())) | set(fr.ctx)))
            return self._enter_co(fr, bi, tok, t, cb, ctx, (), fu)
        return d.on_leaf_await(self, fr, tok, tags, bi, t, fu)

    def _enter_co(self, fr, bi, tok, t, cb, ctx, at, fu, shapes=()):
        d = self.d
        chain = fr.chain + ('%s@%s' % (short(fu.path), fr.where(bi)),)
        cfr = Frame(cb, ctx, at, chain, shapes)
        itok = d.on_enter(self, fr, tok, cfr, bi, t)
        if itok is None:
            return []
        summ = self.analyze(cb, ctx, at, itok, chain, shapes)
        outs = []
        for etag, toks in summ.items():
            for et in toks:
                nt = d.on_leave(self, fr, tok, et, etag, cb, bi, t)
                if nt is not None:
                    outs.append((nt, etag))
        return outs


def short(path):
    """`dev::cache::<impl dev::Qcow2Dev<T>>::flush_meta::{closure#0}` -> `flush_meta`."""
    p = path
    while p.endswith('}'):
        i = p.rfind('::{')
        if i < 0:
            break
        p = p[:i]
    i = p.rfind('>::')
    if i >= 0:
        return p[i + 3:]
    return p.split('::')[-1] if '::' in p else p

"""Engine H: bit-provenance abstract interpretation of small pure functions.

Abstract values
  C(width, int)            concrete integer / bool
  S(bits)                  bit vector, LSB first; each bit is '0', '1' or a label
                           naming an input bit ("e17" = bit 17 of the entry,
                           "B3.5" = bit 5 of byte 3 of the refcount buffer)
  T                        unknown (anything outside the domain: the rule that asked
                           reports "not decided", never a violation)
  Tup([...]) / Adt(path, variant, [...]) / Bytes({index: S}) / Arr([S...])

Integer arithmetic is exact on concrete values and bit-wise on vectors for
`& | ^ ! << >>` by concrete amounts, casts, byte swaps; everything else on a
vector is T.  A switch on a non-concrete value takes the non-panicking branch
when the other one only diverges (debug assertions); otherwise evaluation stops
with Undecided.
"""


class Undecided(Exception):
    pass


class Captured(Exception):
    """Raised when the evaluator reaches the call it was asked to capture."""

    def __init__(self, args):
        Exception.__init__(self, 'captured')
        self.args_ = args


class C:
    __slots__ = ('w', 'v')

    def __init__(self, w, v):
        self.w = w
        self.v = v & ((1 << w) - 1) if w else v

    def __repr__(self):
        return 'C%d(%#x)' % (self.w, self.v)


class S:
    __slots__ = ('bits',)

    def __init__(self, bits):
        self.bits = list(bits)

    @property
    def w(self):
        return len(self.bits)

    def __repr__(self):
        return 'S[%s]' % ','.join(reversed(self.bits))


class Tv:
    def __repr__(self):
        return 'T'


T = Tv()


class Tup:
    def __init__(self, xs):
        self.xs = list(xs)

    def __repr__(self):
        return 'Tup%r' % (self.xs,)


class Adt:
    def __init__(self, path, variant, xs, vname=''):
        self.path = path
        self.variant = variant
        self.xs = list(xs)
        self.vname = vname

    def __repr__(self):
        return '%s::%s%r' % (self.path.split('::')[-1], self.vname or self.variant, self.xs)


class Bytes:
    """A byte buffer with symbolic content; bytes are created on demand."""

    def __init__(self, prefix='B'):
        self.prefix = prefix
        self.mem = {}

    def get(self, i):
        if i not in self.mem:
            self.mem[i] = S(['%s%d.%d' % (self.prefix, i, j) for j in range(8)])
        return self.mem[i]

    def set(self, i, v):
        self.mem[i] = v


class Arr:
    def __init__(self, xs):
        self.xs = list(xs)


INT_W = {'u8': 8, 'u16': 16, 'u32': 32, 'u64': 64, 'usize': 64, 'u128': 128,
         'i8': 8, 'i16': 16, 'i32': 32, 'i64': 64, 'isize': 64, 'i128': 128, 'bool': 1}


def sym(prefix, w):
    return S(['%s%d' % (prefix, i) for i in range(w)])


def to_bits(x, w=None):
    if isinstance(x, C):
        ww = w or x.w
        return [('1' if (x.v >> i) & 1 else '0') for i in range(ww)]
    if isinstance(x, S):
        b = list(x.bits)
        if w is not None:
            b = (b + ['0'] * w)[:w]
        return b
    raise Undecided('not an integer value: %r' % (x,))


def norm(bits):
    """Vector with only constant bits becomes concrete."""
    if all(b in ('0', '1') for b in bits):
        v = 0
        for i, b in enumerate(bits):
            if b == '1':
                v |= 1 << i
        return C(len(bits), v)
    return S(bits)


def band(a, b):
    if a == '0' or b == '0':
        return '0'
    if a == '1':
        return b
    if b == '1':
        return a
    if a == b:
        return a
    return '?'


def bor(a, b):
    if a == '1' or b == '1':
        return '1'
    if a == '0':
        return b
    if b == '0':
        return a
    if a == b:
        return a
    return '?'


def bxor(a, b):
    if a == '0':
        return b
    if b == '0':
        return a
    if a in ('0', '1') and b in ('0', '1'):
        return '1' if a != b else '0'
    return '?'


class Evaluator:
    def __init__(self, facts, max_depth=8, max_steps=4000):
        self.capture = None       # method name whose call is captured (arguments returned via Captured)
        self.f = facts
        self.max_depth = max_depth
        self.max_steps = max_steps
        self.steps = 0

    # ------------------------------------------------------------------ types
    def width_of(self, tid):
        t = self.f.types[tid]
        if t['k'] == 'prim':
            return INT_W.get(t['p'])
        return None

    # ------------------------------------------------------------------ entry
    def call(self, path, args, depth=0, ctx_self=None):
        body = self.f.body(path)
        if body is None:
            raise Undecided('no body for %s' % path)
        if depth > self.max_depth:
            raise Undecided('call depth')
        env = {}
        for i, a in enumerate(args):
            env[i + 1] = a
        bi = 0
        while True:
            self.steps += 1
            if self.steps > self.max_steps:
                raise Undecided('step budget')
            bl = body.blocks[bi]
            for s in bl['st']:
                if s['k'] == 'assign':
                    v = self.rvalue(body, env, s['rv'])
                    self.store(body, env, s['pl'], v)
            t = bl['term']
            k = t['k']
            if k == 'goto':
                bi = t['t']
            elif k == 'return':
                return env.get(0, Tup([]))
            elif k == 'assert':
                bi = t['t']
            elif k == 'drop':
                bi = t['t']
            elif k == 'switch':
                bi = self.switch(body, env, t)
            elif k == 'call':
                v = self.do_call(body, env, t, depth)
                if t['t'] < 0:
                    raise Undecided('diverging call %s' % t.get('fn'))
                self.store(body, env, t['dst'], v)
                bi = t['t']
            else:
                raise Undecided('terminator %s' % k)

    # ------------------------------------------------------------------ places
    def load(self, body, env, pl):
        if pl['l'] not in env:
            raise Undecided('read of undefined local _%d in %s' % (pl['l'], body.path))
        v = env[pl['l']]
        for e in pl['p']:
            k = e['k']
            if k == 'deref':
                continue
            if k == 'field':
                if isinstance(v, Tup):
                    v = v.xs[e['i']]
                elif isinstance(v, Adt):
                    v = v.xs[e['i']]
                elif isinstance(v, (C, S)) and e['i'] == 0:
                    # newtype wrapper (L2Entry(u64)) kept unwrapped
                    pass
                else:
                    raise Undecided('field of %r' % (v,))
            elif k == 'downcast':
                if isinstance(v, Adt) and v.variant != e['v']:
                    raise Undecided('downcast mismatch')
            elif k == 'index':
                idx = env.get(e['l'])
                if not isinstance(idx, C):
                    raise Undecided('symbolic index')
                if isinstance(v, Bytes):
                    v = v.get(idx.v)
                elif isinstance(v, Arr):
                    v = v.xs[idx.v]
                else:
                    raise Undecided('index of %r' % (v,))
            else:
                raise Undecided('projection %s' % k)
        return v

    def store(self, body, env, pl, v):
        if not pl['p']:
            env[pl['l']] = v
            return
        # stores through projections: byte buffers and tuple/adt fields
        base = env.get(pl['l'])
        projs = [e for e in pl['p'] if e['k'] != 'deref']
        if len(projs) == 1 and projs[0]['k'] == 'index' and isinstance(base, Bytes):
            idx = env.get(projs[0]['l'])
            if not isinstance(idx, C):
                raise Undecided('symbolic index store')
            base.set(idx.v, v)
            return
        if len(projs) == 1 and projs[0]['k'] == 'field' and isinstance(base, (Tup, Adt)):
            base.xs[projs[0]['i']] = v
            return
        if not projs:
            # *ptr = value: array reference (`*array = value.to_be_bytes()`)
            if isinstance(base, Arr) and isinstance(v, Arr):
                base.xs[:] = v.xs
                return
            if isinstance(base, ArrView) and isinstance(v, Arr):
                for i, x in enumerate(v.xs):
                    base.buf.set(base.start + i, x)
                return
        raise Undecided('store through %s' % [e['k'] for e in pl['p']])

    # ------------------------------------------------------------------ operands
    def operand(self, body, env, o):
        if o['k'] == 'const':
            w = self.width_of(o['t'])
            if 'v' in o and w:
                return C(w, int(o['v']))
            t = self.f.types[o['t']]
            if t['k'] == 'tuple' and not t['a']:
                return Tup([])
            return T
        if o['k'] in ('copy', 'move'):
            return self.load(body, env, o['pl'])
        return T

    def rvalue(self, body, env, rv):
        k = rv['k']
        if k == 'use':
            return self.operand(body, env, rv['ops'][0])
        if k in ('ref', 'rawptr'):
            return self.load(body, env, rv['pl'])
        if k == 'cast':
            v = self.operand(body, env, rv['ops'][0])
            w = self.width_of(rv['t'])
            if w is None or v is T:
                return v
            if isinstance(v, (C, S)):
                return norm(to_bits(v, w))
            return v
        if k == 'bin':
            a = self.operand(body, env, rv['ops'][0])
            b = self.operand(body, env, rv['ops'][1])
            return self.binop(rv['op'], a, b)
        if k == 'un':
            a = self.operand(body, env, rv['ops'][0])
            if rv['op'] == 'Not':
                if isinstance(a, C):
                    return C(a.w, ~a.v)
                if isinstance(a, S):
                    return norm([{'0': '1', '1': '0'}.get(x, '~' + x) for x in a.bits])
            if rv['op'] == 'PtrMetadata':
                return T
            return T
        if k == 'discr':
            v = self.load(body, env, rv['pl'])
            if isinstance(v, Adt):
                return C(64, v.variant)
            raise Undecided('discriminant of %r' % (v,))
        if k == 'agg':
            ops = [self.operand(body, env, o) for o in rv['ops']]
            if rv.get('ak') == 'tuple':
                return Tup(ops)
            if rv.get('ak') == 'adt':
                adt = self.f.adts.get(rv['p'])
                # newtype structs over an integer stay unwrapped
                if adt and adt['kind'] == 'Struct' and len(ops) == 1 and isinstance(ops[0], (C, S, Tv)):
                    return ops[0]
                return Adt(rv['p'], rv['v'], ops, rv.get('vn', ''))
            if rv.get('ak') == 'array':
                return Arr(ops)
            return T
        return T

    def binop(self, op, a, b):
        wo = op.endswith('WithOverflow')
        base = op.replace('WithOverflow', '').replace('Unchecked', '')
        r = self._bin(base, a, b)
        if wo:
            return Tup([r, C(1, 0)])
        return r

    def _bin(self, op, a, b):
        if a is T or b is T:
            if op in ('BitAnd',):
                # x & 0 is 0 even if x is unknown
                for x in (a, b):
                    if isinstance(x, C) and x.v == 0:
                        return C(x.w, 0)
            return T
        if op in ('BitAnd', 'BitOr', 'BitXor'):
            w = max(getattr(a, 'w', 0), getattr(b, 'w', 0))
            ab, bb = to_bits(a, w), to_bits(b, w)
            fn = {'BitAnd': band, 'BitOr': bor, 'BitXor': bxor}[op]
            return norm([fn(x, y) for x, y in zip(ab, bb)])
        if op in ('Shl', 'Shr'):
            if not isinstance(b, C):
                return T
            n = b.v
            w = a.w
            bits = to_bits(a)
            if op == 'Shl':
                bits = (['0'] * n + bits)[:w]
            else:
                bits = (bits[n:] + ['0'] * n)[:w]
            return norm(bits)
        if isinstance(a, C) and isinstance(b, C):
            w = a.w
            if op == 'Add':
                return C(w, a.v + b.v)
            if op == 'Sub':
                return C(w, a.v - b.v)
            if op == 'Mul':
                return C(w, a.v * b.v)
            if op == 'Div':
                return C(w, a.v // b.v) if b.v else T
            if op == 'Rem':
                return C(w, a.v % b.v) if b.v else T
            cmpf = {'Eq': a.v == b.v, 'Ne': a.v != b.v, 'Lt': a.v < b.v, 'Le': a.v <= b.v,
                    'Gt': a.v > b.v, 'Ge': a.v >= b.v}
            if op in cmpf:
                return C(1, 1 if cmpf[op] else 0)
            return T
        if op in ('Sub', 'Add', 'BitOr', 'BitXor', 'Shl', 'Shr') and isinstance(b, C) and b.v == 0 and isinstance(a, (S, C)):
            return a
        # addition of vectors that are never both non-zero at the same position: no carry, the sum is the bitwise or
        if op == 'Add' and isinstance(a, (S, C)) and isinstance(b, (S, C)):
            w = max(a.w, b.w)
            ab, bb = to_bits(a, w), to_bits(b, w)
            if all(x == '0' or y == '0' for x, y in zip(ab, bb)):
                return norm([y if x == '0' else x for x, y in zip(ab, bb)])
            # overlapping: exact below the lowest position where both can be set; there the sum bit is the exclusive or of the
            # two (no carry comes in from below); above it the bits depend on carries and are unknown
            p = min(i for i, (x, y) in enumerate(zip(ab, bb)) if x != '0' and y != '0')
            x, y = ab[p], bb[p]
            if x != y and '?' not in (x, y):
                low = [v if u == '0' else u for u, v in list(zip(ab, bb))[:p]]
                return S(low + ['(%s^%s)' % (x, y)] + ['?'] * (w - p - 1))
        # multiplication / division of a bit vector by a constant power of two (or by zero)
        if op in ('Mul', 'MulWithOverflow', 'Div') and (isinstance(a, S) or isinstance(b, S)):
            x, c = (a, b) if isinstance(b, C) else ((b, a) if isinstance(a, C) and op != 'Div' else (None, None))
            if x is not None and isinstance(x, S):
                if op != 'Div' and c.v == 0:
                    return C(x.w, 0)
                if c.v > 0 and c.v & (c.v - 1) == 0:
                    n = c.v.bit_length() - 1
                    bits = to_bits(x)
                    w = x.w
                    bits = (['0'] * n + bits)[:w] if op != 'Div' else (bits[n:] + ['0'] * n)[:w]
                    return norm(bits)
        # order comparisons of a vector with a constant: decided by the least / greatest value the vector can have
        if op in ('Lt', 'Le', 'Gt', 'Ge') and ((isinstance(a, S) and isinstance(b, C)) or (isinstance(a, C) and isinstance(b, S))):
            def rng(x):
                if isinstance(x, C):
                    return x.v, x.v
                lo = sum(1 << i for i, bit in enumerate(x.bits) if bit == '1')
                hi = sum(1 << i for i, bit in enumerate(x.bits) if bit != '0')
                return lo, hi
            (alo, ahi), (blo, bhi) = rng(a), rng(b)
            always = {'Lt': ahi < blo, 'Le': ahi <= blo, 'Gt': alo > bhi, 'Ge': alo >= bhi}[op]
            never = {'Lt': alo >= bhi, 'Le': alo > bhi, 'Gt': ahi <= blo, 'Ge': ahi < blo}[op]
            if always:
                return C(1, 1)
            if never:
                return C(1, 0)
            return T
        # zero tests on vectors
        if op in ('Eq', 'Ne') and isinstance(b, C) and b.v == 0 and isinstance(a, S):
            if any(x == '1' for x in a.bits):
                return C(1, 0 if op == 'Eq' else 1)
            return Zt(op, [x for x in a.bits if x != '0'])
        return T

    # ------------------------------------------------------------------ control
    def switch(self, body, env, t):
        v = self.operand(body, env, t['d'])
        if isinstance(v, C):
            for x in t['ts']:
                if int(x['v']) == v.v:
                    return x['t']
            return t['o']
        if isinstance(v, S):
            # a vector with some concrete bits: a target whose value disagrees with a concrete bit is excluded;
            # when every listed value is excluded, only `otherwise` is left
            def excluded(val):
                for i, bit in enumerate(v.bits):
                    if bit in ('0', '1') and ((val >> i) & 1) != int(bit):
                        return True
                return (val >> len(v.bits)) != 0
            if all(excluded(int(x['v'])) for x in t['ts']):
                return t['o']
        # unknown condition: a debug assertion (one side only panics)?
        succ = [x['t'] for x in t['ts']] + [t['o']]
        live = [s for s in dict.fromkeys(succ) if not self.only_diverges(body, s)]
        if len(live) == 1:
            return live[0]
        raise Undecided('switch on %r in %s' % (v, body.path))

    def only_diverges(self, body, bi, depth=0):
        seen = set()
        st = [bi]
        n = 0
        while st:
            x = st.pop()
            if x in seen:
                continue
            seen.add(x)
            n += 1
            if n > 40:
                return False
            t = body.blocks[x]['term']
            if t['k'] == 'return':
                return False
            if t['k'] == 'call' and t['t'] < 0:
                continue
            if t['k'] in ('unreachable',):
                continue
            st.extend(body.succ()[x])
        return True

    # ------------------------------------------------------------------ calls
    def do_call(self, body, env, t, depth):
        fn = t.get('fn') or ''
        args = []
        for a in t['args']:
            try:
                args.append(self.operand(body, env, a))
            except Undecided:
                args.append(T)
        name = fn.split('::')[-1]
        if self.capture is not None and name == self.capture:
            raise Captured(args)
        if fn.endswith('::from_be') or fn.endswith('::to_be') or fn.endswith('::swap_bytes'):
            v = args[0]
            if isinstance(v, (C, S)):
                b = to_bits(v)
                by = [b[i:i + 8] for i in range(0, len(b), 8)]
                return norm([x for chunk in reversed(by) for x in chunk])
            return T
        if fn.endswith('::from_be_bytes'):
            v = args[0]
            if isinstance(v, (Arr, ArrView)):
                bits = []
                for byte in reversed(v.xs):
                    bits += to_bits(byte, 8)
                return norm(bits)
            return T
        if fn.endswith('::to_be_bytes'):
            v = args[0]
            if isinstance(v, (C, S)):
                b = to_bits(v)
                by = [norm(b[i:i + 8]) for i in range(0, len(b), 8)]
                return Arr(list(reversed(by)))
            return T
        if fn in ('std::ops::Deref::deref', 'std::ops::DerefMut::deref_mut', 'std::convert::Into::into',
                  'std::convert::From::from', 'std::clone::Clone::clone', 'std::borrow::Borrow::borrow',
                  'std::convert::AsRef::as_ref', 'std::convert::AsMut::as_mut'):
            return args[0]
        if fn.endswith('::try_into') or fn.endswith('::try_from'):
            v = args[0]
            if isinstance(v, ArrView):
                return Adt('std::result::Result', 0, [v], 'Ok')
            if isinstance(v, (C, S)):
                # integer conversion: keep the value when it fits
                tgt = self.f.types[t['a'][1]] if len(t.get('a', [])) > 1 and t['a'][1] >= 0 else None
                w = INT_W.get(tgt.get('p')) if tgt and tgt['k'] == 'prim' else None
                if w:
                    return Adt('std::result::Result', 0, [norm(to_bits(v, w))], 'Ok')
            return Adt('std::result::Result', 0, [v], 'Ok')
        if fn.endswith('Result::<T, E>::unwrap') or fn.endswith('Option::<T>::unwrap') or \
                fn.endswith('Option::<T>::unwrap_or') or fn.endswith('Result::<T, E>::expect'):
            v = args[0]
            if isinstance(v, Adt) and v.xs:
                return v.xs[0]
            if isinstance(v, Adt) and not v.xs and len(args) > 1:
                return args[1]
            return T
        if fn.endswith('Option::<T>::is_none') or fn.endswith('Option::<T>::is_some'):
            v = args[0]
            if isinstance(v, Adt):
                some = v.vname == 'Some'
                return C(1, 1 if (some == fn.endswith('is_some')) else 0)
            return T
        if fn == 'std::ops::Index::index' or fn == 'std::ops::IndexMut::index_mut':
            base, idx = args[0], args[1]
            if isinstance(base, Bytes):
                if isinstance(idx, C):
                    return base.get(idx.v)
                if isinstance(idx, Adt) and len(idx.xs) == 2 and all(isinstance(x, C) for x in idx.xs):
                    return ArrView(base, idx.xs[0].v, idx.xs[1].v)
            return T
        if fn.endswith('slice::<impl [T]>::copy_from_slice') and len(args) == 2:
            dst, src = args[0], args[1]
            xs = src.xs if isinstance(src, Arr) else (src.xs() if isinstance(src, ArrView) and callable(getattr(src, 'xs', None)) else
                                                      (src.xs if isinstance(src, ArrView) else None))
            if isinstance(dst, ArrView) and xs is not None and len(xs) == dst.end - dst.start:
                for i, x in enumerate(xs):
                    dst.buf.set(dst.start + i, x)
                return Tup([])
            if isinstance(dst, Arr) and xs is not None and len(xs) == len(dst.xs):
                dst.xs[:] = list(xs)
                return Tup([])
            raise Undecided('copy_from_slice on %r' % (dst,))
        if fn.endswith('as_u8_slice') or fn.endswith('as_u8_slice_mut'):
            return args[0]
        if name in ('trailing_zeros',) and isinstance(args[0], C):
            v = args[0].v
            n = 0
            while n < args[0].w and not (v >> n) & 1:
                n += 1
            return C(32, n)
        b = self.f.body(fn)
        if 'trait' in t and b is None:
            # trait method: resolve on the concrete self type
            r = self.f.resolve_trait_method(t['trait'], t['name'], _deref_ty(self.f, t['a'][0]) if t.get('a') else None)
            if r is not None:
                fn = r
                b = self.f.body(fn)
        if b is not None and not b.is_coroutine:
            return self.call(fn, args, depth + 1)
        # logging, formatting, panics that return: unknown
        return T


class ArrView:
    """&buf[a..b] of a Bytes buffer (converted to [u8; N] by try_into)."""

    def __init__(self, buf, start, end):
        self.buf = buf
        self.start = start
        self.end = end

    @property
    def xs(self):
        return [self.buf.get(i) for i in range(self.start, self.end)]


class Zt:
    """Result of `x == 0` / `x != 0` on a vector: depends on exactly these bits."""

    def __init__(self, op, bits):
        self.op = op
        self.bits = bits

    def __repr__(self):
        return 'Zt(%s over %s)' % (self.op, self.bits)


def _deref_ty(f, tid):
    if tid is None or tid < 0:
        return tid
    t = f.types[tid]
    if t['k'] == 'ref':
        return t['t']
    return tid

"""Runs the qmir driver over /repo's current working tree and returns the facts.

Every invocation re-runs the driver on the member crates (their cargo
fingerprints are deleted first, because cargo would otherwise replay the old
diagnostics and skip the wrapper); only the dependency artefacts in
/verif/.cache/target are reused.  The facts file must exist afterwards and
carry this run's nonce, else the check is broken (AnalysisError).
"""
import fcntl
import glob
import os
import shutil
import subprocess
import time

from .facts import AnalysisError, load

VERIF = os.path.dirname(os.path.dirname(os.path.abspath(__file__)))
REPO = os.environ.get('QV_REPO', '/repo')
CACHE = os.path.join(VERIF, '.cache')
QMIR = os.path.join(VERIF, 'qmir', 'target', 'debug', 'qmir')


def sysroot():
    return subprocess.check_output(['rustc', '+nightly', '--print', 'sysroot'], text=True).strip()


def ensure_qmir():
    if not os.path.exists(QMIR):
        r = subprocess.run(['cargo', 'build', '--offline'], cwd=os.path.join(VERIF, 'qmir'),
                           capture_output=True, text=True)
        if r.returncode != 0:
            raise AnalysisError('qmir does not build:\n' + r.stderr[-2000:])


def extract(repo=REPO, targets=('--lib', '--bins'), crates='qcow2_rs,rqcow2', tag=os.environ.get('QV_TAG', 'repo'),
            target_dir=None, fingerprint_glob='qcow2-rs-*'):
    """Returns {file name: Facts}."""
    ensure_qmir()
    os.makedirs(CACHE, exist_ok=True)
    nonce = '%d-%d' % (os.getpid(), time.time_ns())
    out = os.path.join(CACHE, 'facts', '%s-%s' % (tag, nonce))
    os.makedirs(out, exist_ok=True)
    tdir = target_dir or os.path.join(CACHE, 'target-' + tag)
    os.makedirs(tdir, exist_ok=True)
    env = dict(os.environ)
    env.update({
        'LD_LIBRARY_PATH': sysroot() + '/lib',
        'RUSTFLAGS': '-Zmir-opt-level=0 -Awarnings',
        'RUSTC_WORKSPACE_WRAPPER': QMIR,
        'QMIR_OUT': out,
        'QMIR_NONCE': nonce,
        'QMIR_CRATES': crates,
        'CARGO_TARGET_DIR': tdir,
        'CARGO_NET_OFFLINE': 'true',
    })
    lock = open(os.path.join(CACHE, 'build-%s.lock' % tag), 'w')
    fcntl.flock(lock, fcntl.LOCK_EX)
    try:
        for fp in glob.glob(os.path.join(tdir, 'debug', '.fingerprint', fingerprint_glob)):
            shutil.rmtree(fp, ignore_errors=True)
        cmd = ['cargo', '+nightly', 'check', '--offline'] + list(targets)
        r = subprocess.run(cmd, cwd=repo, env=env, capture_output=True, text=True)
    finally:
        fcntl.flock(lock, fcntl.LOCK_UN)
        lock.close()
    if r.returncode != 0:
        shutil.rmtree(out, ignore_errors=True)
        raise AnalysisError('cargo check of %s failed (the tree does not compile):\n%s' % (repo, r.stderr[-3000:]))
    facts = {}
    for fn in sorted(os.listdir(out)):
        if fn.endswith('.json'):
            f = load(os.path.join(out, fn))
            if f.nonce != nonce:
                raise AnalysisError('stale facts file %s' % fn)
            facts[fn[:-5]] = f
    shutil.rmtree(out, ignore_errors=True)
    # old facts directories of crashed runs
    for d in glob.glob(os.path.join(CACHE, 'facts', '*')):
        try:
            if time.time() - os.path.getmtime(d) > 3600:
                shutil.rmtree(d, ignore_errors=True)
        except OSError:
            pass
    if not facts:
        raise AnalysisError('the driver produced no facts (wrapper skipped?)')
    return facts

"""python3 -m qv.dbgfacts : extract facts of /repo into .cache/dbg/ (kept) for interactive work."""
import os, shutil, subprocess, sys, time
from . import build
def main():
    out = os.path.join(build.CACHE, 'dbg')
    shutil.rmtree(out, ignore_errors=True)
    os.makedirs(out)
    env = dict(os.environ)
    env.update({'LD_LIBRARY_PATH': build.sysroot() + '/lib', 'RUSTFLAGS': '-Zmir-opt-level=0 -Awarnings',
                'RUSTC_WORKSPACE_WRAPPER': build.QMIR, 'QMIR_OUT': out, 'QMIR_NONCE': 'dbg',
                'QMIR_CRATES': 'qcow2_rs,rqcow2', 'CARGO_TARGET_DIR': os.path.join(build.CACHE, 'target-dbg'),
                'CARGO_NET_OFFLINE': 'true'})
    import glob
    for fp in glob.glob(os.path.join(build.CACHE, 'target-dbg', 'debug', '.fingerprint', 'qcow2-rs-*')):
        shutil.rmtree(fp, ignore_errors=True)
    r = subprocess.run(['cargo', '+nightly', 'check', '--offline', '--lib', '--bins'], cwd=os.environ.get('QV_REPO', '/repo'), env=env,
                       capture_output=True, text=True)
    print(r.stderr[-300:] if r.returncode else 'ok', os.listdir(out))
main()

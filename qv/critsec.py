"""Critical-section rules shared by C06 / C08 / C10 (intra-procedural, on MIR):

  check-then-act   a mapping install/removal or an allocation applied through a
                   slice write guard acquired in this function is decided by a
                   value read through that same guard after the acquisition
  scan+increment   the free-range scan and alloc_range use one guard with no
                   suspension point in between; the range passed to alloc_range
                   derives from the scan result
"""
from .interp import POLL_NAMES, short
from .guard import Deps

READERS = ('get_mapping', 'get_entry', 'get', 'get_free_range', 'get_tail_free_range')
MUTATORS = ('map_cluster', 'set', 'alloc_range')
SLICE_TYPES = ('meta::l2::L2Table', 'meta::refcount::RefBlock')


def guard_locals(f, P, b):
    """{local: (class path, poll block)} for slice write guards acquired in b."""
    out = {}
    for bi, t in b.calls():
        if t.get('fn') not in POLL_NAMES:
            continue
        for fu in P.futs(t['a'][0], ()):
            if fu.kind == 'lock' and fu.mode == 'write':
                cls = f.types[fu.cls] if fu.cls is not None and fu.cls >= 0 else {}
                if cls.get('p') in SLICE_TYPES or cls.get('k') == 'param':
                    # follow the Ready payload into the user variable
                    dst = t['dst']['l']
                    work = [dst]
                    seen = set()
                    while work:
                        l = work.pop()
                        if l in seen:
                            continue
                        seen.add(l)
                        if _is_write_guard(f, b.locals[l]):
                            out[l] = (cls.get('p', '?'), bi)
                        for bl in b.blocks:
                            for s in bl['st']:
                                if s['k'] == 'assign' and s['rv']['k'] == 'use':
                                    o = s['rv']['ops'][0]
                                    if o['k'] in ('copy', 'move') and o['pl']['l'] == l:
                                        work.append(s['pl']['l'])
    return out


def _is_write_guard(f, tid):
    t = f.types[tid]
    return t['k'] == 'adt' and t['p'] == 'futures_locks::RwLockWriteGuard'


def derives_from(P, b, operand, locals_):
    """operand is (a reference chain to) one of the guard locals."""
    if operand['k'] not in ('copy', 'move'):
        return None
    seen = set()
    work = [operand['pl']['l']]
    while work:
        l = work.pop()
        if l in seen:
            continue
        seen.add(l)
        if l in locals_:
            return l
        for d in P.defs(b).get(l, []):
            if d[0] == 'st':
                rv = b.blocks[d[1]]['st'][d[2]]['rv']
                if rv['k'] in ('ref', 'rawptr'):
                    work.append(rv['pl']['l'])
                elif rv['k'] in ('use', 'cast'):
                    o = rv['ops'][0]
                    if o['k'] in ('copy', 'move'):
                        work.append(o['pl']['l'])
            else:
                t = b.blocks[d[1]]['term']
                if t.get('fn') in ('std::ops::Deref::deref', 'std::ops::DerefMut::deref_mut') and t['args']:
                    a = t['args'][0]
                    if a['k'] in ('copy', 'move'):
                        work.append(a['pl']['l'])
    return None


def check_then_act(f, P):
    """-> [(fn, where, ok, detail)] one per mutation applied through a slice
    write guard acquired in the same function."""
    out = []
    for b in f.body_list:
        if not b.is_coroutine or '::tests::' in b.path:
            continue
        gl = guard_locals(f, P, b)
        if not gl:
            continue
        dp = Deps(P, b)
        readers = []     # (block, fn path, guard local)
        muts = []
        for bi, t in b.calls():
            fn = t.get('fn') or ''
            name = t.get('name') or short(fn)
            if not t['args']:
                continue
            g = derives_from(P, b, t['args'][0], gl)
            if name in READERS and g is not None:
                readers.append((bi, fn, g))
            elif name in MUTATORS and g is not None:
                muts.append((bi, name, g))
            else:
                # the guard handed to a crate function by &mut: it mutates through it
                for a in t['args'][1:]:
                    g2 = derives_from(P, b, a, gl)
                    if g2 is not None and f.body(fn) is not None and _is_mut_ref(f, b, a):
                        muts.append((bi, short(fn), g2))
        for (mbi, mname, g) in muts:
            ok = False
            why = 'no read through the guard decides it'
            for (rbi, rfn, rg) in readers:
                if rg != g or not b.dominates(rbi, mbi) or not b.dominates(gl[g][1], rbi):
                    continue
                # a decision between the read and the mutation depends on the read
                for sbi in b.reachable():
                    t = b.blocks[sbi]['term']
                    if t['k'] != 'switch' or not (b.dominates(rbi, sbi) and b.dominates(sbi, mbi)):
                        continue
                    d = dp.of_operand(t['d'], (sbi, 10 ** 6))
                    if ('fn', rfn) in d:
                        ok = True
                        why = 'decided by %s read at %s under the same guard' % (short(rfn), b.where(rbi))
                        break
                if ok:
                    break
            out.append((short(b.path), b.where(mbi), mname, ok, why))
    return out


def _is_mut_ref(f, b, a):
    t = b.ty(a['pl']['l']) if not a['pl']['p'] else None
    return t is not None and t['k'] == 'ref' and t.get('m')


def scan_increment(f, P):
    """-> [(fn, where, ok, detail)] for every alloc_range call."""
    out = []
    for b in f.body_list:
        if '::tests::' in b.path:
            continue
        for bi, t in b.calls():
            if not (t.get('fn') or '').endswith('RefBlock::alloc_range'):
                continue
            if short(b.path) in ('alloc_range',):
                continue
            gl = guard_locals(f, P, b) if b.is_coroutine else {}
            g = derives_from(P, b, t['args'][0], gl) if gl else None
            dp = Deps(P, b)
            scans = [(si, st) for si, st in b.calls()
                     if (st.get('fn') or '').endswith(('RefBlock::get_free_range', 'RefBlock::get_tail_free_range'))]
            polls = [pi for pi, pt in b.calls() if pt.get('fn') in POLL_NAMES]
            same_guard = bool(scans) and all(derives_from(P, b, st['args'][0], gl) == g for si, st in scans) and g is not None
            # no suspension point on any path scan -> alloc_range
            susp = False
            for si, st in scans:
                reach = _between(b, si, bi)
                if any(p in reach for p in polls):
                    susp = True
            argdeps = set()
            for a in t['args'][1:]:
                argdeps |= dp.of_operand(a, (bi, 10 ** 6))
            derived = any(x[0] == 'fn' and x[1].endswith(('get_free_range', 'get_tail_free_range')) for x in argdeps)
            ok = same_guard and not susp and derived
            out.append((short(b.path), b.where(bi), ok,
                        'same guard: %s; suspension between scan and increment: %s; range derives from the scan: %s' % (
                            same_guard, susp, derived)))
    return out


def _between(b, a, c):
    """Blocks on some path a -> c (exclusive of a)."""
    succ = b.succ()
    fwd = set()
    st = list(succ[a])
    while st:
        x = st.pop()
        if x in fwd:
            continue
        fwd.add(x)
        if x != c:
            st.extend(succ[x])
    pred = b.pred()
    bwd = set()
    st = [c]
    while st:
        x = st.pop()
        if x in bwd:
            continue
        bwd.add(x)
        if x != a:
            st.extend(pred[x])
    return fwd & bwd


def run_pairs(f, P):
    """Functions that return (start, count) built from two mutable locals:
    whenever the run is restarted (count := 0 after its initialisation) the start
    is re-established before the count grows again.  Path sensitive for the
    `count == 0` tests (interpreter tags).
    -> [(fn, where_reset, ok, detail)]"""
    from .interp import Interp, Domain
    out = []
    for b in f.body_list:
        if '::tests::' in b.path or not b.is_coroutine:
            continue
        defs = P.defs(b)
        pairs = set()
        for bi in b.reachable():
            for s in b.blocks[bi]['st']:
                if s['k'] == 'assign' and s['rv']['k'] == 'agg' and s['rv'].get('ak') == 'tuple' and len(s['rv']['ops']) == 2:
                    o0, o1 = s['rv']['ops']
                    if o0['k'] in ('copy', 'move') and o1['k'] in ('copy', 'move') and not o0['pl']['p'] and not o1['pl']['p']:
                        a, n = _through_copy(b, defs, o0['pl']['l']), _through_copy(b, defs, o1['pl']['l'])
                        if b.ty(a).get('p') == 'u64' and b.ty(n).get('p') == 'usize' and a in b.names and n in b.names:
                            pairs.add((a, n))
        for (a, n) in pairs:
            zero_defs = [d for d in defs.get(n, []) if d[0] == 'st' and
                         b.blocks[d[1]]['st'][d[2]]['rv']['k'] == 'use' and
                         b.blocks[d[1]]['st'][d[2]]['rv']['ops'][0].get('v') == '0']
            a_defs = [d for d in defs.get(a, []) if d[0] == 'st']
            if len(zero_defs) < 2 and len(a_defs) < 3:
                continue
            inc_srcs = set()
            for d in defs.get(n, []):
                if d[0] != 'st':
                    continue
                rv = b.blocks[d[1]]['st'][d[2]]['rv']
                if rv['k'] == 'use' and rv['ops'][0]['k'] in ('copy', 'move'):
                    src = rv['ops'][0]['pl']['l']
                    for d2 in defs.get(src, []):
                        if d2[0] == 'st' and b.blocks[d2[1]]['st'][d2[2]]['rv']['k'] == 'bin' and \
                                b.blocks[d2[1]]['st'][d2[2]]['rv'].get('op', '').startswith('Add'):
                            inc_srcs.add(src)

            class D(Domain):
                merge = False

                def __init__(self):
                    self.bad = {}
                    self.resets = set()
                    self.restarts = {}      # block of a start re-assignment while counted -> ok?

                def on_switch(self, ip, fr, tok, tags, bi, term, target):
                    # `n == 0` / `n != 0` decisions refine what is known about the count
                    dpl = term['d'].get('pl') if term['d']['k'] in ('copy', 'move') else None
                    if dpl is None or dpl['p']:
                        return tok
                    for st_ in fr.body.blocks[bi]['st']:
                        if st_['k'] == 'assign' and st_['pl']['l'] == dpl['l'] and st_['rv']['k'] == 'bin' and st_['rv']['op'] in ('Eq', 'Ne'):
                            o0, o1 = st_['rv']['ops']
                            if o1['k'] == 'const' and o1.get('v') == '0' and o0['k'] in ('copy', 'move') and not o0['pl']['p'] \
                                    and _through_copy(fr.body, defs, o0['pl']['l']) == n:
                                # which discriminant value leads to `target`?
                                vals = [int(x['v']) for x in term['ts'] if x['t'] == target]
                                is_true = (vals and vals[0] != 0) or (not vals and all(int(x['v']) == 0 for x in term['ts']))
                                zero = is_true if st_['rv']['op'] == 'Eq' else not is_true
                                if zero:
                                    return tok - {'GROWN'}
                    return tok

                def initial(self):
                    return frozenset()

                def intercept(self, ip, fr, tok, tags, bi, term, callee):
                    return [(tok, None)]

                def on_leaf_await(self, ip, fr, tok, tags, bi, term, fut):
                    return [(tok, None)]

                def on_assign(self, ip, fr, tok, tags, bi, s):
                    if s['pl']['p']:
                        return tok
                    l = s['pl']['l']
                    rv = s['rv']
                    if l == n and rv['k'] == 'use' and rv['ops'][0].get('v') == '0':
                        tok = frozenset(x for x in tok if x != 'GROWN' and not (isinstance(x, tuple) and x[0] == 'RESTART'))
                        if 'INIT' in tok:
                            self.resets.add(bi)
                            return tok | {('STALE', bi)}
                        return tok | {'INIT'}
                    if l == n and rv['k'] == 'use' and rv['ops'][0].get('v') == '0':
                        pass
                    if l == a:
                        out_ = frozenset(x for x in tok if not (isinstance(x, tuple) and x[0] == 'STALE'))
                        if 'AINIT' in tok and 'GROWN' in tok:
                            # the run start is re-established while clusters of the old run are still counted
                            self.restarts.setdefault(bi, True)
                            out_ = out_ | {('RESTART', bi)}
                        return out_ | {'AINIT'}
                    if l == n and rv['k'] == 'use' and rv['ops'][0]['k'] in ('copy', 'move') and rv['ops'][0]['pl']['l'] in inc_srcs:
                        for x in tok:
                            if isinstance(x, tuple) and x[0] == 'STALE':
                                self.bad.setdefault(x[1], bi)
                            if isinstance(x, tuple) and x[0] == 'RESTART':
                                self.restarts[x[1]] = False
                        return tok | {'GROWN'}
                    return tok
            d = D()
            ip = Interp(P, d)
            # awaits are leaf events here: do not descend
            ip.one_fut = lambda fr, bi, tok, tags, t, fu: [(tok, None)]
            ip.run(b)
            for r, okr in sorted(d.restarts.items()):
                out.append((short(b.path), b.where(r), okr,
                            ('%s is re-assigned while %s is non-zero and %s is reset before it grows again' % (b.lname(a), b.lname(n), b.lname(n)))
                            if okr else
                            ('%s is re-assigned at %s while %s still counts the old run, and %s grows again without being reset: '
                             'the returned run is longer than what was taken' % (b.lname(a), b.where(r), b.lname(n), b.lname(n)))))
            if not d.resets and not d.restarts:
                out.append((short(b.path), b.where(0), True, 'no restart of the (%s, %s) run' % (b.lname(a), b.lname(n))))
            for r in sorted(d.resets):
                ok = r not in d.bad
                out.append((short(b.path), b.where(r), ok,
                            ('%s is re-assigned on every path from the reset of %s to its next increment' % (b.lname(a), b.lname(n)))
                            if ok else
                            ('%s is reset at %s and grows again at %s on a path that does not re-assign %s' % (
                                b.lname(n), b.where(r), b.where(d.bad[r]), b.lname(a)))))
    return out


def run_contiguity(f, P):
    """Functions that return (start, count) built from two mutable locals and grow the count in a loop by pieces
    obtained one at a time: a piece is added to a non-empty run only on the `equal` edge of a comparison of two
    computed addresses (the piece continues the run).  Path sensitive for `count == 0` tests and the comparison.
    -> [(fn, where_increment, ok, detail)]"""
    from .interp import Interp, Domain
    out = []
    for b in f.body_list:
        if '::tests::' in b.path or not b.is_coroutine:
            continue
        defs = P.defs(b)
        pairs = set()
        for bi in b.reachable():
            for s in b.blocks[bi]['st']:
                if s['k'] == 'assign' and s['rv']['k'] == 'agg' and s['rv'].get('ak') == 'tuple' and len(s['rv']['ops']) == 2:
                    o0, o1 = s['rv']['ops']
                    if o0['k'] in ('copy', 'move') and o1['k'] in ('copy', 'move') and not o0['pl']['p'] and not o1['pl']['p']:
                        a, n = _through_copy(b, defs, o0['pl']['l']), _through_copy(b, defs, o1['pl']['l'])
                        if b.ty(a).get('p') == 'u64' and b.ty(n).get('p') == 'usize' and a in b.names and n in b.names:
                            pairs.add((a, n))
        for (a, n) in pairs:
            inc_srcs = set()
            inc_blocks = set()
            for d in defs.get(n, []):
                if d[0] != 'st':
                    continue
                rv = b.blocks[d[1]]['st'][d[2]]['rv']
                if rv['k'] == 'use' and rv['ops'][0]['k'] in ('copy', 'move'):
                    src = rv['ops'][0]['pl']['l']
                    for d2 in defs.get(src, []):
                        if d2[0] == 'st' and b.blocks[d2[1]]['st'][d2[2]]['rv']['k'] == 'bin' and \
                                b.blocks[d2[1]]['st'][d2[2]]['rv'].get('op', '').startswith('Add'):
                            inc_srcs.add(src)
                            inc_blocks.add(d[1])
            if not inc_blocks or not any(_in_loop(b, x) for x in inc_blocks):
                continue

            class D(Domain):
                merge = False

                def __init__(self):
                    self.res = {}
                    self.sums = {}

                def on_switch(self, ip, fr, tok, tags, bi, term, target):
                    dpl = term['d'].get('pl') if term['d']['k'] in ('copy', 'move') else None
                    if dpl is None or dpl['p']:
                        return tok
                    for st_ in fr.body.blocks[bi]['st']:
                        if st_['k'] == 'assign' and st_['pl']['l'] == dpl['l'] and st_['rv']['k'] == 'bin' and st_['rv']['op'] in ('Eq', 'Ne'):
                            o0, o1 = st_['rv']['ops']
                            vals = [int(x['v']) for x in term['ts'] if x['t'] == target]
                            is_true = (vals and vals[0] != 0) or (not vals and all(int(x['v']) == 0 for x in term['ts']))
                            eq = is_true if st_['rv']['op'] == 'Eq' else not is_true
                            if o1['k'] == 'const' and o1.get('v') == '0' and o0['k'] in ('copy', 'move') and not o0['pl']['p'] \
                                    and _through_copy(fr.body, defs, o0['pl']['l']) == n:
                                return (tok | {'Z'}) if eq else (tok - {'Z'})
                            if o0['k'] in ('copy', 'move') and o1['k'] in ('copy', 'move') and \
                                    fr.body.ty(o0['pl']['l']).get('p') == 'u64' and fr.body.ty(o1['pl']['l']).get('p') == 'u64':
                                return (tok | {'ADJ'}) if eq else (tok - {'ADJ'})
                    return tok

                def initial(self):
                    return frozenset()

                def intercept(self, ip, fr, tok, tags, bi, term, callee):
                    return [(tok, None)]

                def on_leaf_await(self, ip, fr, tok, tags, bi, term, fut):
                    return [(tok, None)]

                def on_assign(self, ip, fr, tok, tags, bi, s):
                    if s['pl']['p']:
                        return tok
                    l = s['pl']['l']
                    rv = s['rv']
                    if l == n and rv['k'] == 'use' and rv['ops'][0].get('v') == '0':
                        return (tok | {'Z'}) - {'ADJ'}
                    if l == n and rv['k'] == 'use' and rv['ops'][0]['k'] in ('copy', 'move') and rv['ops'][0]['pl']['l'] in inc_srcs:
                        ok = 'Z' in tok or 'ADJ' in tok
                        self.res[bi] = self.res.get(bi, True) and ok
                        return tok - {'Z', 'ADJ'}
                    # the count of the run added to something else (a sum handed to a release, a second counter): the same
                    # condition - the run and the further piece are one range only if the piece was found adjacent
                    if l not in inc_srcs and rv['k'] == 'bin' and rv.get('op', '').startswith('Add') and any(
                            o['k'] in ('copy', 'move') and not o['pl']['p'] and _through_copy(fr.body, defs, o['pl']['l']) == n
                            for o in rv['ops']) and not any(o['k'] == 'const' for o in rv['ops']):
                        ok = 'Z' in tok or 'ADJ' in tok
                        self.sums[bi] = self.sums.get(bi, True) and ok
                    return tok
            d = D()
            ip = Interp(P, d)
            ip.one_fut = lambda fr, bi, tok, tags, t, fu: [(tok, None)]
            ip.run(b)
            for bi, ok in sorted(d.res.items()):
                out.append((short(b.path), b.where(bi), ok,
                            ('%s grows only on the first piece or after the piece was compared with the end of the run' % b.lname(n)) if ok else
                            ('%s grows by a further piece on a path on which the piece was not compared with the end of the run (%s, %s)' % (
                                b.lname(n), b.lname(a), b.lname(n)))))
            for bi, ok in sorted(d.sums.items()):
                if not ok:
                    out.append((short(b.path), b.where(bi), False,
                                '%s is summed with the length of a further piece on a path on which that piece was not found adjacent to the '
                                'run (%s, %s): the sum describes one range, but the two pieces are apart' % (b.lname(n), b.lname(a), b.lname(n))))
    return out


def _through_copy(b, defs, l):
    for _ in range(4):
        ds = defs.get(l, [])
        if len(ds) == 1 and ds[0][0] == 'st':
            rv = b.blocks[ds[0][1]]['st'][ds[0][2]]['rv']
            if rv['k'] == 'use' and rv['ops'][0]['k'] in ('copy', 'move') and not rv['ops'][0]['pl']['p']:
                l = rv['ops'][0]['pl']['l']
                continue
        break
    return l


def _in_loop(b, bi):
    succ = b.succ()
    seen = set()
    st = list(succ[bi])
    while st:
        x = st.pop()
        if x == bi:
            return True
        if x in seen:
            continue
        seen.add(x)
        st.extend(succ[x])
    return False


def _reach_avoiding(b, src, dst, avoid):
    """dst reachable from src (starting after src) without passing a block in avoid?"""
    succ = b.succ()
    seen = set()
    st = list(succ[src])
    if src == dst:
        return False
    while st:
        x = st.pop()
        if x in seen:
            continue
        seen.add(x)
        if x in avoid and x != dst:
            continue
        if x == dst:
            return x not in avoid
        st.extend(succ[x])
    return False

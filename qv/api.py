"""Public API anchors (renaming these is an API break, so names are used)."""
from .facts import AnalysisError

# operations the properties quantify over as *concurrent* (C06, C07 text)
CONCURRENT_OPS = ('read_at', 'write_at', 'discard', 'flush_meta', 'shrink_caches', 'fsync_range', 'get_mapping')
# maintenance / setup operations: analysed on their own
OTHER_OPS = ('check', 'qcow2_cluster_usage', 'qcow2_prep_io')


def dev_method(f, name):
    """Coroutine body of the public async method `Qcow2Dev::<name>`."""
    cands = [b for b in f.body_list
             if b.is_coroutine and b.parent is not None and b.parent.endswith('::' + name)
             and 'Qcow2Dev' in b.parent and b.path == b.parent + '::{closure#0}']
    if len(cands) != 1:
        raise AnalysisError('public method Qcow2Dev::%s: expected one body, found %d' % (name, len(cands)))
    return cands[0]


def dev_fn(f, name):
    cands = [b for b in f.body_list if b.path.endswith('::' + name) and 'Qcow2Dev' in b.path]
    if len(cands) != 1:
        raise AnalysisError('method Qcow2Dev::%s: expected one body, found %d' % (name, len(cands)))
    return cands[0]

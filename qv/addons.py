"""python3 -m qv.addons <patch> ... : the intraprocedural rules added in round 7, alone, on scratch copies (for the
false-alarm sweep over the benign sets; the registered checks run them as part of C01..C20)."""
import os, sys, subprocess, tempfile, shutil, json
from concurrent.futures import ThreadPoolExecutor

VERIF = os.path.dirname(os.path.dirname(os.path.abspath(__file__)))


def rules(f):
    from .main import Report
    from .interp import Program
    from .props import c13, c02, c05, c09, c03, c12, c17, evict, rollback
    from .critsec import run_contiguity
    rep = Report('ADD', 'quick')
    P = Program(f)
    c13.flag_word_rule(f, rep, 'C13.5')
    evict.presence(f, rep, 'C07.5', evict.find_pops(f, P))
    c02.drop_rule(f, rep, 'C18.5')
    c05.partial_write_rule(f, P, rep, 'C05.11')
    c09.geometry_rule(f, rep, 'C09.4')
    c09.read_predicate_rule(f, rep, 'C09.12')
    c03.abandoned_run_rule(f, P, rep, 'C03.9')
    c12.new_mark_rule(f, P, rep, 'C12.11')
    scope = {r['fn'] for r in rollback.analyse(f, P)} | {n for n in (__import__('qv.interp', fromlist=['short']).short(b.path) for b in f.body_list)
                                                         if 'cow' in n.lower() or n.startswith('do_write')}
    c17.discard_combinators(f, rep, 'C10.10', scope=lambda n: n in scope)
    c17.swallowed_arm_rule(f, rep, 'C17.8')
    c03.release_once_rule(f, P, rep, 'C03.10')
    c13.decrement_rule(f, P, rep, 'C13.6')
    from .props import c20
    c20.bound_rule(f, P, rep)
    for (fn, where, ok, detail) in run_contiguity(f, P):
        if not ok:
            rep.violation('C08.8', 'C08.8:%s' % fn, where, detail)
    return rep


def one(args):
    patch, k = args
    from . import build
    tmp = tempfile.mkdtemp(prefix='qvadd-')
    dst = os.path.join(tmp, 'repo')
    try:
        subprocess.check_call(['rsync', '-a', '--exclude', 'target', '--exclude', '.git', '/repo/', dst + '/'])
        if patch != '-':
            r = subprocess.run(['patch', '-p1', '-s', '-F3', '--no-backup-if-mismatch', '-i', os.path.abspath(patch)], cwd=dst,
                               capture_output=True, text=True)
            if r.returncode != 0:
                return patch, 'NOAPPLY', []
        try:
            facts = build.extract(repo=dst, tag='addon%d' % k, targets=('--lib',), crates='qcow2_rs')
            from . import inline
            f = facts['qcow2_rs-rlib']
            if hasattr(inline, 'fold'):
                pass
            rep = rules(f)
        except Exception as e:
            return patch, 'ERROR %r' % (e,), []
        out = ['%s %s' % (v['rule'], v['key']) for v in rep.viol] + ['FLOOR ' + x for x in rep.floor_fail]
        return patch, 'ok', out
    finally:
        shutil.rmtree(tmp, ignore_errors=True)


def main():
    patches = sys.argv[1:]
    W = 6
    # one worker = one tag (= one target dir, builds are serialised per tag)
    groups = [[] for _ in range(W)]
    for i, p in enumerate(patches):
        groups[i % W].append(p)

    def work(k):
        return [one((p, k)) for p in groups[k]]
    with ThreadPoolExecutor(max_workers=W) as ex:
        for res in ex.map(work, range(W)):
            for patch, st, out in res:
                print('%s %s %s' % ('ALARM' if out or st != 'ok' else 'silent', patch, st if st != 'ok' else ''))
                for l in out:
                    print('     ' + l)
                sys.stdout.flush()


main()

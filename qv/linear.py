"""Linear-inequality reasoning over value numbers (a small relational layer on
top of engines F/G).

A value number is turned into a linear form  const + sum(coef * atom); atoms
are the non-linear sub-terms.  Atoms that are floor operations carry lemmas:

  M(x, s) := (x >> s) << s             x - 2^s + 1 <= M <= x     (= x if x is a multiple of 2^s)
  R(x, s) := x & !(2^s - 1)            x - 2^s + 1 <= R <= x
  P(s)    := 2^s                        P >= 1

`prove_ge0(lin)` eliminates atoms with a negative (positive) coefficient by
their upper (lower) bound lemma, recursively, and finally uses the interval
bounds of what is left.  Sound (every lemma is a valid inequality), incomplete.
"""
from .absint import INF


class Lin:
    __slots__ = ('c', 't')

    def __init__(self, c=0, t=None):
        self.c = c
        self.t = dict(t) if t else {}

    def copy(self):
        return Lin(self.c, self.t)

    def add(self, o, k=1):
        r = self.copy()
        r.c += k * o.c
        for a, v in o.t.items():
            nv = r.t.get(a, 0) + k * v
            if nv:
                r.t[a] = nv
            else:
                r.t.pop(a, None)
        return r

    def scale(self, k):
        return Lin(self.c * k, {a: v * k for a, v in self.t.items() if v * k})

    def __repr__(self):
        return '%d %s' % (self.c, ' '.join('%+d*%s' % (v, a[0] if isinstance(a, tuple) else a) for a, v in self.t.items()))


class LinProver:
    def __init__(self, ai, st, shift):
        """shift: the vn of the (symbolic) shift amount s all M/R/P atoms refer to"""
        self.ai = ai
        self.st = st
        self.s = ai.strip(st, shift)
        self.P = ('P', self.s)
        self.memo = {}

    # ------------------------------------------------------------------ linearisation
    def same_shift(self, v):
        return self.ai.strip(self.st, v) == self.s

    def is_pow(self, v):
        sh = self.ai.pow2_shift(self.st, v) if hasattr(self.ai, 'pow2_shift') else None
        return sh is not None and self.same_shift(sh)

    def lin(self, v, d=0):
        ai, st = self.ai, self.st
        v = ai.strip(st, v)
        if d > 12:
            return Lin(0, {v: 1})
        h = v[0]
        if h == 'c':
            return Lin(v[1])
        if self.is_pow(v):
            return Lin(0, {self.P: 1})
        if h == 'bin':
            op, a, b = v[1], v[2], v[3]
            if op == 'Add':
                return self.lin(a, d + 1).add(self.lin(b, d + 1))
            if op == 'Sub':
                if a[0] == 'c' and a[1] in ((1 << 64) - 1, (1 << 32) - 1):
                    return Lin(0, {v: 1})          # a bit complement: an atom
                return self.lin(a, d + 1).add(self.lin(b, d + 1), -1)
            if op == 'Mul':
                for x, y in ((a, b), (b, a)):
                    if y[0] == 'c':
                        return self.lin(x, d + 1).scale(y[1])
                    if self.is_pow(y):
                        return self.M(self.lin(x, d + 1))
            if op == 'Shl':
                if b[0] == 'c' and 0 <= b[1] < 64:
                    return self.lin(a, d + 1).scale(1 << b[1])
                if self.same_shift(b):
                    return self.M(self.lin(a, d + 1))
            if (op == 'Shr' and self.same_shift(b)) or (op == 'Div' and self.is_pow(b)):
                return Lin(0, {('Q', self.key(self.lin(a, d + 1))): 1})
            if op == 'BitAnd':
                for x, m in ((a, b), (b, a)):
                    mm = ai.strip(st, m)
                    if mm[0] == 'bin' and mm[1] == 'Sub' and mm[2][0] == 'c' and mm[2][1] in ((1 << 64) - 1, (1 << 32) - 1):
                        lo = ai.low_ones(st, mm[3]) if hasattr(ai, 'low_ones') else None
                        if lo is not None and self.same_shift(lo):
                            return Lin(0, {('R', self.key(self.lin(x, d + 1))): 1})
        return Lin(0, {v: 1})

    def key(self, l):
        return (l.c, tuple(sorted(l.t.items(), key=repr)))

    def unkey(self, k):
        return Lin(k[0], dict(k[1]))

    def M(self, l):
        """(linear form) * 2^s"""
        out = Lin(0, {})
        if l.c:
            out = out.add(Lin(0, {self.P: 1}), l.c)
        for a, c in l.t.items():
            if isinstance(a, tuple) and a[0] == 'Q':
                out = out.add(Lin(0, {('M', a[1]): 1}), c)        # (x >> s) << s
            else:
                out = out.add(Lin(0, {('X', a): 1}), c)            # a * 2^s, opaque
        return out

    # ------------------------------------------------------------------ lemmas
    def bounds(self, atom):
        """-> (lower bounds [Lin], upper bounds [Lin]) of an atom"""
        lo, hi = [], []
        if isinstance(atom, tuple) and atom and atom[0] in ('M', 'R'):
            x = self.unkey(atom[1])
            hi.append(x)
            lo.append(x.add(Lin(0, {self.P: 1}), -1).add(Lin(1)))
            if atom[0] == 'M' and self.multiple(x):
                lo.append(x)
        elif atom == self.P:
            lo.append(Lin(1))
            if isinstance(self.s, tuple) and self.s and self.s[0] == 'c' and 0 <= self.s[1] < 128:
                lo.append(Lin(1 << self.s[1]))      # a concrete shift: P is the constant 2^s
                hi.append(Lin(1 << self.s[1]))
        elif isinstance(atom, tuple) and atom and atom[0] == 'max' and len(atom) == 3:
            lo.append(self.lin(atom[1]))
            lo.append(self.lin(atom[2]))
            for x, y in ((atom[1], atom[2]), (atom[2], atom[1])):
                try:
                    if self.ai.prove_le(self.st, y, x):
                        hi.append(self.lin(x))      # max(x, y) = x when y <= x
                except RecursionError:
                    pass
        elif isinstance(atom, tuple) and atom and atom[0] == 'min' and len(atom) == 3:
            hi.append(self.lin(atom[1]))
            hi.append(self.lin(atom[2]))
            for x, y in ((atom[1], atom[2]), (atom[2], atom[1])):
                try:
                    if self.ai.prove_le(self.st, x, y):
                        lo.append(self.lin(x))      # min(x, y) = x when x <= y
                except RecursionError:
                    pass
        elif isinstance(atom, tuple) and atom and atom[0] in ('Q', 'X'):
            lo.append(Lin(0)) if atom[0] == 'Q' else None
        else:
            i = self.ai.itvof(self.st, atom) if isinstance(atom, tuple) and atom and isinstance(atom[0], str) and atom[0] not in ('P', 'M', 'R', 'Q', 'X') else None
            if i is not None:
                if i[0] > -INF:
                    lo.append(Lin(i[0]))
                if i[1] < INF:
                    hi.append(Lin(i[1]))
            # recorded order facts
            for fct in self.st.le:
                if fct[0] in ('le', 'lt') and len(fct) == 3:
                    k = 1 if fct[0] == 'lt' else 0
                    if self.ai.strip(self.st, fct[1]) == atom:
                        hi.append(self.lin(fct[2]).add(Lin(-k)))
                    if self.ai.strip(self.st, fct[2]) == atom:
                        lo.append(self.lin(fct[1]).add(Lin(k)))
        return lo, hi

    def multiple(self, l):
        """every atom of l is a multiple of 2^s"""
        for a in l.t:
            if a == self.P or (isinstance(a, tuple) and a and a[0] in ('M', 'R', 'X')):
                continue
            return False
        return l.c == 0

    # ------------------------------------------------------------------ proof search
    def prove_ge0(self, g, depth=0):
        if not g.t:
            return g.c >= 0
        if depth > 7:
            return False
        k = (self.key(g), )
        if k in self.memo:
            return self.memo[k]
        self.memo[k] = False
        # pick an atom, replace it by a bound in the direction that keeps the inequality sufficient
        for a, c in sorted(g.t.items(), key=lambda kv: (0 if isinstance(kv[0], tuple) and kv[0] and kv[0][0] in ('M', 'R') else 1, repr(kv[0]))):
            lo, hi = self.bounds(a)
            cands = lo if c > 0 else hi
            for bnd in cands:
                rest = g.copy()
                del rest.t[a]
                g2 = rest.add(bnd, c)
                if self.key(g2) == self.key(g):
                    continue
                if self.prove_ge0(g2, depth + 1):
                    self.memo[k] = True
                    return True
        return False

    def prove_le(self, a, b, strict=False):
        g = self.lin(b).add(self.lin(a), -1)
        if strict:
            g = g.add(Lin(-1))
        return self.prove_ge0(g)

"""Facts loader: wraps the JSON written by qmir into navigable objects.

Everything here is about the *resolved program* (MIR with resolved callees,
types, CFG).  No rule logic lives in this file.
"""
import json
import os
from functools import lru_cache


class AnalysisError(Exception):
    """The engine cannot establish what it needs (missing anchor, unresolved
    await, count below floor).  Never a pass: the check exits 2."""


# --------------------------------------------------------------------------- pretty printing

def pl_str(p):
    s = '_%d' % p['l']
    for e in p['p']:
        k = e['k']
        if k == 'deref':
            s = '(*%s)' % s
        elif k == 'field':
            s += '.%s' % (e['n'] or e['i'])
        elif k == 'downcast':
            s = '(%s as %s)' % (s, e['n'])
        elif k == 'index':
            s += '[_%d]' % e['l']
        else:
            s += '[%s]' % k
    return s


def op_str(o):
    if o['k'] in ('copy', 'move'):
        return o['k'] + ' ' + pl_str(o['pl'])
    if o['k'] == 'const':
        if 'v' in o:
            return 'const ' + o['v']
        return 'const ' + str(o.get('fn', o.get('u')))
    return str(o)


def rv_str(r):
    k = r['k']
    if k in ('use', 'cast', 'bin', 'un', 'repeat'):
        return k + (':' + r['op'] if 'op' in r else '') + '(' + ', '.join(op_str(o) for o in r['ops']) + ')'
    if k in ('ref', 'rawptr', 'discr'):
        return k + ' ' + pl_str(r['pl'])
    if k == 'agg':
        return 'agg %s %s %s(' % (r['ak'], r.get('p', ''), r.get('vn', '')) + ', '.join(op_str(o) for o in r['ops']) + ')'
    return str(r)


# --------------------------------------------------------------------------- model

class Body:
    def __init__(self, facts, j):
        self.facts = facts
        self.j = j
        self.path = j['path']
        self.kind = j['kind']
        self.parent = j.get('parent')
        self.root = j['root']
        self.is_coroutine = j['coroutine']
        self.is_async_fn = j.get('async', False)
        self.argc = j['argc']
        self.locals = j['locals']            # type ids
        self.blocks = j['blocks']
        self.generics = j['generics']
        self.upvars = j.get('upvars') or []
        self.span = j['span']
        self.names = {}                      # local -> user variable name
        self.upvar_of_name = {}
        for d in j['dbg']:
            p = d['pl']
            if not p['p']:
                self.names.setdefault(p['l'], d['n'])
        self._succ = None
        self._pred = None
        self._dom = None
        self._pdom = None
        self._calls = None

    # -- basic accessors
    def file(self):
        return self.span['f']

    def line(self):
        return self.span['l']

    def short(self):
        """Function name without the impl path noise."""
        p = self.path
        return p

    def ty(self, local):
        return self.facts.types[self.locals[local]]

    def tystr(self, local):
        return self.ty(local)['s']

    def lname(self, local):
        return self.names.get(local, '_%d' % local)

    def type_params(self):
        return [g['n'] for g in self.generics if g['k'] == 'type']

    # -- CFG (cleanup blocks and the Pending arm of awaits are not part of it)
    def succ(self):
        if self._succ is None:
            s = []
            for b in self.blocks:
                t = b['term']
                k = t['k']
                if b['cleanup']:
                    s.append([])
                elif k == 'goto':
                    s.append([t['t']])
                elif k == 'switch':
                    out = [x['t'] for x in t['ts']] + [t['o']]
                    # dedupe, keep order
                    seen = []
                    for x in out:
                        if x not in seen:
                            seen.append(x)
                    s.append(seen)
                elif k in ('call', 'assert', 'drop'):
                    s.append([t['t']] if t['t'] >= 0 else [])
                elif k == 'yield':
                    # an await's Pending arm: the task is suspended here and the
                    # loop re-polls; for every analysis the await is one event at
                    # the poll block, so the suspended arm is a dead end
                    s.append([])
                else:
                    s.append([])
            self._succ = s
        return self._succ

    def pred(self):
        if self._pred is None:
            p = [[] for _ in self.blocks]
            for i, ss in enumerate(self.succ()):
                for t in ss:
                    p[t].append(i)
            self._pred = p
        return self._pred

    def reachable(self, start=0, avoid=()):
        seen = set()
        st = [start]
        succ = self.succ()
        while st:
            b = st.pop()
            if b in seen or b in avoid:
                continue
            seen.add(b)
            st.extend(succ[b])
        return seen

    def returns(self):
        return [i for i, b in enumerate(self.blocks) if b['term']['k'] == 'return' and not b['cleanup']]

    def dominators(self):
        """dom[b] = set of blocks dominating b (iterative; bodies are small)."""
        if self._dom is None:
            n = len(self.blocks)
            reach = self.reachable()
            order = self._rpo()
            dom = {b: None for b in reach}
            dom[0] = {0}
            pred = self.pred()
            changed = True
            while changed:
                changed = False
                for b in order:
                    if b == 0:
                        continue
                    ps = [dom[p] for p in pred[b] if p in reach and dom[p] is not None]
                    if not ps:
                        continue
                    new = set.intersection(*ps) | {b}
                    if new != dom[b]:
                        dom[b] = new
                        changed = True
            self._dom = {b: (d or {b}) for b, d in dom.items()}
        return self._dom

    def _rpo(self):
        seen = set()
        out = []
        succ = self.succ()

        def dfs(b):
            stack = [(b, iter(succ[b]))]
            seen.add(b)
            while stack:
                node, it = stack[-1]
                adv = False
                for s in it:
                    if s not in seen:
                        seen.add(s)
                        stack.append((s, iter(succ[s])))
                        adv = True
                        break
                if not adv:
                    out.append(node)
                    stack.pop()
        dfs(0)
        out.reverse()
        return out

    def dominates(self, a, b):
        d = self.dominators()
        return b in d and a in d[b]

    def calls(self):
        """(block index, terminator) for every call terminator in the CFG."""
        if getattr(self, '_calls', None) is None:
            reach = self.reachable()
            self._calls = [(i, b['term']) for i, b in enumerate(self.blocks)
                           if i in reach and b['term']['k'] == 'call']
        return self._calls

    def where(self, bi):
        t = self.blocks[bi]['term']
        sp = t.get('sp')
        if sp is None:
            for s in self.blocks[bi]['st']:
                if 'sp' in s:
                    sp = s['sp']
                    break
        if sp is None:
            return '%s:%s' % (rel(self.span['f']), self.span['l'])
        return '%s:%s' % (rel(sp['f']), sp['l'])

    def dump(self, out=print):
        T = self.facts.types
        out('===== %s argc %d upvars %s' % (self.path, self.argc, self.upvars))
        for i, t in enumerate(self.locals):
            out('  _%d %s: %s' % (i, self.names.get(i, ''), T[t]['s'][:110]))
        for i, bl in enumerate(self.blocks):
            if bl['cleanup']:
                continue
            out(' bb%d:' % i)
            for s in bl['st']:
                if s['k'] == 'assign':
                    out('    %s = %s' % (pl_str(s['pl']), rv_str(s['rv'])))
                elif s['k'] == 'dead':
                    out('    dead _%d' % s['l'])
            t = bl['term']
            if t['k'] == 'call':
                out('    %s = call %s<%s>(%s) -> bb%s   @%s %s' % (
                    pl_str(t['dst']), t.get('fn', t.get('fnop')),
                    ','.join(T[x]['s'][:60] if x >= 0 else '?' for x in t.get('a', [])),
                    ', '.join(op_str(a) for a in t['args']), t['t'], t['sp']['l'], t['sp']['m']))
            elif t['k'] == 'switch':
                out('    switch %s %s o=%s' % (op_str(t['d']), [(x['v'], x['t']) for x in t['ts']], t['o']))
            elif t['k'] == 'assert':
                out('    assert %s == %s (%s) -> bb%s @%s' % (op_str(t['c']), t['e'], t['msg'][:60], t['t'], t['sp']['l']))
            elif t['k'] == 'drop':
                out('    drop %s -> bb%s' % (pl_str(t['pl']), t['t']))
            else:
                out('    %s' % {k: v for k, v in t.items() if k != 'sp'})


_REPO = os.environ.get('QV_REPO', '/repo')


def rel(f):
    if f.startswith(_REPO + '/'):
        return f[len(_REPO) + 1:]
    return f


class Facts:
    def __init__(self, path, fold_async=True, raw=None):
        import hashlib
        self._fold_async = fold_async
        self._nofold = None
        if raw is None:
            with open(path, 'rb') as fh:
                raw = fh.read()
        self._raw = raw
        j = json.loads(raw)
        # content digest without the per-run nonce
        self.digest = hashlib.sha256(raw.replace(str(j.get('nonce', '')).encode(), b'')).hexdigest()
        self.j = j
        self.path = path
        from . import inline as _inl
        _kn = _inl.known_functions()
        self.folded = _inl.fold_unknown_helpers(j, _kn)
        if fold_async:
            self.folded += _inl.fold_unknown_async(j, _kn)
        self.nonce = j['nonce']
        self.crate = j['crate']
        self.types = j['types']
        self.adts = {a['path']: a for a in j['adts']}
        self.fns = {f['path']: f for f in j['fns']}
        self.bodies = {}
        self.body_list = []
        gone = set()
        kept = _inl.still_called(j, {h for (_c, h) in self.folded})
        for (_c, h) in self.folded:
            if h in kept:
                continue
            gone.add(h)
            gone.add(h + '::{closure#0}')
        self.folded_helpers = gone
        for b in j['bodies']:
            bo = Body(self, b)
            self.bodies[bo.path] = bo
            if bo.path in gone and all(c != bo.path for (c, _h) in self.folded):
                continue        # a helper folded into its callers: not scanned on its own (still reachable by path)
            self.body_list.append(bo)
        # trait impl table: (trait path, self type id) -> {method name: def path}
        self.impls = []
        self.trait_defs = {}
        for im in j['impls']:
            if 'trait_def' in im:
                self.trait_defs[im['trait_def']] = {m['n']: m for m in im['methods']}
            else:
                self.impls.append(im)
        self._coroutines_of = {}

    def without_async_folding(self):
        """the same facts with unknown *async* helpers left as calls (engine G follows awaits with its own modular
        assume/guarantee analysis and needs the future/await structure intact)"""
        if not self._fold_async:
            return self
        if not any(h + '::{closure#0}' in self.folded_helpers and (h + '::{closure#0}') in self.bodies and self.bodies[h + '::{closure#0}'].is_coroutine
                   for (_c, h) in self.folded):
            return self
        if self._nofold is None:
            self._nofold = Facts(self.path, fold_async=False, raw=self._raw)
        return self._nofold

    # ---- types
    def T(self, i):
        return self.types[i]

    def tstr(self, i):
        return self.types[i]['s'] if i is not None and i >= 0 else '?'

    def type_contains(self, tid, pred, depth=0, _seen=None):
        """True if the type tree rooted at tid has a node satisfying pred."""
        if tid is None or tid < 0:
            return False
        if _seen is None:
            _seen = set()
        if tid in _seen:
            return False
        _seen.add(tid)
        t = self.types[tid]
        if pred(t):
            return True
        for k in ('a', 'u'):
            for x in t.get(k, []):
                if self.type_contains(x, pred, depth + 1, _seen):
                    return True
        if isinstance(t.get('t'), int):
            if self.type_contains(t['t'], pred, depth + 1, _seen):
                return True
        for pj in t.get('proj', []):
            if self.type_contains(pj['t'], pred, depth + 1, _seen):
                return True
        return False

    def walk_type(self, tid, _seen=None):
        if tid is None or tid < 0:
            return
        if _seen is None:
            _seen = set()
        if tid in _seen:
            return
        _seen.add(tid)
        t = self.types[tid]
        yield tid, t
        for k in ('a', 'u'):
            for x in t.get(k, []):
                yield from self.walk_type(x, _seen)
        if isinstance(t.get('t'), int):
            yield from self.walk_type(t['t'], _seen)
        for pj in t.get('proj', []):
            yield from self.walk_type(pj['t'], _seen)

    # ---- functions
    def body(self, path):
        return self.bodies.get(path)

    def coroutines_of(self, fn_path):
        """Coroutine bodies constructed directly in the body of fn_path (for an
        `async fn` exactly one; for #[async_recursion] fns the boxed one)."""
        if fn_path not in self._coroutines_of:
            out = []
            b = self.bodies.get(fn_path)
            if b is not None:
                for bl in b.blocks:
                    for s in bl['st']:
                        if s['k'] == 'assign' and s['rv']['k'] == 'agg' and s['rv'].get('ak') == 'coroutine':
                            out.append(s['rv']['p'])
            self._coroutines_of[fn_path] = out
        return self._coroutines_of[fn_path]

    def find_bodies(self, suffix):
        return [b for b in self.body_list if b.path.endswith(suffix)]

    def resolve_trait_method(self, trait, name, self_tid):
        """Resolve `<Self as trait>::name` through the local impl table.
        Returns the def path of the implementing fn, or None."""
        if self_tid is None or self_tid < 0:
            return None
        st = self.types[self_tid]
        if st['k'] == 'ref':
            # autoref'd receivers resolve on the referent for our traits
            pass
        for im in self.impls:
            if im.get('trait') != trait:
                continue
            if self._same_head(im['self'], self_tid):
                for m in im['methods']:
                    if m['n'] == name:
                        return m['p']
                td = self.trait_defs.get(trait, {})
                if name in td and td[name]['default']:
                    return td[name]['p']
        return None

    def _same_head(self, a, b):
        ta, tb = self.types[a], self.types[b]
        if ta['k'] != tb['k']:
            return False
        if ta['k'] == 'adt':
            return ta['p'] == tb['p']
        return ta['s'] == tb['s']


def load(path):
    return Facts(path)

"""Engine E: error-value discipline (C17.1) — no Result<_, Qcow2Error> coming
out of a call or an await is dropped without being looked at."""
from .interp import POLL_NAMES


def is_result_ty(f, tid, depth=0):
    """Result<_, Qcow2Error>, or a Vec / tuple / Poll / Option of them."""
    if tid is None or tid < 0 or depth > 4:
        return False
    t = f.types[tid]
    if t['k'] == 'adt':
        if t['p'] == 'std::result::Result' and len(t['a']) == 2:
            e = f.types[t['a'][1]] if t['a'][1] >= 0 else None
            return e is not None and e.get('p', '').endswith('Qcow2Error')
        if t['p'] in ('std::vec::Vec', 'std::task::Poll', 'std::option::Option'):
            return any(is_result_ty(f, a, depth + 1) for a in t['a'][:1])
    if t['k'] == 'tuple':
        return any(is_result_ty(f, a, depth + 1) for a in t['a'])
    return False


EXAMINED = [0]


def dropped_results(f, body):
    """[(block, description)] of result values that are only dropped."""
    out = []
    # uses of locals
    uses = {}

    def use(l, kind, bi):
        uses.setdefault(l, []).append((kind, bi))
    moves = {}     # src local -> dst locals (whole or partial moves)
    for bi, bl in enumerate(body.blocks):
        if bl['cleanup']:
            continue
        for s in bl['st']:
            if s['k'] != 'assign':
                continue
            rv = s['rv']
            dst = s['pl']['l']
            srcs = []
            if rv['k'] in ('ref', 'rawptr', 'discr'):
                use(rv['pl']['l'], rv['k'], bi)
            for o in rv.get('ops', []):
                if o['k'] in ('copy', 'move'):
                    srcs.append(o['pl']['l'])
            for sl in srcs:
                if rv['k'] in ('use', 'agg', 'cast') :
                    moves.setdefault(sl, set()).add(dst)
                else:
                    use(sl, 'read', bi)
        t = bl['term']
        if t['k'] == 'call':
            for a in t['args']:
                if a['k'] in ('copy', 'move'):
                    use(a['pl']['l'], 'arg:' + str(t.get('fn')), bi)
        elif t['k'] == 'switch':
            if t['d']['k'] in ('copy', 'move'):
                use(t['d']['pl']['l'], 'switch', bi)
        elif t['k'] == 'assert':
            if t['c']['k'] in ('copy', 'move'):
                use(t['c']['pl']['l'], 'assert', bi)
        elif t['k'] == 'return':
            use(0, 'return', bi)
    for bi, t in body.calls():
        dst = t['dst']['l']
        if t['dst']['p']:
            continue
        fn = t.get('fn') or ''
        if fn in ('std::ops::Try::branch', 'std::ops::FromResidual::from_residual') or fn.endswith('::into_future'):
            continue
        if not is_result_ty(f, body.locals[dst]):
            continue
        EXAMINED[0] += 1
        # closure of locals the value is moved into
        seen = set()
        work = [dst]
        if fn in POLL_NAMES:
            # the poll result is Poll<Output>: reading its discriminant is not
            # looking at the output; start from where the Ready payload goes
            work = []
            for bl in body.blocks:
                for s in bl['st']:
                    if s['k'] == 'assign' and s['rv']['k'] == 'use':
                        o = s['rv']['ops'][0]
                        if o['k'] in ('copy', 'move') and o['pl']['l'] == dst and \
                                any(e['k'] == 'downcast' and e['n'] == 'Ready' for e in o['pl']['p']):
                            work.append(s['pl']['l'])
            if not work:
                continue
        consumed = False
        while work and not consumed:
            l = work.pop()
            if l in seen:
                continue
            seen.add(l)
            if l == 0:
                consumed = True
                break
            for (k, _b) in uses.get(l, []):
                consumed = True
                break
            work.extend(moves.get(l, ()))
        if not consumed:
            what = fn
            if fn in POLL_NAMES:
                what = 'await of ' + f.types[t['a'][0]]['s'][:120]
            out.append((bi, what))
    return out

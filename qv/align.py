"""Engine G: alignment analysis on top of engine F (qv/absint.py).

"v is a multiple of 2^t" facts, with t a *symbolic* shift: the geometry fields of
Qcow2Info are replaced by global symbols BS <= L2S, RBS <= CL (block, slice,
cluster shifts), so a value proved a multiple of the cluster size is a multiple
of the block size for every configuration.

Modular (assume/guarantee) over the async call graph: each function's backend
requests are sinks; what a sink needs from the function's parameters becomes the
function's precondition, which turns the function's call sites into sinks of its
callers, until the public API (whose arguments are validated against the block
size) is reached.
"""
from .absint import AbsInt, State, Bottom, mentions, fmt_itv, short_vn, subterms, INF, RANGES
from .facts import AnalysisError


def sym(name, lo, hi):
    return ('u', ('ranged', ('sym', name), lo, hi), 'u8')


BS = sym('BS', 9, 12)
CL = sym('CL', 9, 21)
L2S = sym('L2S', 9, 21)
RBS = sym('RBS', 9, 21)
RO = sym('RO', 0, 6)
INFO = 'dev::info::Qcow2Info'
ONE = ('c', 1)


def shl1(s):
    return ('wrap', ('bin', 'Shl', ONE, s), 'usize')


class AlignInt(AbsInt):
    def __init__(self, facts, **kw):
        AbsInt.__init__(self, facts, **kw)
        self.al_sources = []          # callables(ai, st, vn, t) -> bool
        self.async_calls = []         # (caller body path, bi, callee fn path, args, state, frame)
        self.trait_calls = []
        self.aligned_ptr_fns = ('Table::as_ptr', 'Table::as_mut_ptr')
        self.info_syms = {
            'block_size_shift': BS, 'cluster_shift': CL, 'l2_slice_bits': L2S, 'rb_slice_bits': RBS,
            'refcount_order': RO,
            'in_cluster_offset_mask': ('bin', 'Sub', shl1(CL), ONE),
            'l2_slice_entries': ('wrap', ('bin', 'Shl', ONE, ('bin', 'Sub', L2S, ('c', 3))), 'u32'),
            'l2_index_shift': ('bin', 'Sub', CL, ('c', 3)),
            'l2_slice_index_shift': ('bin', 'Sub', L2S, ('c', 3)),
            'l2_index_mask': ('bin', 'Sub', ('wrap', ('bin', 'Shl', ONE, ('bin', 'Sub', CL, ('c', 3))), 'usize'), ONE),
        }

    # ------------------------------------------------------------------ symbols
    def base_state(self):
        st = State()
        st.le.update({('le', BS, L2S), ('le', L2S, CL), ('le', BS, RBS), ('le', RBS, CL), ('le', BS, CL)})
        return st

    def read_place(self, st, b, frame, pl):
        pr = pl['p']
        if pr and pr[-1]['k'] == 'field' and pr[-1].get('n') in self.info_syms:
            parent = {'l': pl['l'], 'p': pr[:-1]}
            ptid = self.place_tid(b, parent)
            if ptid is not None and self.f.types[ptid].get('p') == INFO:
                return self.info_syms[pr[-1]['n']]
        v = AbsInt.read_place(self, st, b, frame, pl)
        if pr:
            last = [e for e in pr if e['k'] == 'field'][-1:] 
            if last and last[0].get('n') in ('l1_table_offset', 'refcount_table_offset'):
                self.add_al(st, v, CL)          # validated by the header parser
            for idx, e in enumerate(pr):
                if e['k'] == 'field' and e.get('n') == 'cluster_offset' and not any(x in b.path for x in self.mapping_except):
                    parent = {'l': pl['l'], 'p': pr[:idx]}
                    ptid = self.place_tid(b, parent)
                    if ptid is not None and self.f.types[ptid].get('p') == 'meta::l2::Mapping':
                        pay = v[2] if v[0] == 'opt' else v
                        if self.vn_ty(pay) in ('u64', None):
                            self.add_al(st, pay, CL)
                            self.used_mapping_assumption = True
        return v

    # ------------------------------------------------------------------ state: alignment facts live in st.le as ('al', v, t)
    def add_al(self, st, v, t):
        st.le.add(('al', v, t))

    def pow2_shift(self, st, v):
        """v == 2^s  ->  s (a vn), else None"""
        if v[0] in ('wrap', 'cast'):
            r = self.trange(v[2])
            i = self.itvof(st, v[1])
            if r and i and i[0] >= r[0] and i[1] <= r[1]:
                return self.pow2_shift(st, v[1])
            return None
        if v[0] == 'c':
            n = v[1]
            if n > 0 and n & (n - 1) == 0:
                return ('c', n.bit_length() - 1)
            return None
        if v[0] == 'bin' and v[1] == 'Shl':
            s0 = self.pow2_shift(st, v[2])
            if s0 is not None:
                return v[3] if s0 == ('c', 0) else self.mk_bin('Add', s0, v[3])
        return None

    def low_ones(self, st, v):
        """v has its low s bits all set (v = 2^s - 1 or ...111) -> s"""
        if v[0] in ('wrap', 'cast'):
            return self.low_ones(st, v[1])
        if v[0] == 'c':
            n = v[1]
            k = 0
            while n & 1:
                n >>= 1
                k += 1
            return ('c', k) if k else None
        if v[0] == 'bin' and v[1] == 'Sub' and v[3] == ONE:
            return self.pow2_shift(st, v[2])
        return None

    def is_mult(self, st, v, t, d=0):
        """v is a multiple of 2^t on every concrete state"""
        if d > 14:
            return False
        h = v[0]
        if h == 'c':
            it = self.itvof(st, t)
            if v[1] == 0:
                return True
            return it is not None and it[1] < 200 and v[1] % (1 << it[1]) == 0
        s = self.pow2_shift(st, v)
        if s is not None:
            return self.prove_le(st, t, s)
        for fct in st.le:
            if fct[0] == 'al' and fct[1] == v and self.prove_le(st, t, fct[2]):
                return True
        if h in ('wrap', 'cast'):
            return self.is_mult(st, v[1], t, d + 1)
        if h == 'bin':
            op, a, c = v[1], v[2], v[3]
            if op == 'Add':
                for one, o in ((a, c), (c, a)):
                    if one == ONE and o[0] == 'bin' and o[1] == 'BitOr':
                        for m in (o[2], o[3]):
                            lo = self.low_ones(st, m)
                            if lo is not None and self.prove_le(st, t, lo):
                                return True
                    if one == ONE and o[0] in ('wrap', 'cast') and o[1][0] == 'bin' and o[1][1] == 'BitOr':
                        for m in (o[1][2], o[1][3]):
                            lo = self.low_ones(st, m)
                            if lo is not None and self.prove_le(st, t, lo):
                                return True
            if op in ('Add', 'Sub', 'BitOr', 'BitXor'):
                if op == 'Sub' and a[0] == 'c' and a[1] in (RANGES['u64'][1], RANGES['u32'][1], RANGES['usize'][1]):
                    # !y : low t bits are zero iff the low t bits of y are ones
                    lo = self.low_ones(st, c)
                    return lo is not None and self.prove_le(st, t, lo)
                return self.is_mult(st, a, t, d + 1) and self.is_mult(st, c, t, d + 1)
            if op in ('Mul', 'BitAnd'):
                return self.is_mult(st, a, t, d + 1) or self.is_mult(st, c, t, d + 1)
            if op == 'Shl':
                if self.prove_le(st, t, c) or self.is_mult(st, a, t, d + 1):
                    return True
                # (a << c) with a multiple of 2^k: multiple of 2^(k+c)
                return False
            return False
        if h in ('min', 'max'):
            return self.is_mult(st, v[1], t, d + 1) and self.is_mult(st, v[2], t, d + 1)
        for src in self.al_sources:
            if src(self, st, v, t):
                return True
        return False

    def round_up_ge(self, st, a, b, d):
        x = b
        while x[0] in ('wrap', 'cast'):
            x = x[1]
        if x[0] != 'bin' or x[1] != 'BitAnd':
            return False
        for s_, m_ in ((x[2], x[3]), (x[3], x[2])):
            # m_ = !mask
            if not (m_[0] == 'bin' and m_[1] == 'Sub' and m_[2][0] == 'c' and m_[2][1] in ((1 << 64) - 1, (1 << 32) - 1)):
                continue
            lo = self.low_ones(st, m_[3])
            if lo is None:
                continue
            y = s_
            while y[0] in ('wrap', 'cast'):
                y = y[1]
            if y[0] == 'bin' and y[1] == 'Add':
                for p_, q_ in ((y[2], y[3]), (y[3], y[2])):
                    lq = self.low_ones(st, q_)
                    if lq is not None and lq == lo and (p_ == a or self.prove_le(st, a, p_, False, d + 3)):
                        return True
        return False

    # alignment facts from comparisons:  x & (size-1) == 0
    def assume(self, st, vn, truth, d=0):
        AbsInt.assume(self, st, vn, truth, d)
        if vn[0] == 'cmp' and vn[1] in ('Lt', 'Gt', 'Le', 'Ge'):
            op, a, c = vn[1], vn[2], vn[3]
            if not truth:
                op = {'Lt': 'Ge', 'Ge': 'Lt', 'Gt': 'Le', 'Le': 'Gt'}[op]
            if op == 'Gt':
                op, a, c = 'Lt', c, a
            if op == 'Lt':
                # a < c, both multiples of 2^t  =>  a + 2^t <= c
                for t in (CL, L2S, RBS, BS):
                    try:
                        if self.is_mult(st, a, t) and self.is_mult(st, c, t):
                            st.le.add(('le', self.mk_bin('Add', a, shl1(t)), c))
                            break
                    except RecursionError:
                        break
        if vn[0] == 'cmp' and vn[1] in ('Eq', 'Ne') and ((vn[1] == 'Eq') == truth):
            a, c = vn[2], vn[3]
            if a == ('c', 0):
                a, c = c, a
            if c == ('c', 0):
                x = a
                while x[0] in ('wrap', 'cast'):
                    x = x[1]
                if x[0] == 'bin' and x[1] == 'BitAnd':
                    for val, mask in ((x[2], x[3]), (x[3], x[2])):
                        lo = self.low_ones(st, mask)
                        if lo is not None:
                            self.add_al(st, val, lo)
                            v2 = val
                            while v2[0] in ('wrap', 'cast'):
                                v2 = v2[1]
                                self.add_al(st, v2, lo)
                if x[0] == 'bin' and x[1] == 'Rem':
                    s = self.pow2_shift(st, x[3])
                    if s is not None:
                        self.add_al(st, x[2], s)

    def join_phi(self, res, old, new, P, a, c, widen):
        AbsInt.join_phi(self, res, old, new, P, a, c, widen)
        if a[0] in ('sub', 'subfrom', 'subto', 'rawslice', 'u') and c[0] in ('sub', 'subfrom', 'subto', 'rawslice', 'u') \
                and self.vn_ty(a) is None and self.vn_ty(c) is None:
            try:
                if self.ptr_kind(old, a)[0] == 'ok' and self.ptr_kind(new, c)[0] == 'ok':
                    res.le.add(('al', ('ptr', P), BS))
                la, lc = self.len_of(a), self.len_of(c)
                if self.is_mult(old, la, BS) and self.is_mult(new, lc, BS):
                    res.le.add(('al', ('len', P), BS))
            except RecursionError:
                pass
        for t in (CL, L2S, RBS, BS, ('c', 12), ('c', 9)):
            try:
                if self.is_mult(old, a, t) and self.is_mult(new, c, t):
                    res.le.add(('al', P, t))
                    break
            except RecursionError:
                pass

    # ------------------------------------------------------------------ calls
    def is_async_fn(self, fn):
        return bool(fn) and bool(self.f.coroutines_of(fn))

    def do_call(self, b, frame, bi, t, st, depth):
        fn = t.get('fn') or ''
        if any(fn.endswith(x) for x in self.extra_sinks):
            args = [self.operand(st, b, frame, a) for a in t['args']]
            if not self.quiet:
                self.async_calls.append((b.path, bi, fn, t.get('name') or fn.rsplit('::', 1)[-1], args, st.copy(), frame, t))
            if t['t'] < 0:
                return []
            res = self.ret_opaque(st, b, frame, bi, t)
            cell, tid = self.resolve(st, b, frame, t['dst'])
            self.write_cell(st, cell, res)
            return [(t['t'], st)]
        if self.is_async_fn(fn) and (fn + '::{closure#0}') in getattr(self.f, 'folded_helpers', ()):
            # a helper whose coroutine was folded into this body at its poll: the future is just the captured
            # arguments (what the constructor of the coroutine builds)
            args = [self.operand(st, b, frame, a) for a in t['args']]
            if t['t'] < 0:
                return []
            cell, tid = self.resolve(st, b, frame, t['dst'])
            if tid is not None:
                self.cellty[cell] = tid
            self.write_cell(st, cell, ('agg', ('closure', fn + '::{closure#0}'), 0, tuple(args)))
            return [(t['t'], st)]
        if t.get('trait') == 'ops::Qcow2IoOps' or self.is_async_fn(fn) or any(fn.endswith(x) for x in self.sync_sinks):
            args = [self.operand(st, b, frame, a) for a in t['args']]
            rec = (b.path, bi, fn, t.get('name') or fn.rsplit('::', 1)[-1], args, st.copy(), frame, t)
            if not self.quiet:
                (self.trait_calls if t.get('trait') == 'ops::Qcow2IoOps' else self.async_calls).append(rec)
            if t.get('trait') == 'ops::Qcow2IoOps' or self.is_async_fn(fn):
                if t['t'] < 0:
                    return []
                res = self.ret_opaque(st, b, frame, bi, t)
                cell, tid = self.resolve(st, b, frame, t['dst'])
                self.write_cell(st, cell, res)
                return [(t['t'], st)]
        return AbsInt.do_call(self, b, frame, bi, t, st, depth)

    sync_sinks = ()
    extra_sinks = ()
    mapping_except = ()
    used_mapping_assumption = False

    def model(self, st, b, frame, bi, t, fn, args):
        if fn.endswith(('ptr::const_ptr::<impl *const T>::add', 'ptr::mut_ptr::<impl *mut T>::add',
                        'ptr::const_ptr::<impl *const T>::byte_add', 'ptr::mut_ptr::<impl *mut T>::byte_add')) and len(args) == 2:
            # p.add(n) on a byte pointer: the same buffer, n bytes further (only u8 element pointers occur here)
            return ('bin', 'Add', args[0], args[1])
        if fn.endswith('slice::from_raw_parts') or fn.endswith('slice::from_raw_parts_mut'):
            return ('rawslice', args[0], args[1], b.path)
        for suf in self.aligned_ptr_fns:
            if fn.endswith(suf):
                return ('u', ('alignedptr', fn, args[0] if args else None), None)
        if fn.endswith('Qcow2Info::block_size') and self.callee_body(t, fn) is None:
            return shl1(BS)
        if (fn.endswith('ops::Deref::deref') or fn.endswith('ops::DerefMut::deref_mut')) and self.callee_body(t, fn) is None and t.get('a'):
            ty0 = self.f.types[t['a'][0]]
            if ty0['k'] == 'adt' and ty0['p'].endswith('helpers::Qcow2IoBuf'):
                # the library's 4096-aligned buffer seen from another crate
                return ('rawslice', ('u', ('alignedptr', fn, args[0]), None), ('u', ('iobuflen', args[0]), 'usize'), 'helpers::Qcow2IoBuf')
        if fn.endswith('Qcow2DevParams::get_bs_bits'):
            return BS
        if fn.endswith('Qcow2Header::cluster_bits'):
            return CL
        if fn.endswith('slice::<impl [T]>::split_at') or fn.endswith('slice::<impl [T]>::split_at_mut'):
            return ('agg', 'tuple', 0, (('subto', args[0], args[1]), ('subfrom', args[0], args[1])))
        if fn.endswith('future::IntoFuture::into_future'):
            return args[0]
        if fn.endswith('Pin::<Ptr>::new_unchecked') or fn.endswith('Pin::<Ptr>::new'):
            return ('agg', 'pin', 0, (args[0],))
        if fn.endswith('Future::poll') and args:
            fut = args[0]
            if fut[0] == 'agg' and fut[1] == 'pin':
                fut = fut[3][0]
            if fut[0] == 'ref':
                fut = self.read_cell(st, fut[1], None)
            dtid = self.place_tid(b, t['dst'])
            ptid = self.poll_payload_tid(dtid)
            inner = self.typed_unknown(('await', fut), ptid)
            return ('opt', 'Poll', inner, ('u', ('await', fut, 'ready'), 'bool'))
        if fn.endswith('Table::byte_size') and args:
            v = ('u', ('bytesize', args[0]), 'usize')
            return v
        return AbsInt.model(self, st, b, frame, bi, t, fn, args)

    def poll_payload_tid(self, tid):
        if tid is None:
            return None
        t = self.f.types[tid]
        if t['k'] == 'adt' and t['p'].endswith('task::Poll') and t.get('a'):
            return t['a'][0]
        return None

    def typed_unknown(self, key, tid):
        k = self.kind_of_tid(tid) if tid is not None else None
        if k:
            return ('opt', k, self.typed_unknown(key + ('ok',), self.payload_tid(tid)), ('u', key + ('succ',), 'bool'))
        return ('u', key, self.tname(tid))

    def len_of(self, p):
        if p[0] == 'rawslice':
            return p[2]
        return AbsInt.len_of(self, p)

    # ------------------------------------------------------------------ buffers
    def ptr_kind(self, st, p, d=0):
        """-> ('ok', why) | ('bad', why) for the address of the first byte"""
        if d > 10:
            return ('bad', 'too deep')
        h = p[0]
        if h == 'rawslice':
            ptr, creator = p[1], p[3]
            if 'helpers::Qcow2IoBuf' in creator:
                return ('ok', 'Qcow2IoBuf (4096-aligned allocation)')
            return self.rawptr_kind(st, ptr, d + 1)
        if h in ('sub', 'subfrom'):
            k = self.ptr_kind(st, p[1], d + 1)
            if k[0] != 'ok':
                return k
            if self.is_mult(st, p[2], BS):
                return ('ok', k[1] + ' at a block-aligned offset')
            return ('bad', 'sub-slice start %s is not a multiple of the block size' % self.show(st, p[2]))
        if h == 'subto':
            return self.ptr_kind(st, p[1], d + 1)
        if h == 'vslice':
            return ('bad', 'heap Vec (byte aligned)')
        if h == 'ref':
            return ('bad', 'local array / value on the stack')
        if ('al', ('ptr', p), BS) in st.le:
            return ('ok', "the caller's buffer (aligned by hypothesis)")
        return ('bad', 'buffer of unknown origin: %s' % short_vn(p))

    def rawptr_kind(self, st, ptr, d=0):
        while ptr[0] in ('wrap', 'cast'):
            ptr = ptr[1]
        if ptr[0] == 'u' and isinstance(ptr[1], tuple) and ptr[1] and ptr[1][0] == 'cast':
            return self.rawptr_kind(st, ptr[1][1], d + 1)
        if ptr[0] == 'u' and isinstance(ptr[1], tuple) and ptr[1] and ptr[1][0] == 'alignedptr':
            return ('ok', 'table buffer (Qcow2IoBuf behind Table::as_ptr)')
        if ptr[0] == 'bin' and ptr[1] == 'Add':
            for base, off in ((ptr[2], ptr[3]), (ptr[3], ptr[2])):
                k = self.rawptr_kind(st, base, d + 1)
                if k[0] == 'ok':
                    if self.is_mult(st, off, BS):
                        return ('ok', k[1] + ' at a block-aligned offset')
                    return ('bad', 'pointer offset %s is not a multiple of the block size' % self.show(st, off))
        return ('bad', 'raw pointer of unknown origin: %s' % short_vn(ptr))

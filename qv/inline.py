"""Folding of helper functions the rule tables do not know back into their callers.

The intraprocedural rules are anchored in functions of the library (by name) and look at the code of that
function.  A behaviour-preserving refactor that *extracts* part of such a function into a new private helper
would move the code away from the anchor.  Before any rule runs, every synchronous function of the crate
whose path is not in /verif/anchors/functions.txt (the functions that existed when the rules were written,
i.e. the vocabulary of the rule tables) is inlined at its direct call sites (MIR level: locals renumbered,
blocks appended, `return` turned into an assignment of the destination and a jump to the continuation).
Functions of the vocabulary are never inlined - the rules refer to them by name.  An unknown *async* helper is
folded at the point where its future is polled: the coroutine body replaces the `Future::poll` call (its state
parameter is bound to the future, its `return` becomes `Poll::Ready(value)`), nested awaits stay awaits.
"""
import copy
import os

KNOWN = os.path.join(os.path.dirname(os.path.dirname(os.path.abspath(__file__))), 'anchors', 'functions.txt')
MAX_BLOCKS = 400
MAX_DEPTH = 4


def known_functions():
    if not os.path.exists(KNOWN):
        return None
    with open(KNOWN) as fh:
        return {l.strip() for l in fh if l.strip() and not l.startswith('#')}


def _remap(x, lmap, bmap):
    """deep copy of a statement / terminator with locals and block targets renumbered"""
    if isinstance(x, list):
        return [_remap(v, lmap, bmap) for v in x]
    if not isinstance(x, dict):
        return x
    out = {}
    k = x.get('k')
    for key, v in x.items():
        if key in ('sp', 'span', 'layout'):
            out[key] = v
        elif key == 'l' and isinstance(v, int) and ('p' in x or k in ('live', 'dead', 'index')):
            out[key] = lmap(v)
        else:
            out[key] = _remap(v, lmap, bmap)
    return out


def _retarget(term, bmap):
    t = term
    k = t['k']
    if k in ('goto', 'yield'):
        t['t'] = bmap(t['t'])
    elif k in ('call', 'assert', 'drop'):
        if t['t'] >= 0:
            t['t'] = bmap(t['t'])
    elif k == 'switch':
        for x in t['ts']:
            x['t'] = bmap(x['t'])
        t['o'] = bmap(t['o'])
    return t


def inline_into(caller_j, site_bi, callee_j):
    """splice callee into caller at the call in block site_bi (both JSON bodies); returns nothing"""
    blocks = caller_j['blocks']
    call = blocks[site_bi]['term']
    n0 = len(blocks)
    l0 = len(caller_j['locals'])
    caller_j['locals'] = list(caller_j['locals']) + list(callee_j['locals'])
    lmap = lambda l: l0 + l
    bmap = lambda b: n0 + b
    cont = call['t']
    dst = call['dst']
    sp = call.get('sp')
    # parameters := arguments
    st = blocks[site_bi]['st']
    for i, a in enumerate(call['args']):
        if i + 1 > callee_j['argc']:
            break
        s = {'k': 'assign', 'pl': {'l': l0 + i + 1, 'p': []}, 'rv': {'k': 'use', 'ops': [copy.deepcopy(a)]}}
        if sp is not None:
            s['sp'] = sp
        st.append(s)
    blocks[site_bi]['term'] = {'k': 'goto', 't': n0}
    for cb in callee_j['blocks']:
        nb = {'cleanup': cb['cleanup'], 'st': _remap(cb['st'], lmap, bmap), 'term': _remap(cb['term'], lmap, bmap)}
        _retarget(nb['term'], bmap)
        if nb['term']['k'] == 'return' and not cb['cleanup']:
            s = {'k': 'assign', 'pl': copy.deepcopy(dst), 'rv': {'k': 'use', 'ops': [{'k': 'move', 'pl': {'l': l0, 'p': []}}]}}
            if nb['term'].get('sp') is not None:
                s['sp'] = nb['term']['sp']
            nb['st'].append(s)
            nb['term'] = {'k': 'goto', 't': cont} if cont >= 0 else {'k': 'unreachable'}
        blocks.append(nb)
    for d in callee_j.get('dbg', []):
        p = d['pl']
        caller_j['dbg'].append({'n': d['n'], 'pl': {'l': l0 + p['l'], 'p': copy.deepcopy(p['p'])}})


def _def_of(body_j, local):
    """the unique whole-local definition statement / call of `local`: ('st', rv) | ('call', term) | None"""
    found = []
    for bl in body_j['blocks']:
        if bl['cleanup']:
            continue
        for s in bl['st']:
            if s['k'] == 'assign' and s['pl']['l'] == local and not s['pl']['p']:
                found.append(('st', s['rv']))
        t = bl['term']
        if t['k'] == 'call' and t['dst']['l'] == local and not t['dst']['p']:
            found.append(('call', t))
    return found[0] if len(found) == 1 else None


def _future_local(body_j, pin_operand):
    """Pin::new_unchecked(&mut *(&mut fut)) -> the local holding the future"""
    if pin_operand['k'] not in ('copy', 'move') or pin_operand['pl']['p']:
        return None
    d = _def_of(body_j, pin_operand['pl']['l'])
    if d is None or d[0] != 'call' or not (d[1].get('fn') or '').endswith('Pin::<Ptr>::new_unchecked'):
        return None
    a = d[1]['args'][0]
    for _ in range(4):
        if a['k'] not in ('copy', 'move'):
            return None
        d = _def_of(body_j, a['pl']['l'])
        if d is None or d[0] != 'st':
            return None
        rv = d[1]
        if rv['k'] == 'ref':
            pl = rv['pl']
            if not pl['p']:
                return pl['l']
            if all(e['k'] == 'deref' for e in pl['p']):
                a = {'k': 'copy', 'pl': {'l': pl['l'], 'p': []}}
                continue
            return None
        if rv['k'] == 'use' and rv['ops'][0]['k'] in ('copy', 'move') and not rv['ops'][0]['pl']['p']:
            a = rv['ops'][0]
            continue
        return None
    return None


def fold_async_at(caller_j, site_bi, callee_j, fut_local, poll_tid):
    """replace the Future::poll call in block site_bi by the coroutine body of the awaited helper"""
    blocks = caller_j['blocks']
    call = blocks[site_bi]['term']
    n0 = len(blocks)
    l0 = len(caller_j['locals'])
    caller_j['locals'] = list(caller_j['locals']) + list(callee_j['locals'])
    lmap = lambda l: l0 + l
    bmap = lambda b: n0 + b
    cont = call['t']
    dst = call['dst']
    sp = call.get('sp')
    st = blocks[site_bi]['st']
    s1 = {'k': 'assign', 'pl': {'l': l0 + 1, 'p': []}, 'rv': {'k': 'use', 'ops': [{'k': 'copy', 'pl': {'l': fut_local, 'p': []}}]}}
    s2 = {'k': 'assign', 'pl': {'l': l0 + 2, 'p': []}, 'rv': {'k': 'use', 'ops': [copy.deepcopy(call['args'][1])]}} if len(call['args']) > 1 else None
    for s in (s1, s2):
        if s is not None:
            if sp is not None:
                s['sp'] = sp
            st.append(s)
    blocks[site_bi]['term'] = {'k': 'goto', 't': n0}
    for cb in callee_j['blocks']:
        nb = {'cleanup': cb['cleanup'], 'st': _remap(cb['st'], lmap, bmap), 'term': _remap(cb['term'], lmap, bmap)}
        _retarget(nb['term'], bmap)
        if nb['term']['k'] == 'return' and not cb['cleanup']:
            s = {'k': 'assign', 'pl': copy.deepcopy(dst),
                 'rv': {'k': 'agg', 'ak': 'adt', 'p': 'std::task::Poll', 'v': 0, 'vn': 'Ready', 'a': [], 'dv': 0, 'dvs': [],
                        'ops': [{'k': 'move', 'pl': {'l': l0, 'p': []}}]}}
            if nb['term'].get('sp') is not None:
                s['sp'] = nb['term']['sp']
            nb['st'].append(s)
            nb['term'] = {'k': 'goto', 't': cont} if cont >= 0 else {'k': 'unreachable'}
        blocks.append(nb)
    for d in callee_j.get('dbg', []):
        p = d['pl']
        caller_j['dbg'].append({'n': d['n'], 'pl': {'l': l0 + p['l'], 'p': copy.deepcopy(p['p'])}})


def fold_unknown_async(facts_json, known):
    """-> list of (caller path, async helper path) folded at their await"""
    if known is None:
        return []
    bodies = {b['path']: b for b in facts_json['bodies']}
    types = facts_json['types']
    helpers = {}            # coroutine path -> async fn path
    for p, b in bodies.items():
        if b['coroutine'] and b.get('parent') and b['parent'] not in known and '::tests::' not in p \
                and p not in known and len(b['blocks']) <= MAX_BLOCKS and p.endswith('::{closure#0}'):
            helpers[p] = b['parent']
    done = []
    if not helpers:
        return done
    for _round in range(MAX_DEPTH):
        changed = False
        for p, b in bodies.items():
            if '::tests::' in p or not b['coroutine']:
                continue
            bi = 0
            while bi < len(b['blocks']):
                t = b['blocks'][bi]['term']
                if t['k'] == 'call' and t.get('fn') in ('futures::Future::poll', 'std::future::Future::poll', 'core::future::Future::poll') \
                        and t.get('a') and not b['blocks'][bi]['cleanup']:
                    ty = types[t['a'][0]] if 0 <= t['a'][0] < len(types) else None
                    cp = None
                    if ty is not None and ty.get('k') == 'coroutine':
                        cp = ty.get('p')
                    elif ty is not None and ty.get('k') == 'opaque' and ty.get('fn'):
                        cp = ty['fn'] + '::{closure#0}'
                    if cp in helpers and cp != p and len(b['blocks']) + len(bodies[cp]['blocks']) <= 4 * MAX_BLOCKS \
                            and not ({(g.get('i'), g['n']) for g in bodies[cp].get('generics', []) if g.get('k') == 'type'}
                                     - {(g.get('i'), g['n']) for g in b.get('generics', []) if g.get('k') == 'type'}):
                        fl = _future_local(b, t['args'][0])
                        if fl is not None:
                            fold_async_at(b, bi, bodies[cp], fl, t['a'][0])
                            done.append((p, helpers[cp]))
                            changed = True
                bi += 1
        if not changed:
            break
    return done


def still_called(facts_json, helper_paths):
    """helpers (fn paths) that are still called / awaited somewhere after folding"""
    types = facts_json['types']
    out = set()
    for b in facts_json['bodies']:
        if '::tests::' in b['path']:
            continue
        for bl in b['blocks']:
            t = bl['term']
            if t['k'] != 'call':
                continue
            fn = t.get('fn')
            if fn in helper_paths and not b['path'].startswith(fn):
                # the creation call of an async helper stays after folding: only sync helpers count here
                if not any(x['coroutine'] and x.get('parent') == fn for x in facts_json['bodies']):
                    out.add(fn)
            if fn in ('futures::Future::poll', 'std::future::Future::poll', 'core::future::Future::poll') and t.get('a'):
                ty = types[t['a'][0]] if 0 <= t['a'][0] < len(types) else None
                if ty is not None and ty.get('k') == 'opaque' and ty.get('fn') in helper_paths:
                    out.add(ty['fn'])
                if ty is not None and ty.get('k') == 'coroutine' and (ty.get('p') or '').rsplit('::{closure', 1)[0] in helper_paths:
                    out.add(ty['p'].rsplit('::{closure', 1)[0])
    return out


def fold_unknown_helpers(facts_json, known):
    """-> list of (caller path, helper path) that were folded"""
    if known is None:
        return []
    bodies = {b['path']: b for b in facts_json['bodies']}
    helpers = {p for p, b in bodies.items()
               if p not in known and not b['coroutine'] and not b.get('async') and b['kind'] in ('Fn', 'AssocFn')
               and '::tests::' not in p and '{closure' not in p and len(b['blocks']) <= MAX_BLOCKS}
    # helpers with type parameters of their own are left as calls (their locals are typed by parameters the caller's
    # generic context does not bind; the interprocedural engines bind them at the call)
    def own_tparams(hb, cb):
        ht = {(g.get('i'), g['n']) for g in hb.get('generics', []) if g.get('k') == 'type'}
        ct = {(g.get('i'), g['n']) for g in cb.get('generics', []) if g.get('k') == 'type'}
        return ht - ct
    # a helper that returns a future (async fn) is not folded: its body is the constructor of the coroutine
    cor_parents = {b.get('parent') for b in facts_json['bodies'] if b['coroutine']}
    helpers = {p for p in helpers if p not in cor_parents}
    done = []
    if not helpers:
        return done
    for _round in range(MAX_DEPTH):
        changed = False
        for p, b in bodies.items():
            if '::tests::' in p:
                continue
            bi = 0
            while bi < len(b['blocks']):
                t = b['blocks'][bi]['term']
                if t['k'] == 'call' and t.get('fn') in helpers and t.get('fn') != p and t.get('local', True) \
                        and not t['dst']['p'] is None and len(b['blocks']) + len(bodies[t['fn']]['blocks']) <= 4 * MAX_BLOCKS:
                    callee = bodies[t['fn']]
                    if own_tparams(callee, b):
                        bi += 1
                        continue
                    inline_into(b, bi, callee)
                    done.append((p, t['fn']))
                    changed = True
                bi += 1
        if not changed:
            break
    return done

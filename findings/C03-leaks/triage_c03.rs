//! C03 triage: after any history followed by a successful flush_meta() the
//! file must be a structurally valid qcow2 image whose stored refcounts equal
//! the number of references (no under-counted and no leaked clusters).
//!
//! Every test asserts that property on the UNMODIFIED library, using a
//! checker that only looks at the raw file bytes (independent of the library).
//!
//! L1: a zero-flagged L2 entry with a preallocated host cluster is overwritten
//!     by a write; the displaced preallocation is never released (leak).
//! L2: COW of a compressed cluster whose data ends exactly on a host cluster
//!     boundary releases one host cluster too many (under-count).

use qcow2_rs::dev::*;
use qcow2_rs::helpers::Qcow2IoBuf;
use qcow2_rs::utils::{make_temp_qcow2_img, qcow2_setup_dev_tokio};
use std::collections::HashMap;
use std::io::Write;
use tokio::runtime::Runtime;

fn be32(b: &[u8], off: usize) -> u32 {
    u32::from_be_bytes(b[off..off + 4].try_into().unwrap())
}
fn be64(b: &[u8], off: usize) -> u64 {
    if off + 8 > b.len() {
        return 0;
    }
    u64::from_be_bytes(b[off..off + 8].try_into().unwrap())
}

struct Img {
    data: Vec<u8>,
    cluster_bits: u32,
    size: u64,
    l1_size: u32,
    l1_off: u64,
    rt_off: u64,
    rt_clusters: u32,
    refcount_order: u32,
}

impl Img {
    fn parse(data: Vec<u8>) -> Img {
        assert_eq!(be32(&data, 0), 0x514649fb);
        let version = be32(&data, 4);
        Img {
            cluster_bits: be32(&data, 20),
            size: be64(&data, 24),
            l1_size: be32(&data, 36),
            l1_off: be64(&data, 40),
            rt_off: be64(&data, 48),
            rt_clusters: be32(&data, 56),
            refcount_order: if version >= 3 { be32(&data, 96) } else { 4 },
            data,
        }
    }
    fn cs(&self) -> u64 {
        1u64 << self.cluster_bits
    }
    fn byte(&self, off: u64) -> u8 {
        *self.data.get(off as usize).unwrap_or(&0)
    }
    /// entries per refcount block
    fn rb_entries(&self) -> u64 {
        (self.cs() * 8) >> self.refcount_order
    }
    fn rt_entries(&self) -> u64 {
        (self.rt_clusters as u64) * self.cs() / 8
    }
    /// stored refcount of host cluster `idx`
    fn stored(&self, idx: u64) -> u64 {
        let rt_idx = idx / self.rb_entries();
        if rt_idx >= self.rt_entries() {
            return 0;
        }
        let rb = be64(&self.data, (self.rt_off + rt_idx * 8) as usize) & 0xffff_ffff_ffff_fe00;
        if rb == 0 {
            return 0;
        }
        let i = idx % self.rb_entries();
        let bits = 1u64 << self.refcount_order;
        if bits < 8 {
            let per = 8 / bits;
            let b = self.byte(rb + i / per) as u64;
            (b >> ((i % per) * bits)) & ((1 << bits) - 1)
        } else {
            let n = bits / 8;
            let mut v = 0u64;
            for k in 0..n {
                v = (v << 8) | self.byte(rb + i * n + k) as u64;
            }
            v
        }
    }
    /// guest cluster index -> host cluster index, for standard clusters
    fn guest_map(&self) -> HashMap<u64, u64> {
        let mut m = HashMap::new();
        let l2_entries = self.cs() / 8;
        for i in 0..self.l1_size as u64 {
            let l1e = be64(&self.data, (self.l1_off + i * 8) as usize);
            let l2_off = l1e & 0x00ff_ffff_ffff_fe00;
            if l2_off == 0 {
                continue;
            }
            for j in 0..l2_entries {
                let e = be64(&self.data, (l2_off + j * 8) as usize);
                if e & (1 << 62) == 0 && (e & 0x00ff_ffff_ffff_fe00) != 0 {
                    m.insert(i * l2_entries + j, (e & 0x00ff_ffff_ffff_fe00) >> self.cluster_bits);
                }
            }
        }
        m
    }

    /// Independent structural + refcount check. Returns list of problems.
    fn check(&self) -> Vec<String> {
        let mut errs = Vec::new();
        let cs = self.cs();
        let cb = self.cluster_bits;
        let mut refs: HashMap<u64, u64> = HashMap::new();
        let add = |c: u64, refs: &mut HashMap<u64, u64>| *refs.entry(c).or_insert(0) += 1;

        // header
        add(0, &mut refs);

        // refcount table and blocks
        if self.rt_off % cs != 0 {
            errs.push(format!("reftable offset {:x} unaligned", self.rt_off));
        }
        for k in 0..self.rt_clusters as u64 {
            add((self.rt_off >> cb) + k, &mut refs);
        }
        for i in 0..self.rt_entries() {
            let e = be64(&self.data, (self.rt_off + i * 8) as usize);
            if e == 0 {
                continue;
            }
            if e & 0x1ff != 0 || e % cs != 0 {
                errs.push(format!("reftable[{i}] = {e:x} is invalid"));
                continue;
            }
            add(e >> cb, &mut refs);
        }

        // L1 / L2 / data
        if self.l1_off % cs != 0 {
            errs.push(format!("l1 offset {:x} unaligned", self.l1_off));
        }
        let l1_clusters = (self.l1_size as u64 * 8).div_ceil(cs);
        for k in 0..l1_clusters {
            add((self.l1_off >> cb) + k, &mut refs);
        }
        let l2_entries = cs / 8;
        for i in 0..self.l1_size as u64 {
            let l1e = be64(&self.data, (self.l1_off + i * 8) as usize);
            if l1e == 0 {
                continue;
            }
            let l2_off = l1e & 0x00ff_ffff_ffff_fe00;
            if l1e & 0x7f00_0000_0000_01fe != 0 || l2_off % cs != 0 {
                errs.push(format!("l1[{i}] = {l1e:x} is invalid"));
                continue;
            }
            if l2_off == 0 {
                continue;
            }
            if l1e & (1 << 63) == 0 {
                errs.push(format!("l1[{i}] = {l1e:x} lacks COPIED"));
            }
            add(l2_off >> cb, &mut refs);

            for j in 0..l2_entries {
                let e = be64(&self.data, (l2_off + j * 8) as usize);
                if e == 0 {
                    continue;
                }
                let guest = (i * l2_entries + j) << cb;
                if guest >= self.size {
                    errs.push(format!("l2 entry {e:x} maps guest {guest:x} beyond virtual size"));
                }
                if e & (1 << 62) != 0 {
                    // compressed
                    let off_bits = 62 - (cb - 8);
                    let coff = e & ((1u64 << off_bits) - 1);
                    let nsec = ((e & 0x3fff_ffff_ffff_ffff) >> off_bits) + 1;
                    let csize = nsec * 512 - (coff & 511);
                    let first = coff >> cb;
                    let last = (coff + csize - 1) >> cb;
                    for c in first..=last {
                        add(c, &mut refs);
                    }
                } else {
                    let off = e & 0x00ff_ffff_ffff_fe00;
                    if e & 0x3f00_0000_0000_01fe != 0 || off % cs != 0 {
                        errs.push(format!("l2 entry {e:x} (guest {guest:x}) is invalid"));
                        continue;
                    }
                    if off != 0 {
                        if e & (1 << 63) == 0 {
                            errs.push(format!("l2 entry {e:x} (guest {guest:x}) lacks COPIED"));
                        }
                        add(off >> cb, &mut refs);
                    }
                }
            }
        }

        // compare with the stored refcounts, over everything the reftable
        // can describe plus everything that got referenced
        let mut max_cluster = (self.data.len() as u64).div_ceil(cs);
        for i in 0..self.rt_entries() {
            if be64(&self.data, (self.rt_off + i * 8) as usize) != 0 {
                max_cluster = max_cluster.max((i + 1) * self.rb_entries());
            }
        }
        if let Some(m) = refs.keys().max() {
            max_cluster = max_cluster.max(m + 1);
        }
        for c in 0..max_cluster {
            let want = *refs.get(&c).unwrap_or(&0);
            let have = self.stored(c);
            if want != have {
                let kind = if have > want { "leaked" } else { "under-counted" };
                errs.push(format!(
                    "host cluster {c}: stored refcount {have}, references {want} ({kind})"
                ));
            }
        }
        errs
    }
}

const CLUSTER_BITS: usize = 16;
const CS: u64 = 1 << CLUSTER_BITS;

fn put_be64(v: &mut [u8], off: usize, val: u64) {
    v[off..off + 8].copy_from_slice(&val.to_be_bytes());
}
fn put_be16(v: &mut [u8], off: usize, val: u16) {
    v[off..off + 2].copy_from_slice(&val.to_be_bytes());
}

/// moderately compressible cluster content
fn guest_data(seed: u32) -> Vec<u8> {
    let mut x = seed;
    (0..CS as usize)
        .map(|i| {
            if i % 16 == 0 {
                x = x.wrapping_mul(1664525).wrapping_add(1013904223);
            }
            if i % 16 < 2 {
                (x >> (8 * (i % 16) + 8)) as u8
            } else {
                (i % 16) as u8
            }
        })
        .collect()
}

/// Append a compressed cluster at `coff`, return its L2 entry
fn put_compressed(file: &mut Vec<u8>, coff: u64, plain: &[u8]) -> (u64, u64) {
    let c = miniz_oxide::deflate::compress_to_vec(plain, 6);
    assert!(c.len() < CS as usize);
    let end = coff as usize + c.len();
    if file.len() < end {
        file.resize(end, 0);
    }
    file[coff as usize..end].copy_from_slice(&c);

    let sectors = (c.len() as u64 - 1 + (coff & 511)) / 512;
    let off_bits = 62 - (CLUSTER_BITS as u64 - 8);
    ((1u64 << 62) | (sectors << off_bits) | coff, c.len() as u64)
}


fn fill(buf: &mut [u8], v: u8) {
    for b in buf.iter_mut() {
        *b = v;
    }
}

fn check_file(path: &std::path::Path) -> (Img, Vec<String>) {
    let parsed = Img::parse(std::fs::read(path).unwrap());
    let errs = parsed.check();
    (parsed, errs)
}

// ---------------------------------------------------------------------------
// L1: displaced preallocation is leaked
// ---------------------------------------------------------------------------

/// Format an image, write guest cluster 0 through the library (so that an L2
/// table exists), then patch L2 entry `1` by hand to "reads as zeros, with a
/// preallocated COPIED host cluster" (refcount 1).
///
/// Returns (path holder, host cluster index of the preallocation).
async fn build_prealloc_zero_image() -> (tempfile::NamedTempFile, u64) {
    let img = make_temp_qcow2_img(64 << 20, CLUSTER_BITS, 4);
    let path = img.path().to_path_buf();
    let params = Qcow2DevParams::new(9, None, None, false, false);

    {
        let dev = qcow2_setup_dev_tokio(&path, &params).await.unwrap();
        let mut wbuf = Qcow2IoBuf::<u8>::new(CS as usize);
        fill(&mut wbuf, 0x11);
        dev.write_at(&wbuf, 0).await.unwrap();
        dev.flush_meta().await.unwrap();
    }
    let (parsed, errs) = check_file(&path);
    assert_eq!(errs, Vec::<String>::new(), "library-made image before patching");
    assert_eq!(parsed.refcount_order, 4);

    let mut file = parsed.data.clone();
    let l2_off = be64(&file, parsed.l1_off as usize) & 0x00ff_ffff_ffff_fe00;
    assert!(l2_off != 0, "no l2 table after the first write");
    assert_eq!(be64(&file, l2_off as usize + 8), 0, "guest cluster 1 is mapped?");

    // append the preallocated cluster behind everything in the file
    let prealloc = (file.len() as u64).div_ceil(CS);
    assert_eq!(parsed.stored(prealloc), 0);
    assert!(prealloc < parsed.rb_entries());
    file.resize(((prealloc + 1) * CS) as usize, 0);
    // stale content of the preallocation; it must never become visible
    file[(prealloc * CS) as usize..].fill(0x5a);

    let rb_off = be64(&file, parsed.rt_off as usize) & 0xffff_ffff_ffff_fe00;
    assert!(rb_off != 0);
    put_be16(&mut file, (rb_off + prealloc * 2) as usize, 1);
    put_be64(
        &mut file,
        l2_off as usize + 8,
        0x8000_0000_0000_0001 | (prealloc * CS),
    );

    std::fs::File::create(&path).unwrap().write_all(&file).unwrap();
    let (_, errs) = check_file(&path);
    assert_eq!(errs, Vec::<String>::new(), "hand patched image");
    println!(
        "patched image: l2 table at {:x}, l2[1] = {:x}, prealloc host cluster {} (refcount 1)",
        l2_off,
        0x8000_0000_0000_0001u64 | (prealloc * CS),
        prealloc
    );

    (img, prealloc)
}

async fn l1_write_over_prealloc(off_in_cls: usize, len: usize, what: &str) {
    let (img, prealloc) = build_prealloc_zero_image().await;
    let path = img.path().to_path_buf();
    let params = Qcow2DevParams::new(9, None, None, false, false);
    let dev = qcow2_setup_dev_tokio(&path, &params).await.unwrap();

    // the zero flag wins over the preallocated content
    let mut rbuf = Qcow2IoBuf::<u8>::new(CS as usize);
    dev.read_at(&mut rbuf, CS).await.unwrap();
    assert!(rbuf.iter().all(|b| *b == 0), "zero cluster doesn't read as zeros");

    let mut wbuf = Qcow2IoBuf::<u8>::new(len);
    fill(&mut wbuf, 0xc3);
    dev.write_at(&wbuf, CS + off_in_cls as u64).await.unwrap();
    dev.flush_meta().await.unwrap();

    // data is fine
    let mut want = vec![0u8; CS as usize];
    want[off_in_cls..off_in_cls + len].fill(0xc3);
    dev.read_at(&mut rbuf, CS).await.unwrap();
    assert!(rbuf[..] == want[..], "guest cluster 1 reads back wrong data");

    let (parsed, errs) = check_file(&path);
    let g2h = parsed.guest_map();
    println!(
        "{what}: guest 1 -> host {} (preallocation was host {}), stored refcount of {} is {}",
        g2h[&1],
        prealloc,
        prealloc,
        parsed.stored(prealloc)
    );
    assert!(
        errs.is_empty(),
        "flushed image is not consistent after {what} over zero+prealloc entry:\n{}",
        errs.join("\n")
    );
}

#[test]
fn l1_full_cluster_write_over_prealloc_zero_entry() {
    Runtime::new()
        .unwrap()
        .block_on(l1_write_over_prealloc(0, CS as usize, "full cluster write"));
}

#[test]
fn l1_partial_write_over_prealloc_zero_entry() {
    Runtime::new()
        .unwrap()
        .block_on(l1_write_over_prealloc(8192, 4096, "partial write"));
}

/// same thing through the other caller, `__make_multiple_write_mapping`
/// (write spanning more than one guest cluster)
#[test]
fn l1_multi_cluster_write_over_prealloc_zero_entry() {
    Runtime::new().unwrap().block_on(async {
        let (img, prealloc) = build_prealloc_zero_image().await;
        let path = img.path().to_path_buf();
        let params = Qcow2DevParams::new(9, None, None, false, false);
        let dev = qcow2_setup_dev_tokio(&path, &params).await.unwrap();

        // guest clusters 1 (zero + prealloc) and 2 (unallocated)
        let mut wbuf = Qcow2IoBuf::<u8>::new(2 * CS as usize);
        fill(&mut wbuf, 0xc3);
        dev.write_at(&wbuf, CS).await.unwrap();
        dev.flush_meta().await.unwrap();

        let mut rbuf = Qcow2IoBuf::<u8>::new(2 * CS as usize);
        dev.read_at(&mut rbuf, CS).await.unwrap();
        assert!(rbuf.iter().all(|b| *b == 0xc3));

        let (parsed, errs) = check_file(&path);
        let g2h = parsed.guest_map();
        println!(
            "multi cluster write: guest 1 -> host {}, guest 2 -> host {} (preallocation was host {})",
            g2h[&1], g2h[&2], prealloc
        );
        assert!(
            errs.is_empty(),
            "flushed image is not consistent after multi cluster write over zero+prealloc entry:\n{}",
            errs.join("\n")
        );
    });
}

// ---------------------------------------------------------------------------
// L2: compressed data ending exactly on a host cluster boundary
// ---------------------------------------------------------------------------

/// host clusters: 0 header, 1 reftable, 2 refblock, 3 l1 (formatter)
///                4 l2 table
///                5 compressed data of guest 0, ENDING at the end of cluster 5
///                6 plain data cluster of guest 1
async fn build_boundary_compressed_image() -> (tempfile::NamedTempFile, Vec<u8>, Vec<u8>) {
    let img = make_temp_qcow2_img(64 << 20, CLUSTER_BITS, 4);
    let path = img.path().to_path_buf();

    let mut file = std::fs::read(&path).unwrap();
    let hdr = Img::parse(file.clone());
    assert_eq!((hdr.rt_off, hdr.l1_off), (CS, 3 * CS));
    let rb_off = 2 * CS as usize;
    file.resize(7 * CS as usize, 0);

    let d0 = guest_data(1);
    let d1: Vec<u8> = (0..CS as usize).map(|i| (i % 251) as u8 | 0x80).collect();

    // compressed data placed in the last sectors of host cluster 5
    let clen = miniz_oxide::deflate::compress_to_vec(&d0, 6).len() as u64;
    let nsect = clen.div_ceil(512);
    let coff0 = 6 * CS - nsect * 512;
    let (e0, len0) = put_compressed(&mut file, coff0, &d0);
    assert_eq!(len0, clen);
    assert!(coff0 > 5 * CS && coff0 + len0 <= 6 * CS);
    assert_eq!(file.len(), 7 * CS as usize);

    // what the descriptor says (spec: nb_sectors + 1 sectors from the
    // sector of the offset on)
    let off_bits = 62 - (CLUSTER_BITS as u64 - 8);
    let d_off = e0 & ((1 << off_bits) - 1);
    let d_len = (((e0 & 0x3fff_ffff_ffff_ffff) >> off_bits) + 1) * 512 - (d_off & 511);
    assert_eq!(d_off, coff0);
    assert_eq!(d_off + d_len, 6 * CS, "descriptor doesn't end on the boundary");
    println!(
        "compressed g0: l2 entry {e0:x}, data at {coff0:x}+{len0}, descriptor range {d_off:x}+{d_len} ends at {:x} (host cluster 5 only)",
        d_off + d_len
    );

    // neighbour: plain data cluster of guest 1 in host cluster 6
    file[(6 * CS) as usize..(7 * CS) as usize].copy_from_slice(&d1);

    let l2_off = 4 * CS;
    put_be64(&mut file, l2_off as usize, e0);
    put_be64(&mut file, l2_off as usize + 8, (1 << 63) | (6 * CS));
    put_be64(&mut file, hdr.l1_off as usize, (1 << 63) | l2_off);
    put_be16(&mut file, rb_off + 4 * 2, 1); // l2 table
    put_be16(&mut file, rb_off + 5 * 2, 1); // compressed g0
    put_be16(&mut file, rb_off + 6 * 2, 1); // plain g1

    std::fs::File::create(&path).unwrap().write_all(&file).unwrap();
    let (_, errs) = check_file(&path);
    assert_eq!(errs, Vec::<String>::new(), "hand built image");

    (img, d0, d1)
}

#[test]
fn l2_compressed_cow_ending_on_cluster_boundary() {
    Runtime::new().unwrap().block_on(async {
        let (img, d0, d1) = build_boundary_compressed_image().await;
        let path = img.path().to_path_buf();
        let params = Qcow2DevParams::new(9, None, None, false, false);
        let dev = qcow2_setup_dev_tokio(&path, &params).await.unwrap();

        let mut rbuf = Qcow2IoBuf::<u8>::new(2 * CS as usize);
        dev.read_at(&mut rbuf, 0).await.unwrap();
        assert!(rbuf[..CS as usize] == d0[..] && rbuf[CS as usize..] == d1[..]);

        // partial overwrite of guest cluster 0 -> COW of the compressed cluster
        let mut wbuf = Qcow2IoBuf::<u8>::new(4096);
        fill(&mut wbuf, 0xc3);
        dev.write_at(&wbuf, 8192).await.unwrap();
        dev.flush_meta().await.unwrap();

        let mut want0 = d0.clone();
        want0[8192..8192 + 4096].fill(0xc3);
        dev.read_at(&mut rbuf, 0).await.unwrap();
        assert!(rbuf[..CS as usize] == want0[..] && rbuf[CS as usize..] == d1[..]);

        let (parsed, errs) = check_file(&path);
        let g2h = parsed.guest_map();
        println!(
            "after COW: guest 0 -> host {}, guest 1 -> host {}; stored refcounts: host 5 = {}, host 6 = {}",
            g2h[&0],
            g2h[&1],
            parsed.stored(5),
            parsed.stored(6)
        );
        assert!(
            errs.is_empty(),
            "flushed image is not consistent after COW of boundary-ending compressed cluster:\n{}",
            errs.join("\n")
        );
    });
}

/// The consequence of the under-count: the still referenced neighbour gets
/// handed out again by the allocator and guest data is overwritten.
#[test]
fn l2_consequence_neighbour_cluster_reallocated() {
    Runtime::new().unwrap().block_on(async {
        let (img, d0, d1) = build_boundary_compressed_image().await;
        let path = img.path().to_path_buf();
        let params = Qcow2DevParams::new(9, None, None, false, false);
        let dev = qcow2_setup_dev_tokio(&path, &params).await.unwrap();

        let mut wbuf = Qcow2IoBuf::<u8>::new(4096);
        fill(&mut wbuf, 0xc3);
        dev.write_at(&wbuf, 8192).await.unwrap();
        dev.flush_meta().await.unwrap();

        // now allocate a few more guest clusters (guest 2, 3, 4)
        let mut big = Qcow2IoBuf::<u8>::new(CS as usize);
        fill(&mut big, 0xee);
        for g in 2..5u64 {
            dev.write_at(&big, g * CS).await.unwrap();
        }
        dev.flush_meta().await.unwrap();

        let (parsed, errs) = check_file(&path);
        let g2h = parsed.guest_map();
        let mut m: Vec<_> = g2h.iter().map(|(g, h)| (*g, *h)).collect();
        m.sort();
        println!("guest -> host map after more allocations: {m:?}");
        if !errs.is_empty() {
            println!("checker:\n{}", errs.join("\n"));
        }

        let mut rbuf = Qcow2IoBuf::<u8>::new(2 * CS as usize);
        dev.read_at(&mut rbuf, 0).await.unwrap();
        let mut want0 = d0.clone();
        want0[8192..8192 + 4096].fill(0xc3);
        assert!(rbuf[..CS as usize] == want0[..], "guest cluster 0 corrupted");
        let bad = rbuf[CS as usize..]
            .iter()
            .zip(d1.iter())
            .filter(|(a, b)| a != b)
            .count();
        assert!(
            bad == 0,
            "guest cluster 1 (never written by this test) lost its data: {bad} bytes differ, \
             first bytes now {:x?}; its host cluster is shared: {:?}",
            &rbuf[CS as usize..CS as usize + 8],
            m.iter().filter(|(_, h)| *h == g2h[&1]).collect::<Vec<_>>()
        );
    });
}

//! C18: need_flush_meta() == false (and no flush running) implies the file
//! reflects every completed operation.
//!
//! Sweep: for every request index k issued by one flush_meta() call, hold
//! request k pending in the backend, run a guest write_at() to a not yet
//! allocated cluster to completion meanwhile, release request k, let the
//! flush finish. At the quiescent point: if need_flush_meta() is false,
//! drop + reopen must show the written data and a clean check().
//!
//! Single threaded runtime, in-memory backend, tasks interleave at awaits
//! only.

use qcow2_rs::dev::*;
use qcow2_rs::error::Qcow2Result;
use qcow2_rs::helpers::Qcow2IoBuf;
use qcow2_rs::ops::Qcow2IoOps;
use qcow2_rs::qcow2_default_params;
use qcow2_rs::utils::{make_temp_qcow2_img, qcow2_alloc_dev};
use std::cell::{Cell, RefCell};
use std::path::Path;
use std::rc::Rc;

const CLUSTER_BITS: usize = 16;
const CLUSTER_SIZE: usize = 1 << CLUSTER_BITS;

#[derive(Default)]
struct Gate {
    // count every request (read/write/fallocate/fsync) while armed
    armed: Cell<bool>,
    seen: Cell<u32>,
    // hold the request with this 1-based index (0: hold nothing)
    hold_at: Cell<u32>,
    held: Cell<bool>,
    held_what: RefCell<String>,
    release: tokio::sync::Notify,
    log: RefCell<Vec<String>>,
}

impl Gate {
    async fn pass(&self, what: String) {
        if !self.armed.get() {
            return;
        }
        // requests issued while one is held belong to the concurrent write:
        // they are logged but not counted as requests of the flush
        if self.held.get() {
            self.log.borrow_mut().push(format!("    (other) {what}"));
            return;
        }
        let n = self.seen.get() + 1;
        self.seen.set(n);
        if n == self.hold_at.get() {
            self.held.set(true);
            *self.held_what.borrow_mut() = what.clone();
            self.log.borrow_mut().push(format!("#{n} {what} HELD"));
            self.release.notified().await;
            self.held.set(false);
            self.log.borrow_mut().push(format!("#{n} {what} released"));
        } else {
            self.log.borrow_mut().push(format!("#{n} {what}"));
        }
    }
}

struct MemIo {
    data: Rc<RefCell<Vec<u8>>>,
    gate: Rc<Gate>,
}

impl MemIo {
    fn new(data: &Rc<RefCell<Vec<u8>>>, gate: &Rc<Gate>) -> Self {
        MemIo {
            data: data.clone(),
            gate: gate.clone(),
        }
    }
}

impl Qcow2IoOps for MemIo {
    async fn read_to(&self, offset: u64, buf: &mut [u8]) -> Qcow2Result<usize> {
        self.gate
            .pass(format!("read {offset:x} {}", buf.len()))
            .await;
        let data = self.data.borrow();
        let off = offset as usize;
        for b in buf.iter_mut() {
            *b = 0;
        }
        if off < data.len() {
            let n = std::cmp::min(buf.len(), data.len() - off);
            buf[..n].copy_from_slice(&data[off..off + n]);
        }
        Ok(buf.len())
    }

    async fn write_from(&self, offset: u64, buf: &[u8]) -> Qcow2Result<()> {
        // the request is performed when it completes, i.e. after the hold
        self.gate
            .pass(format!("write {offset:x} {}", buf.len()))
            .await;
        let mut data = self.data.borrow_mut();
        let off = offset as usize;
        if data.len() < off + buf.len() {
            data.resize(off + buf.len(), 0);
        }
        data[off..off + buf.len()].copy_from_slice(buf);
        Ok(())
    }

    async fn fallocate(&self, offset: u64, len: usize, _flags: u32) -> Qcow2Result<()> {
        self.gate.pass(format!("zero {offset:x} {len}")).await;
        let mut data = self.data.borrow_mut();
        let off = offset as usize;
        let end = std::cmp::min(off + len, data.len());
        if off < end {
            for b in &mut data[off..end] {
                *b = 0;
            }
        }
        Ok(())
    }

    async fn fsync(&self, _offset: u64, _len: usize, _flags: u32) -> Qcow2Result<()> {
        self.gate.pass("fsync".to_string()).await;
        Ok(())
    }
}

fn pattern_buf(len: usize, pattern: u8) -> Qcow2IoBuf<u8> {
    let mut buf = Qcow2IoBuf::<u8>::new(len);
    for b in &mut buf[..] {
        *b = pattern;
    }
    buf
}

async fn open_dev(data: &Rc<RefCell<Vec<u8>>>, gate: &Rc<Gate>) -> Qcow2Dev<MemIo> {
    let params = qcow2_default_params!(false, false);
    let (dev, _) = qcow2_alloc_dev(Path::new("mem.qcow2"), MemIo::new(data, gate), &params)
        .await
        .unwrap();
    dev.qcow2_prep_io().await.unwrap();
    dev
}

async fn read_guest(dev: &Qcow2Dev<MemIo>, off: u64) -> Vec<u8> {
    let mut buf = Qcow2IoBuf::<u8>::new(CLUSTER_SIZE);
    dev.read_at(&mut buf, off).await.unwrap();
    buf.to_vec()
}


fn be64(d: &[u8], off: usize) -> u64 {
    u64::from_be_bytes(d[off..off + 8].try_into().unwrap())
}

/// refcount of a host cluster as stored in the raw image (16 bit refcounts)
fn raw_refcount(d: &[u8], host_off: u64) -> u64 {
    let rt_off = be64(d, 48) as usize;
    let order = u32::from_be_bytes(d[96..100].try_into().unwrap());
    assert_eq!(order, 4);
    let rb_entries = CLUSTER_SIZE / 2;
    let cls = (host_off >> CLUSTER_BITS) as usize;
    let rb_off = be64(d, rt_off + 8 * (cls / rb_entries)) as usize;
    if rb_off == 0 {
        return 0;
    }
    let e = rb_off + 2 * (cls % rb_entries);
    u16::from_be_bytes(d[e..e + 2].try_into().unwrap()) as u64
}

async fn yields(n: usize) {
    for _ in 0..n {
        tokio::task::yield_now().await;
    }
}

#[derive(Clone, Copy, Debug, PartialEq)]
enum Scenario {
    // the flush follows the very first writes: l1 + reftable dirty as well
    FirstFlush,
    // everything stable, then one more cluster mapped: l2 slice + refblock
    // slice dirty only
    SteadyState,
}

struct Outcome {
    // number of requests the flush issued (when nothing was held)
    flush_reqs: u32,
    hit: bool,
    line: String,
    violation: Option<String>,
}

/// one run: hold request `k` of the flush (0: none), returns what happened
async fn run_one(sc: Scenario, k: u32, verbose: bool) -> Outcome {
    let img = make_temp_qcow2_img(8 << 20, CLUSTER_BITS, 4);
    let data = Rc::new(RefCell::new(std::fs::read(img.path()).unwrap()));
    let gate = Rc::new(Gate::default());

    // guest clusters: 0, 1 populated before the flush, 2 written during it
    let offs = [0_u64, CLUSTER_SIZE as u64, 2 * CLUSTER_SIZE as u64];
    let new_off = offs[2];
    let new_pat = 0xc7_u8;

    let dev = open_dev(&data, &gate).await;

    match sc {
        Scenario::FirstFlush => {
            dev.write_at(&pattern_buf(CLUSTER_SIZE, 0xa0), offs[0])
                .await
                .unwrap();
            dev.write_at(&pattern_buf(CLUSTER_SIZE, 0xa1), offs[1])
                .await
                .unwrap();
        }
        Scenario::SteadyState => {
            dev.write_at(&pattern_buf(CLUSTER_SIZE, 0xa0), offs[0])
                .await
                .unwrap();
            dev.flush_meta().await.unwrap();
            assert!(!dev.need_flush_meta());
            dev.write_at(&pattern_buf(CLUSTER_SIZE, 0xa1), offs[1])
                .await
                .unwrap();
        }
    }
    assert!(dev.need_flush_meta());

    gate.hold_at.set(k);
    gate.seen.set(0);
    gate.armed.set(true);

    let wrote_during_hold = Cell::new(false);
    let flag_after_write = Cell::new(false);
    let hit = Cell::new(false);
    let flush_done = Cell::new(false);

    let flush = async {
        let r = dev.flush_meta().await;
        flush_done.set(true);
        r
    };
    let controller = async {
        while !gate.held.get() && !flush_done.get() {
            tokio::task::yield_now().await;
        }
        if !gate.held.get() {
            return; // flush has fewer than k requests
        }
        hit.set(true);

        let wbuf = pattern_buf(CLUSTER_SIZE, new_pat);
        let write = dev.write_at(&wbuf, new_off);
        tokio::pin!(write);
        tokio::select! {
            biased;
            r = &mut write => {
                r.unwrap();
                wrote_during_hold.set(true);
                flag_after_write.set(dev.need_flush_meta());
            }
            _ = yields(1000) => {}
        }
        // the flush is still parked in request k
        assert!(gate.held.get() && !flush_done.get());
        gate.release.notify_one();
        if !wrote_during_hold.get() {
            // the write had to wait for the flush (lock held by it)
            write.await.unwrap();
        }
    };
    let (res, _) = tokio::join!(flush, controller);
    res.unwrap();
    gate.armed.set(false);

    let flush_reqs = gate.seen.get();
    if !hit.get() {
        return Outcome {
            flush_reqs,
            hit: false,
            line: String::new(),
            violation: None,
        };
    }

    if verbose {
        for l in gate.log.borrow().iter() {
            println!("    io: {l}");
        }
    }

    // quiescent point: write and flush both completed, nothing in flight
    let flag = dev.need_flush_meta();
    let mut live = Vec::new();
    for off in offs {
        live.push(read_guest(&dev, off).await);
    }
    assert!(live[2].iter().all(|b| *b == new_pat));

    let mut line = format!(
        "{sc:?} k={k} held='{}' write_completed_during_hold={} flag_after_write={} flag_at_quiescence={}",
        gate.held_what.borrow(),
        wrote_during_hold.get(),
        flag_after_write.get(),
        flag
    );

    let mut violation = None;
    if !flag {
        // the flag allows dropping the device right now
        drop(dev);
        let gate2 = Rc::new(Gate::default());
        let dev2 = open_dev(&data, &gate2).await;
        let mut what = Vec::new();
        for (i, off) in offs.iter().enumerate() {
            let got = read_guest(&dev2, *off).await;
            if got != live[i] {
                what.push(format!(
                    "guest cluster at {off:#x} reads {:#04x}.. after reopen, was {:#04x}..",
                    got[0], live[i][0]
                ));
            }
        }
        if let Err(e) = dev2.check().await {
            what.push(format!("check() failed: {e:?}"));
        }
        // check() only prints "pointed to non-allocated cluster" and returns
        // Ok for that, so look at the raw file: every mapped cluster must
        // have a refcount in the file
        let mut zero_ref = None;
        for off in offs.iter() {
            let m = dev2.get_mapping(*off).await.unwrap();
            if let Some(host) = m.cluster_offset {
                let rc = raw_refcount(&data.borrow(), host);
                if rc == 0 {
                    what.push(format!(
                        "guest {off:#x} is mapped to host cluster {host:#x} whose refcount in the file is 0"
                    ));
                    zero_ref = Some((*off, host));
                }
            }
        }
        // consequence: the next allocation hands the same host cluster out
        if let Some((off, host)) = zero_ref {
            let other = 5 * CLUSTER_SIZE as u64;
            dev2.write_at(&pattern_buf(CLUSTER_SIZE, 0xee), other)
                .await
                .unwrap();
            let m = dev2.get_mapping(other).await.unwrap();
            let got = read_guest(&dev2, off).await;
            if m.cluster_offset == Some(host) || got[0] == 0xee {
                what.push(format!(
                    "after reopen a write to guest {other:#x} was given host cluster {:#x}; guest {off:#x} now reads {:#04x}..",
                    m.cluster_offset.unwrap_or(0), got[0]
                ));
            }
        }
        if !what.is_empty() {
            violation = Some(what.join("; "));
        }
    } else {
        // property is vacuous here; the usual harness flushes and is fine
        dev.flush_meta().await.unwrap();
        assert!(!dev.need_flush_meta());
        drop(dev);
        let gate2 = Rc::new(Gate::default());
        let dev2 = open_dev(&data, &gate2).await;
        for (i, off) in offs.iter().enumerate() {
            assert!(read_guest(&dev2, *off).await == live[i]);
        }
        dev2.check().await.expect("check after a regular flush");
    }

    match &violation {
        Some(v) => line.push_str(&format!(" => VIOLATION: {v}")),
        None => line.push_str(" => ok"),
    }

    Outcome {
        flush_reqs,
        hit: true,
        line,
        violation,
    }
}

#[test]
fn write_completing_inside_flush_meta_is_not_left_unflushed_with_flag_clear() {
    let rt = tokio::runtime::Builder::new_current_thread()
        .enable_all()
        .build()
        .unwrap();

    rt.block_on(async {
        let mut bad = Vec::new();

        for sc in [Scenario::FirstFlush, Scenario::SteadyState] {
            // k = 0: nothing held, tells how many requests the flush issues
            let n = run_one(sc, 0, false).await.flush_reqs;
            println!("{sc:?}: flush_meta() issues {n} requests");
            assert!(n > 0);

            for k in 1..=n + 1 {
                let o = run_one(sc, k, false).await;
                if !o.hit {
                    println!("{sc:?} k={k}: flush has no such request");
                    continue;
                }
                println!("{}", o.line);
                if o.violation.is_some() {
                    bad.push((sc, k, o.line.clone()));
                }
            }
        }

        if !bad.is_empty() {
            // show the io traces
            for (sc, k, _) in &bad {
                println!("--- io trace of {sc:?} k={k} (counting starts at flush_meta) ---");
                let _ = run_one(*sc, *k, true).await;
            }

            let ks: Vec<String> = bad.iter().map(|(sc, k, _)| format!("{sc:?}/k={k}")).collect();
            panic!(
                "C18 violated: need_flush_meta() == false with no flush running, but the file \
                 misses a completed write; exposed by holding: {}\n{}",
                ks.join(", "),
                bad.iter().map(|b| b.2.clone()).collect::<Vec<_>>().join("\n")
            );
        }
    });
}

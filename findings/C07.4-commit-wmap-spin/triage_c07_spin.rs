//! C07 (progress) triage: three concurrent reads on a freshly opened device
//! miss three DIFFERENT l2 slices while the l2 slice cache holds only two
//! slices.  The backend keeps the three slice loads pending until all three
//! misses are registered, then completes every request.  Every read has to
//! complete and return the data written before.
//!
//! A control test runs the very same scenario with two concurrent misses
//! (which fit into the cache) to show the harness itself is sound.

use qcow2_rs::dev::{Qcow2Dev, Qcow2DevParams};
use qcow2_rs::error::Qcow2Result;
use qcow2_rs::helpers::Qcow2IoBuf;
use qcow2_rs::ops::Qcow2IoOps;
use qcow2_rs::utils::{make_temp_qcow2_img, qcow2_alloc_dev};
use std::cell::{Cell, RefCell};
use std::rc::Rc;
use std::sync::atomic::{AtomicUsize, Ordering};
use std::sync::mpsc;
use std::sync::Arc;
use std::time::Duration;
use tokio::sync::Notify;

const CLUSTER_BITS: usize = 16;
const CLUSTER_SIZE: usize = 1 << CLUSTER_BITS;

struct MemInner {
    data: RefCell<Vec<u8>>,
    hold_read: Cell<bool>,
    held: Cell<usize>,
    release: Notify,
}

/// In-memory backend; every request completes at once, except that reads
/// can be held pending until the test releases them.
#[derive(Clone)]
struct MemIo(Rc<MemInner>);

impl MemIo {
    fn new(image: Vec<u8>) -> Self {
        MemIo(Rc::new(MemInner {
            data: RefCell::new(image),
            hold_read: Cell::new(false),
            held: Cell::new(0),
            release: Notify::new(),
        }))
    }

    fn ensure_len(&self, end: usize) {
        let mut d = self.0.data.borrow_mut();
        if d.len() < end {
            d.resize(end, 0);
        }
    }
}

impl Qcow2IoOps for MemIo {
    async fn read_to(&self, offset: u64, buf: &mut [u8]) -> Qcow2Result<usize> {
        if self.0.hold_read.get() {
            self.0.held.set(self.0.held.get() + 1);
            eprintln!(
                "backend: read off {:#x} len {} held pending",
                offset,
                buf.len()
            );
            while self.0.hold_read.get() {
                self.0.release.notified().await;
            }
            eprintln!("backend: read off {:#x} completes", offset);
        }
        let off = offset as usize;
        self.ensure_len(off + buf.len());
        buf.copy_from_slice(&self.0.data.borrow()[off..off + buf.len()]);
        Ok(buf.len())
    }

    async fn write_from(&self, offset: u64, buf: &[u8]) -> Qcow2Result<()> {
        let off = offset as usize;
        self.ensure_len(off + buf.len());
        self.0.data.borrow_mut()[off..off + buf.len()].copy_from_slice(buf);
        Ok(())
    }

    async fn fallocate(&self, offset: u64, len: usize, _flags: u32) -> Qcow2Result<()> {
        let off = offset as usize;
        self.ensure_len(off + len);
        self.0.data.borrow_mut()[off..off + len].fill(0);
        Ok(())
    }

    async fn fsync(&self, _offset: u64, _len: usize, _flags: u32) -> Qcow2Result<()> {
        Ok(())
    }
}

fn pattern_buf(len: usize, pattern: u8) -> Qcow2IoBuf<u8> {
    let mut buf = Qcow2IoBuf::<u8>::new(len);
    for b in &mut buf[..] {
        *b = pattern;
    }
    buf
}

/// l2 cache: two 4KiB slices, the minimum accepted
fn params() -> Qcow2DevParams {
    Qcow2DevParams::new(9, None, Some((12, 2 << 12)), false, false)
}

/// `nr` concurrent reads, each one missing its own l2 slice, on a freshly
/// opened device.  `stage` tells the watchdog how far the scenario got.
async fn scenario(nr: usize, stage: Arc<AtomicUsize>) {
    // 128MiB image, 64KiB clusters: one l2 table, 4KiB l2 slices cover
    // 32MiB each
    let size = 128_u64 << 20;
    let img = make_temp_qcow2_img(size, CLUSTER_BITS, 4);
    let image = std::fs::read(img.path()).unwrap();
    let io = MemIo::new(image);

    let offs: Vec<u64> = (0..nr as u64).map(|i| i * (32_u64 << 20)).collect();
    let pats: Vec<u8> = (0..nr as u8).map(|i| 0xa1 + i).collect();

    // populate: one allocated cluster per l2 slice, all meta on disk
    {
        let (dev, _) = qcow2_alloc_dev(img.path(), io.clone(), &params())
            .await
            .unwrap();
        dev.qcow2_prep_io().await.unwrap();
        for (off, pat) in offs.iter().zip(pats.iter()) {
            dev.write_at(&pattern_buf(CLUSTER_SIZE, *pat), *off)
                .await
                .unwrap();
        }
        dev.flush_meta().await.unwrap();
    }
    stage.store(1, Ordering::SeqCst);

    // reopen: cold caches
    let (dev, _) = qcow2_alloc_dev(img.path(), io.clone(), &params())
        .await
        .unwrap();
    dev.qcow2_prep_io().await.unwrap();
    assert!(dev.l2_cache_is_empty());
    let dev: Rc<Qcow2Dev<MemIo>> = Rc::new(dev);
    stage.store(2, Ordering::SeqCst);

    // every read misses its own l2 slice, the slice loads stay pending
    io.0.hold_read.set(true);
    let mut tasks = Vec::new();
    for off in offs.iter() {
        let dev = dev.clone();
        let off = *off;
        tasks.push(tokio::task::spawn_local(async move {
            let mut rbuf = Qcow2IoBuf::<u8>::new(4096);
            let res = dev.read_at(&mut rbuf, off).await;
            (res, rbuf)
        }));
    }
    for _ in 0..100 {
        if io.0.held.get() == nr {
            break;
        }
        tokio::task::yield_now().await;
    }
    assert_eq!(
        io.0.held.get(),
        nr,
        "every read is parked in the backend, loading its l2 slice"
    );
    assert!(dev.l2_cache_is_empty(), "nothing committed yet");
    stage.store(3, Ordering::SeqCst);

    // the backend now completes all the pending loads
    eprintln!("scenario: releasing {} pending l2 slice loads", nr);
    io.0.hold_read.set(false);
    io.0.release.notify_waiters();

    for (t, pat) in tasks.into_iter().zip(pats.iter()) {
        let (res, rbuf) = t.await.unwrap();
        assert_eq!(res.unwrap(), 4096);
        assert!(rbuf.iter().all(|b| *b == *pat), "read returns written data");
        stage.fetch_add(1, Ordering::SeqCst);
    }
    eprintln!("scenario: all {} reads completed", nr);

    dev.flush_meta().await.unwrap();
}

fn run_with_watchdog(nr: usize) {
    let (tx, rx) = mpsc::channel();
    let stage = Arc::new(AtomicUsize::new(0));
    let st = stage.clone();

    // a watchdog is needed: a library call which never returns and never
    // yields can't be interrupted from inside the runtime
    std::thread::Builder::new()
        .name(format!("scenario-{}", nr))
        .spawn(move || {
            let rt = tokio::runtime::Builder::new_current_thread()
                .enable_all()
                .build()
                .unwrap();
            let local = tokio::task::LocalSet::new();
            let res = std::panic::catch_unwind(std::panic::AssertUnwindSafe(|| {
                local.block_on(&rt, scenario(nr, st));
            }));
            let _ = tx.send(res.is_ok());
        })
        .unwrap();

    match rx.recv_timeout(Duration::from_secs(20)) {
        Ok(ok) => assert!(ok, "scenario failed"),
        Err(_) => {
            if std::env::var("TRIAGE_HANG_FOREVER").is_ok() {
                eprintln!("watchdog fired, pid {}; parking", std::process::id());
                loop {
                    std::thread::sleep(Duration::from_secs(3600));
                }
            }
            panic!(
                "no progress: {} concurrent reads missing {} different l2 slices (cache limit 2) \
                 did not complete within 20s although the backend completed every request \
                 (stage {}: 3 = all loads released, 3+k = k reads done)",
                nr,
                nr,
                stage.load(Ordering::SeqCst)
            )
        }
    }
}

/// control: two concurrent misses fit into the two-slice cache
#[test]
fn two_concurrent_l2_misses_complete() {
    run_with_watchdog(2);
}

/// C07: three concurrent misses of three different l2 slices, cache of two
#[test]
fn three_concurrent_l2_misses_complete() {
    run_with_watchdog(3);
}

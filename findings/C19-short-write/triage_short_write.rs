//! Triage: how do the I/O backends report a SHORT WRITE (the kernel writes
//! fewer bytes than requested)?
//!
//! A short write is forced on a real file with RLIMIT_FSIZE (SIGXFSZ ignored):
//! a pwrite which starts below the limit and crosses it writes only up to the
//! limit and returns the short count.
//!
//! The rlimit is per process, so run with `--test-threads=1`; every test
//! restores the soft limit (also on panic, via a drop guard) before asserting.
#![cfg(target_os = "linux")]

use qcow2_rs::dev::*;
use qcow2_rs::helpers::Qcow2IoBuf;
use qcow2_rs::ops::Qcow2IoOps;
use qcow2_rs::qcow2_default_params;
use qcow2_rs::sync_io::Qcow2IoSync;
use qcow2_rs::tokio_io::Qcow2IoTokio;
use qcow2_rs::uring::Qcow2IoUring;
use qcow2_rs::utils::*;
use std::path::{Path, PathBuf};

const MIB: u64 = 1 << 20;

/// Lowers the soft RLIMIT_FSIZE, restores the previous one on drop.
struct FsizeLimit {
    old: libc::rlimit,
}

impl FsizeLimit {
    fn set(limit: u64) -> FsizeLimit {
        unsafe {
            libc::signal(libc::SIGXFSZ, libc::SIG_IGN);
            let mut old = libc::rlimit {
                rlim_cur: 0,
                rlim_max: 0,
            };
            assert_eq!(libc::getrlimit(libc::RLIMIT_FSIZE, &mut old), 0);
            let new = libc::rlimit {
                rlim_cur: limit as libc::rlim_t,
                rlim_max: old.rlim_max,
            };
            assert_eq!(libc::setrlimit(libc::RLIMIT_FSIZE, &new), 0);
            FsizeLimit { old }
        }
    }
}

impl Drop for FsizeLimit {
    fn drop(&mut self) {
        unsafe {
            libc::setrlimit(libc::RLIMIT_FSIZE, &self.old);
        }
    }
}

fn pattern(len: usize) -> Vec<u8> {
    (0..len).map(|i| (i % 251) as u8 + 1).collect()
}

/// How many leading bytes of `data` are found in the file at `off`
fn bytes_on_disk(path: &Path, off: u64, data: &[u8]) -> (u64, usize) {
    let content = std::fs::read(path).unwrap();
    let flen = content.len() as u64;
    let tail = if (off as usize) < content.len() {
        &content[off as usize..]
    } else {
        &[][..]
    };
    let matched = tail.iter().zip(data.iter()).take_while(|(a, b)| a == b).count();
    (flen, matched)
}

/// Sanity check of the environment: the rlimit trick really gives a short
/// count from plain pwrite(2). Expected to PASS.
#[test]
fn t0_env_rlimit_gives_short_pwrite() {
    use std::os::unix::io::AsRawFd;
    let tmp = tempfile::NamedTempFile::new().unwrap();
    let f = std::fs::OpenOptions::new()
        .write(true)
        .open(tmp.path())
        .unwrap();
    let buf = pattern(64 << 10);

    let guard = FsizeLimit::set(MIB + 4096);
    let res = unsafe {
        libc::pwrite(
            f.as_raw_fd(),
            buf.as_ptr() as *const libc::c_void,
            buf.len(),
            MIB as libc::off_t,
        )
    };
    let res2 = unsafe {
        libc::pwrite(
            f.as_raw_fd(),
            buf.as_ptr() as *const libc::c_void,
            buf.len(),
            (MIB + 4096) as libc::off_t,
        )
    };
    let errno2 = std::io::Error::last_os_error();
    drop(guard);

    println!("raw pwrite crossing the limit -> {res}; starting at the limit -> {res2} ({errno2})");
    assert_eq!(res, 4096);
    assert_eq!(res2, -1);
    assert_eq!(errno2.raw_os_error(), Some(libc::EFBIG));
}

/// Test 1, sync backend: write_from() must not report a partial write as Ok.
/// FAILS on the unmodified library.
#[test]
fn t1_sync_backend_short_write_is_acked() {
    let tmp = tempfile::NamedTempFile::new().unwrap();
    let path = PathBuf::from(tmp.path());
    let io = Qcow2IoSync::new(&path, false, false);
    let buf = pattern(64 << 10);

    let rt = tokio::runtime::Runtime::new().unwrap();
    let guard = FsizeLimit::set(MIB + 4096);
    let res = rt.block_on(async { io.write_from(MIB, &buf).await });
    drop(guard);

    let (flen, matched) = bytes_on_disk(&path, MIB, &buf);
    println!(
        "[sync] write_from(off=1MiB, len={}) -> {:?}; file length {} (= 1MiB + {}), {} of {} bytes on disk",
        buf.len(),
        res,
        flen,
        flen as i64 - MIB as i64,
        matched,
        buf.len()
    );
    assert!(matched < buf.len(), "rlimit did not cause a short write");
    assert!(
        res.is_err(),
        "Qcow2IoSync::write_from returned Ok(()) but only {} of {} bytes were written",
        matched,
        buf.len()
    );
}

/// Test 1, io_uring backend. FAILS on the unmodified library (if io_uring is
/// usable here).
#[test]
fn t1_uring_backend_short_write_is_acked() {
    let tmp = tempfile::NamedTempFile::new().unwrap();
    let path = PathBuf::from(tmp.path());
    let buf = pattern(64 << 10);

    let p = path.clone();
    let b = buf.clone();
    let res = tokio_uring::start(async move {
        let io = Qcow2IoUring::new(&p, false, false).await;
        let guard = FsizeLimit::set(MIB + 4096);
        let res = io.write_from(MIB, &b).await;
        drop(guard);
        res
    });

    let (flen, matched) = bytes_on_disk(&path, MIB, &buf);
    println!(
        "[uring] write_from(off=1MiB, len={}) -> {:?}; file length {} (= 1MiB + {}), {} of {} bytes on disk",
        buf.len(),
        res,
        flen,
        flen as i64 - MIB as i64,
        matched,
        buf.len()
    );
    assert!(matched < buf.len(), "rlimit did not cause a short write");
    assert!(
        res.is_err(),
        "Qcow2IoUring::write_from returned Ok(()) but only {} of {} bytes were written",
        matched,
        buf.len()
    );
}

/// For comparison only: what the tokio backend does with the same request.
/// Records the behaviour; passes when the partial write is NOT acknowledged
/// (error or panic).
#[test]
fn t1_tokio_backend_short_write_for_comparison() {
    let tmp = tempfile::NamedTempFile::new().unwrap();
    let path = PathBuf::from(tmp.path());
    let buf = pattern(64 << 10);

    let p = path.clone();
    let b = buf.clone();
    let outcome = std::panic::catch_unwind(move || {
        let rt = tokio::runtime::Runtime::new().unwrap();
        rt.block_on(async move {
            let io = Qcow2IoTokio::new(&p, false, false).await;
            let guard = FsizeLimit::set(MIB + 4096);
            let res = io.write_from(MIB, &b).await;
            drop(guard);
            res
        })
    });
    // in case of panic inside the closure the guard was dropped by unwinding

    let (flen, matched) = bytes_on_disk(&path, MIB, &buf);
    let acked = match &outcome {
        Ok(Ok(())) => {
            println!("[tokio] write_from -> Ok(())");
            true
        }
        Ok(Err(e)) => {
            println!("[tokio] write_from -> Err({:?})", e);
            false
        }
        Err(_) => {
            println!("[tokio] write_from -> PANIC");
            false
        }
    };
    println!(
        "[tokio] file length {} (= 1MiB + {}), {} of {} bytes on disk",
        flen,
        flen as i64 - MIB as i64,
        matched,
        buf.len()
    );
    assert!(matched < buf.len(), "rlimit did not cause a short write");
    assert!(!acked, "Qcow2IoTokio::write_from acknowledged a partial write");
}

const CLUSTER_BITS: usize = 16;
const CLUSTER: usize = 1 << CLUSTER_BITS;
const IMG_SIZE: u64 = 64 << 20;
/// guest offset of the cluster which gets the short write
const VICTIM: u64 = 1 << CLUSTER_BITS;

/// Write guest cluster 0 and flush, so that the L2 table exists and the
/// next cluster write allocates just a data cluster.
async fn guest_prepare<T: Qcow2IoOps>(dev: &Qcow2Dev<T>) {
    let mut b = Qcow2IoBuf::<u8>::new(CLUSTER);
    b.copy_from_slice(&vec![0x5a_u8; CLUSTER]);
    dev.write_at(&b, 0).await.unwrap();
    dev.flush_meta().await.unwrap();
}

/// Learn on a twin image (allocation is deterministic) at which host offset
/// the data cluster of the guest cluster `VICTIM` gets allocated.
async fn guest_probe_host_off_sync() -> u64 {
    let img = make_temp_qcow2_img(IMG_SIZE, CLUSTER_BITS, 4);
    let path = PathBuf::from(img.path());
    let params = qcow2_default_params!(false, false);
    let dev = qcow2_setup_dev_sync(&path, &params).unwrap();
    dev.qcow2_prep_io().await.unwrap();
    guest_prepare(&dev).await;

    let mut b = Qcow2IoBuf::<u8>::new(CLUSTER);
    b.copy_from_slice(&pattern(CLUSTER));
    dev.write_at(&b, VICTIM).await.unwrap();
    dev.flush_meta().await.unwrap();
    dev.get_mapping(VICTIM)
        .await
        .unwrap()
        .cluster_offset
        .unwrap()
}

/// Test 2, guest level, sync backend: a guest write of one full cluster whose
/// host cluster straddles the file size limit is acknowledged (write_at and
/// flush_meta return Ok), but reading it back gives only the first 4096 bytes.
/// FAILS on the unmodified library.
#[test]
fn t2_sync_guest_write_acked_but_data_missing() {
    let rt = tokio::runtime::Runtime::new().unwrap();
    rt.block_on(async move {
        let host_off = guest_probe_host_off_sync().await;
        println!("[guest/sync] twin image: guest {VICTIM:#x} -> host {host_off:#x}");

        let img = make_temp_qcow2_img(IMG_SIZE, CLUSTER_BITS, 4);
        let path = PathBuf::from(img.path());
        let params = qcow2_default_params!(false, false);
        let data = pattern(CLUSTER);

        let (w_res, f_res, mapped) = {
            let dev = qcow2_setup_dev_sync(&path, &params).unwrap();
            dev.qcow2_prep_io().await.unwrap();
            guest_prepare(&dev).await;

            let mut b = Qcow2IoBuf::<u8>::new(CLUSTER);
            b.copy_from_slice(&data);

            let guard = FsizeLimit::set(host_off + 4096);
            let w_res = dev.write_at(&b, VICTIM).await;
            let f_res = dev.flush_meta().await;
            drop(guard);

            let mapped = dev.get_mapping(VICTIM).await.unwrap().cluster_offset;
            (w_res, f_res, mapped)
        };
        println!(
            "[guest/sync] limit {:#x}: write_at -> {:?}, flush_meta -> {:?}, guest {:#x} -> host {:x?}",
            host_off + 4096,
            w_res,
            f_res,
            VICTIM,
            mapped
        );
        assert_eq!(mapped, Some(host_off), "allocation differs from the twin");

        // limit restored: reopen the image and read the cluster back
        let params = qcow2_default_params!(true, false);
        let dev = qcow2_setup_dev_sync(&path, &params).unwrap();
        dev.qcow2_prep_io().await.unwrap();
        let mut rb = Qcow2IoBuf::<u8>::new(CLUSTER);
        rb.copy_from_slice(&vec![0xee_u8; CLUSTER]);
        let r_res = dev.read_at(&mut rb, VICTIM).await;
        let good = rb.iter().zip(data.iter()).take_while(|(a, b)| a == b).count();
        let zeros = rb[good..].iter().filter(|b| **b == 0).count();
        println!(
            "[guest/sync] read back -> {:?}: first {} bytes match, {} of the remaining {} bytes are zero; host file length {:#x}",
            r_res,
            good,
            zeros,
            CLUSTER - good,
            std::fs::metadata(&path).unwrap().len()
        );

        assert!(good < CLUSTER, "rlimit did not cause a short write");
        assert!(
            w_res.is_err() || f_res.is_err(),
            "guest write_at+flush_meta returned Ok, but only {} of {} bytes read back",
            good,
            CLUSTER
        );
    });
}

//! Triage: spurious "Fail to load l2 table" / "Fail to load refcount block"
//! under cache-eviction pressure with concurrent operations.
//!
//! `get_l2_slice_slow()` inserts a new slice into the LRU cache, then (if the
//! insert evicted dirty victims) awaits the victim write-back, and only then
//! looks the key up again. The fresh entry has lru == 0 and no outside Arc
//! reference, so it is the first eviction candidate; if another task inserts
//! a slice while the first task is suspended in the write-back, the first
//! task's re-lookup misses and a valid read/write returns Err.
//!
//! Every test here only uses the public API with valid arguments and asserts
//! that all operations return Ok. The `control_*` tests issue the operations
//! one at a time (expected to pass), the others issue them concurrently on a
//! single thread (expected to FAIL on the unmodified library).

use qcow2_rs::dev::{Qcow2Dev, Qcow2DevParams};
use qcow2_rs::error::Qcow2Result;
use qcow2_rs::helpers::Qcow2IoBuf;
use qcow2_rs::ops::Qcow2IoOps;
use qcow2_rs::utils::{make_temp_qcow2_img, qcow2_alloc_dev, qcow2_setup_dev_tokio};
use std::cell::Cell;
use std::os::unix::fs::FileExt;
use std::path::{Path, PathBuf};
use std::rc::Rc;

const CLUSTER_BITS: usize = 16;
const CLUSTER: u64 = 1 << CLUSTER_BITS;
/// two 512-byte slices: the minimum the library accepts
const TINY_CACHE: Option<(u8, usize)> = Some((9, 1024));
/// guest range covered by one 512-byte L2 slice (64 entries * 64 KiB)
const L2_SLICE_SPAN: u64 = 64 * CLUSTER;

/// A plain file backend whose *modifying* requests (write/fallocate/fsync)
/// yield to the executor once before doing the (synchronous) I/O, like any
/// genuinely asynchronous backend would. Reads complete immediately. This
/// keeps the interleaving fully deterministic on a current-thread runtime.
struct YieldIo {
    file: std::fs::File,
    yields: Rc<Cell<usize>>,
}

impl YieldIo {
    fn new(path: &Path) -> Self {
        let file = std::fs::OpenOptions::new()
            .read(true)
            .write(true)
            .open(path)
            .unwrap();
        YieldIo {
            file,
            yields: Rc::new(Cell::new(0)),
        }
    }

    async fn suspend(&self) {
        self.yields.set(self.yields.get() + 1);
        tokio::task::yield_now().await;
    }
}

impl Qcow2IoOps for YieldIo {
    async fn read_to(&self, offset: u64, buf: &mut [u8]) -> Qcow2Result<usize> {
        // short read at EOF is reported the same way the stock backends do
        let mut done = 0;
        while done < buf.len() {
            let n = self.file.read_at(&mut buf[done..], offset + done as u64)?;
            if n == 0 {
                break;
            }
            done += n;
        }
        Ok(done)
    }

    async fn write_from(&self, offset: u64, buf: &[u8]) -> Qcow2Result<()> {
        self.suspend().await;
        self.file.write_all_at(buf, offset)?;
        Ok(())
    }

    async fn fallocate(&self, offset: u64, len: usize, _flags: u32) -> Qcow2Result<()> {
        self.suspend().await;
        self.file.write_all_at(&vec![0u8; len], offset)?;
        Ok(())
    }

    async fn fsync(&self, _offset: u64, _len: usize, _flags: u32) -> Qcow2Result<()> {
        self.suspend().await;
        Ok(())
    }
}

/// Run `fut`, but turn a hang (all tasks Pending, nobody to wake them) into
/// a test failure instead of blocking the test run forever.
async fn bounded<F: std::future::Future>(what: &str, fut: F) -> F::Output {
    match tokio::time::timeout(std::time::Duration::from_secs(10), fut).await {
        Ok(v) => v,
        Err(_) => panic!("{what}: operations did not complete within 10s (deadlock)"),
    }
}

fn rt() -> tokio::runtime::Runtime {
    tokio::runtime::Builder::new_current_thread()
        .enable_all()
        .build()
        .unwrap()
}

fn params(rb: Option<(u8, usize)>, l2: Option<(u8, usize)>) -> Qcow2DevParams {
    Qcow2DevParams::new(9, rb, l2, false, false)
}

async fn open_yield_dev(path: &PathBuf, p: &Qcow2DevParams) -> Qcow2Dev<YieldIo> {
    let io = YieldIo::new(path);
    let (dev, backing) = qcow2_alloc_dev(path, io, p).await.unwrap();
    assert!(backing.is_none());
    dev.qcow2_prep_io().await.unwrap();
    dev
}

fn pattern_buf(len: usize, seed: u8) -> Qcow2IoBuf<u8> {
    let mut buf = Qcow2IoBuf::<u8>::new(len);
    for (i, b) in buf.iter_mut().enumerate() {
        *b = seed.wrapping_add(i as u8);
    }
    buf
}

async fn write_ok<T: Qcow2IoOps>(dev: &Qcow2Dev<T>, off: u64, seed: u8) {
    let buf = pattern_buf(4096, seed);
    dev.write_at(&buf, off).await.unwrap();
}

async fn read_one<T: Qcow2IoOps>(dev: &Qcow2Dev<T>, off: u64) -> Qcow2Result<usize> {
    let mut buf = Qcow2IoBuf::<u8>::new(4096);
    dev.read_at(&mut buf, off).await
}

async fn write_one<T: Qcow2IoOps>(dev: &Qcow2Dev<T>, off: u64, seed: u8) -> Qcow2Result<()> {
    let buf = pattern_buf(4096, seed);
    dev.write_at(&buf, off).await
}

fn report<R: std::fmt::Debug>(what: &str, offs: &[u64], res: &[Qcow2Result<R>]) -> usize {
    let mut bad = 0;
    for (off, r) in offs.iter().zip(res.iter()) {
        println!("  {what} guest off {off:#x}: {r:?}");
        if r.is_err() {
            bad += 1;
        }
    }
    bad
}

/// Fill the 2-slice L2 cache with two *dirty* slices (slice 0 and slice 1
/// of the first L2 table), no flush afterwards.
async fn dirty_two_l2_slices<T: Qcow2IoOps>(dev: &Qcow2Dev<T>, steady_state: bool) {
    write_ok(dev, 0, 1).await;
    write_ok(dev, L2_SLICE_SPAN, 2).await;
    if steady_state {
        // everything on disk, L2 table cluster no longer "new"; then make
        // the two cached slices dirty again by mapping one more cluster each
        dev.flush_meta().await.unwrap();
        write_ok(dev, CLUSTER, 3).await;
        write_ok(dev, L2_SLICE_SPAN + CLUSTER, 4).await;
    }
}

/// guest offsets in L2 slices 2, 3, 4, 5 of the same (allocated) L2 table
fn other_slice_offsets() -> Vec<u64> {
    (2..6).map(|i| i * L2_SLICE_SPAN).collect()
}

// ---------------------------------------------------------------------------
// control: one at a time
// ---------------------------------------------------------------------------

#[test]
fn control_sequential_reads_and_writes_ok() {
    rt().block_on(async {
        for steady in [false, true] {
            let img = make_temp_qcow2_img(1 << 30, CLUSTER_BITS, 4);
            let path = PathBuf::from(img.path());
            let dev = open_yield_dev(&path, &params(None, TINY_CACHE)).await;
            dirty_two_l2_slices(&dev, steady).await;

            let offs = other_slice_offsets();
            let mut res = Vec::new();
            for off in &offs {
                res.push(read_one(&dev, *off).await);
            }
            println!("control sequential reads (steady_state={steady}):");
            assert_eq!(report("read", &offs, &res), 0);

            dirty_two_l2_slices(&dev, false).await;
            let mut res = Vec::new();
            for (i, off) in offs.iter().enumerate() {
                res.push(write_one(&dev, *off, i as u8).await);
            }
            println!("control sequential writes (steady_state={steady}):");
            assert_eq!(report("write", &offs, &res), 0);
            dev.flush_meta().await.unwrap();
        }
    });
}

// ---------------------------------------------------------------------------
// MAIN FINDING (L2): concurrent reads / writes, deterministic backend.
//
// "steady state": the L2 table is on disk (flush_meta() was called), the two
// cached slices were dirtied again afterwards. 4 concurrent operations, each
// in a different, uncached L2 slice of the same allocated L2 table.
// ---------------------------------------------------------------------------

#[test]
fn spurious_l2_err_concurrent_reads_yield_backend() {
    rt().block_on(async {
        let img = make_temp_qcow2_img(1 << 30, CLUSTER_BITS, 4);
        let path = PathBuf::from(img.path());
        let dev = open_yield_dev(&path, &params(None, TINY_CACHE)).await;
        dirty_two_l2_slices(&dev, true).await;

        let offs = other_slice_offsets();
        let res = bounded(
            "concurrent reads",
            futures::future::join_all(offs.iter().map(|off| read_one(&dev, *off))),
        )
        .await;
        println!("concurrent reads, yield backend:");
        let bad = report("read", &offs, &res);
        let _ = dev.flush_meta().await;
        assert_eq!(
            bad, 0,
            "{bad} of {} concurrent read_at() calls with valid arguments failed",
            offs.len()
        );
    });
}

#[test]
fn spurious_l2_err_concurrent_writes_yield_backend() {
    rt().block_on(async {
        let img = make_temp_qcow2_img(1 << 30, CLUSTER_BITS, 4);
        let path = PathBuf::from(img.path());
        let dev = open_yield_dev(&path, &params(None, TINY_CACHE)).await;
        dirty_two_l2_slices(&dev, true).await;

        let offs = other_slice_offsets();
        let res = bounded(
            "concurrent writes",
            futures::future::join_all(
                offs.iter()
                    .enumerate()
                    .map(|(i, off)| write_one(&dev, *off, i as u8)),
            ),
        )
        .await;
        println!("concurrent writes, yield backend:");
        let bad = report("write", &offs, &res);
        let _ = dev.flush_meta().await;
        assert_eq!(
            bad, 0,
            "{bad} of {} concurrent write_at() calls with valid arguments failed",
            offs.len()
        );
    });
}

// ---------------------------------------------------------------------------
// MAIN FINDING (L2) on the stock tokio backend, no custom backend code.
//
// Two tasks only (see side finding B for why not more). Task 1 reads from an
// uncached slice. Task 2 first reads an already mapped cluster of a *cached*
// slice (one backend read, which merely delays it behind task 1's slice
// load) and then reads from another uncached slice, so its insert lands
// while task 1 is suspended in the victim write-back.
// ---------------------------------------------------------------------------

#[test]
fn spurious_l2_err_stock_tokio_backend() {
    rt().block_on(async {
        let mut total_bad = 0;
        // the interleaving depends on real I/O completion order: try a few
        // different amounts of extra delay for task 2
        for extra_yields in [0usize, 1, 2, 4, 8, 16, 32, 64, 128, 256] {
            let img = make_temp_qcow2_img(1 << 30, CLUSTER_BITS, 4);
            let path = PathBuf::from(img.path());
            let dev = qcow2_setup_dev_tokio(&path, &params(None, TINY_CACHE))
                .await
                .unwrap();
            dirty_two_l2_slices(&dev, true).await;

            let t1 = read_one(&dev, 2 * L2_SLICE_SPAN);
            let t2 = async {
                for _ in 0..extra_yields {
                    tokio::task::yield_now().await;
                }
                let first = read_one(&dev, L2_SLICE_SPAN).await; // cache hit
                let second = read_one(&dev, 3 * L2_SLICE_SPAN).await;
                (first, second)
            };
            let (r1, (r2a, r2b)) =
                bounded("concurrent reads", async { futures::join!(t1, t2) }).await;
            println!("stock tokio backend, task 2 delayed by {extra_yields} yields:");
            let offs = [2 * L2_SLICE_SPAN, L2_SLICE_SPAN, 3 * L2_SLICE_SPAN];
            total_bad += report("read", &offs, &[r1, r2a, r2b]);
            let _ = dev.flush_meta().await;
        }
        assert_eq!(
            total_bad, 0,
            "{total_bad} concurrent read_at() calls with valid arguments failed"
        );
    });
}

// ---------------------------------------------------------------------------
// MAIN FINDING (refcount block variant): concurrent discards, tiny refblock
// cache, default (large) L2 cache.
// ---------------------------------------------------------------------------

/// host range covered by one 512-byte refblock slice (256 16-bit refcounts)
const RB_SLICE_SPAN: u64 = 256 * CLUSTER;

/// Write 80 MiB so that host clusters are spread over refblock slices 0..=4,
/// flush, and return for each of the slices 1..=4 two guest cluster offsets
/// whose host cluster lives in that refblock slice.
async fn prep_rb_image<T: Qcow2IoOps>(dev: &Qcow2Dev<T>) -> Vec<[u64; 2]> {
    let chunk = 1usize << 20;
    let buf = pattern_buf(chunk, 7);
    for i in 0..80u64 {
        dev.write_at(&buf, i * chunk as u64).await.unwrap();
    }
    dev.flush_meta().await.unwrap();

    let mut picks: Vec<Vec<u64>> = vec![Vec::new(); 5];
    let mut g = 0u64;
    while g < 80 << 20 {
        let m = dev.get_mapping(g).await.unwrap();
        let host = m.cluster_offset.expect("written cluster must be mapped");
        let k = (host / RB_SLICE_SPAN) as usize;
        if k < picks.len() && picks[k].len() < 2 {
            picks[k].push(g);
        }
        g += CLUSTER;
    }
    (1..=4)
        .map(|k| {
            assert_eq!(picks[k].len(), 2, "no guest cluster found in rb slice {k}");
            [picks[k][0], picks[k][1]]
        })
        .collect()
}

#[test]
fn control_sequential_discards_ok() {
    rt().block_on(async {
        let img = make_temp_qcow2_img(256 << 20, CLUSTER_BITS, 4);
        let path = PathBuf::from(img.path());
        let dev = open_yield_dev(&path, &params(TINY_CACHE, None)).await;
        let g = prep_rb_image(&dev).await;

        // dirty refblock slices 1 and 2, they now fill the refblock cache
        dev.discard(g[0][0], CLUSTER).await.unwrap();
        dev.discard(g[1][0], CLUSTER).await.unwrap();

        let offs = [g[2][0], g[3][0]];
        let mut res = Vec::new();
        for off in offs {
            res.push(dev.discard(off, CLUSTER).await);
        }
        println!("control sequential discards:");
        assert_eq!(report("discard", &offs, &res), 0);
        dev.flush_meta().await.unwrap();
    });
}

#[test]
fn spurious_refblock_err_concurrent_discards_yield_backend() {
    rt().block_on(async {
        let img = make_temp_qcow2_img(256 << 20, CLUSTER_BITS, 4);
        let path = PathBuf::from(img.path());
        let dev = open_yield_dev(&path, &params(TINY_CACHE, None)).await;
        let g = prep_rb_image(&dev).await;

        // dirty refblock slices 1 and 2, they now fill the refblock cache
        dev.discard(g[0][0], CLUSTER).await.unwrap();
        dev.discard(g[1][0], CLUSTER).await.unwrap();

        // host clusters of these two live in refblock slices 3 and 4
        let offs = [g[2][0], g[3][0]];
        let res = bounded(
            "concurrent discards",
            futures::future::join_all(offs.iter().map(|off| dev.discard(*off, CLUSTER))),
        )
        .await;
        println!("concurrent discards, yield backend:");
        let bad = report("discard", &offs, &res);
        let _ = dev.flush_meta().await;
        assert_eq!(
            bad, 0,
            "{bad} of {} concurrent discard() calls with valid arguments failed",
            offs.len()
        );
    });
}

// ---------------------------------------------------------------------------
// SIDE FINDING A: hang (all tasks Pending forever, 0% CPU) instead of the
// spurious error when the L2 table's cluster is still "new" (never flushed).
// Suspected cause (not verified): several eviction-driven
// flush_cache_entries() run concurrently on slices of the same new cluster;
// one holds the per-cluster write lock and waits for new_cluster.write(),
// another holds new_cluster.read() and waits for the per-cluster lock.
// ---------------------------------------------------------------------------

#[test]
fn side_finding_deadlock_concurrent_reads_fresh_l2_table() {
    rt().block_on(async {
        let img = make_temp_qcow2_img(1 << 30, CLUSTER_BITS, 4);
        let path = PathBuf::from(img.path());
        let dev = open_yield_dev(&path, &params(None, TINY_CACHE)).await;
        dirty_two_l2_slices(&dev, false).await;

        // (with only 2 concurrent reads this setup yields the spurious
        // "Fail to load l2 table" instead of the hang)
        let offs = other_slice_offsets();
        let res = bounded(
            "4 concurrent reads on a never-flushed L2 table",
            futures::future::join_all(offs.iter().map(|off| read_one(&dev, *off))),
        )
        .await;
        println!("concurrent reads, fresh L2 table, yield backend:");
        assert_eq!(report("read", &offs, &res), 0);
    });
}

// ---------------------------------------------------------------------------
// SIDE FINDING B: commit_wmap() never terminates when more cache misses are
// in flight than the cache has slots: `while r.len() + wlen > limit` keeps
// calling __pop_lru() on an empty map. It is a busy loop without an await,
// so it has to be watched from another thread.
// ---------------------------------------------------------------------------

#[test]
fn side_finding_commit_wmap_spins_stock_tokio_backend() {
    let (tx, rx) = std::sync::mpsc::channel();
    std::thread::spawn(move || {
        rt().block_on(async {
            let img = make_temp_qcow2_img(1 << 30, CLUSTER_BITS, 4);
            let path = PathBuf::from(img.path());
            let dev = qcow2_setup_dev_tokio(&path, &params(None, TINY_CACHE))
                .await
                .unwrap();
            dirty_two_l2_slices(&dev, true).await;

            // 3 concurrent misses, cache has 2 slots
            let offs: Vec<u64> = (2..5).map(|i| i * L2_SLICE_SPAN).collect();
            let res = futures::future::join_all(offs.iter().map(|off| read_one(&dev, *off))).await;
            let bad = res.iter().filter(|r| r.is_err()).count();
            let _ = dev.flush_meta().await;
            let _ = tx.send(bad);
        });
    });
    match rx.recv_timeout(std::time::Duration::from_secs(10)) {
        Ok(bad) => assert_eq!(bad, 0, "{bad} concurrent reads failed"),
        Err(_) => panic!("3 concurrent read_at() calls did not return within 10s (busy loop)"),
    }
}
